// Native replay for the changing-force-constant restraint: real module, stub proxy with simulation_running() == true.
// A harmonic restraint grows from k=1 to k=5 over 4 steps at fixed distance; the accumulated work column of the trajectory file must
// equal sum dU/dk * dk, i.e. stop growing once the schedule is over.
#include "replay_util.h"
#include <cmath>
#include <vector>
#include <unistd.h>
#include "colvarmodule.h"
#include "colvarproxy.h"
#include "colvarbias.h"
#include "colvarproxy_stub.h"
#include "colvarproxy_stub.cpp"
class run_proxy : public colvarproxy_stub { public: run_proxy() : colvarproxy_stub() { b_simulation_running = true; } };
static char const *staged_conf = "colvarsTrajFrequency 0\ncolvarsRestartFrequency 0\ncolvar {\n  name d\n  distance {\n    group1 { atomNumbers 1 }\n    group2 { atomNumbers 2 }\n  }\n}\n"
    "harmonic {\n  name h\n  colvars d\n  centers 1.0\n  forceConstant 1.0\n  targetForceConstant 5.0\n  targetNumSteps 5\n  targetNumStages 2\n}\n";
static run_proxy *new_instance() {
  run_proxy *proxy = new run_proxy(); proxy->set_unit_system("real", false); proxy->colvars->setup_input(); proxy->colvars->setup_output();
  for (int ai = 0; ai < 2; ai++) proxy->init_atom(ai + 1);
  if (proxy->colvars->read_config_string(staged_conf)) { delete proxy; return NULL; }
  return proxy;
}
static double step_k(run_proxy *proxy, long step) {   // force constant in use at this step, from E = 1/2 k (d - c)^2 with d - c = 1
  std::vector<cvm::atom_pos> &pos = *(proxy->modify_atom_positions()); pos[0] = cvm::atom_pos(0.0, 0.0, 0.0); pos[1] = cvm::atom_pos(2.0, 0.0, 0.0);
  proxy->colvars->it = step; proxy->colvars->calc(); return 2.0 * proxy->colvars->biases[0]->get_energy();
}
static int staged_restart() {
  run_proxy *a = new_instance(); if (!a) { std::cout << "REPLAY: configuration rejected\n"; return 3; }
  std::vector<double> ref; for (long s = 0; s <= 12; s++) ref.push_back(step_k(a, s)); delete a;
  int nbad_total = 0; std::ostringstream first;
  for (long stop = 3; stop <= 7; stop++) {           // stop and resume at several steps, including the stage boundary at step 5
    run_proxy *b = new_instance(); for (long s = 0; s <= stop; s++) step_k(b, s);
    std::ostringstream os; b->colvars->write_state(os); delete b;
    run_proxy *c = new_instance(); c->colvars->it = c->colvars->it_restart = stop; std::istringstream is(os.str()); c->colvars->read_state(is);
    for (long s = stop; s <= 12; s++) { double k = step_k(c, s);
      if (std::fabs(k - ref[s]) > 1e-9) { nbad_total++; if (first.str().empty()) first << "stopped and resumed at step " << stop << ": at step " << s << " the resumed run uses k = " << k << ", the uninterrupted run k = " << ref[s]; } }
    delete c;
  }
  if (nbad_total) REPLAY_FAIL("staged force constant 1 -> 5 in 2 stages of 5 steps: a run stopped and resumed from its saved state deviates from the uninterrupted run at " << nbad_total << " (stop, step) pairs; " << first.str());
  REPLAY_PASS("staged force constant: runs resumed at steps 3..7 reproduce the uninterrupted schedule");
}
int main(int argc, char **argv) {
  if (argc < 3) return 2; std::string task(argv[1]);
  if (task == "k_moving_update_staged") { char d2[] = "./cvkmovXXXXXX"; if (!mkdtemp(d2)) return 2; if (chdir(d2)) return 2; return staged_restart(); }
  char dir[] = "./cvkmovXXXXXX"; if (!mkdtemp(dir)) return 2; if (chdir(dir)) return 2;
  run_proxy *proxy = new run_proxy();
  proxy->set_unit_system("real", false); proxy->set_output_prefix("km");
  proxy->colvars->setup_input(); proxy->colvars->setup_output();
  for (int ai = 0; ai < 2; ai++) proxy->init_atom(ai + 1);
  int err = proxy->colvars->read_config_string("colvarsTrajFrequency 1\ncolvarsRestartFrequency 0\ncolvar {\n  name d\n  distance {\n    group1 { atomNumbers 1 }\n    group2 { atomNumbers 2 }\n  }\n}\n"
    "harmonic {\n  name h\n  colvars d\n  centers 1.0\n  forceConstant 1.0\n  targetForceConstant 5.0\n  targetNumSteps 4\n  outputAccumulatedWork on\n}\n");
  if (err) { std::cout << "REPLAY: configuration rejected\n"; return 3; }
  std::vector<cvm::atom_pos> &pos = *(proxy->modify_atom_positions());
  for (int step = 0; step <= 9; step++) { pos[0] = cvm::atom_pos(0.0, 0.0, 0.0); pos[1] = cvm::atom_pos(2.0, 0.0, 0.0); proxy->colvars->it = step; proxy->colvars->calc(); }
  proxy->post_run(); delete proxy;
  std::ifstream is("km.colvars.traj"); if (!is) { std::cout << "REPLAY: no trajectory written\n"; return 3; }
  std::string line; int wcol = -1; int nbad = 0, nlines = 0; std::ostringstream first;
  while (std::getline(is, line)) {
    std::istringstream ls(line); std::vector<std::string> tok; std::string t; while (ls >> t) tok.push_back(t);
    if (tok.empty()) continue;
    if (tok[0] == "#") { for (size_t k = 1; k < tok.size(); k++) if (tok[k] == "W_h") wcol = int(k) - 1; continue; }
    if (wcol < 0 || size_t(wcol) >= tok.size()) continue;
    long st = std::strtol(tok[0].c_str(), NULL, 10); double W = std::strtod(tok[wcol].c_str(), NULL);
    double ref = 0.5 * double(st < 4 ? st : 4);   // dU/dk = 1/2 (d - c)^2 = 1/2, dk = 1 per step for steps 1..4
    nlines++; if (std::fabs(W - ref) > 1e-9) { nbad++; if (first.str().empty()) first << "step " << st << ": written accumulated work " << W << ", sum of dU/dk*dk is " << ref; }
  }
  if (wcol < 0 || nlines == 0) { std::cout << "REPLAY: accumulated-work column not found\n"; return 3; }
  if (nbad) REPLAY_FAIL("force constant 1 -> 5 over 4 steps at fixed distance: " << nbad << " of " << nlines << " lines have the wrong accumulated work; " << first.str());
  REPLAY_PASS("accumulated work equals sum dU/dk*dk on all " << nlines << " lines");
}

// Native replay for colvar::calc_acf with corrFuncWithColvar (C19): real module + stub proxy, two distances a(t), b(t) with different, known
// sequences; variable a has corrFunc on, corrFuncWithColvar b, type coordinate, length 3, not normalised.  The written correlation function is
// compared with the textbook cross-correlation in either time convention, C(tau) = < a(t) b(t - tau) > or < a(t - tau) b(t) >, over the same frames;
// a control run computes the auto-correlation of a, which must match < a(t) a(t - tau) >.
#include "replay_util.h"
#include <cmath>
#include <vector>
#include <unistd.h>
#include "colvarmodule.h"
#include "colvarproxy.h"
#include "colvar.h"
#include "colvarproxy_stub.h"
#include "colvarproxy_stub.cpp"
static double const A[10] = {1.0, 2.0, 4.0, 3.0, 5.0, 2.5, 1.5, 3.5, 4.5, 2.0};
static double const B[10] = {2.0, 1.0, 1.5, 4.0, 2.5, 5.0, 3.0, 1.0, 2.0, 3.5};
static int run(std::string const &prefix, bool cross, std::vector<double> &out, long &nsamples) {
  colvarproxy_stub *proxy = new colvarproxy_stub(); proxy->set_unit_system("real", false); proxy->set_output_prefix(prefix); proxy->colvars->setup_input(); proxy->colvars->setup_output();
  for (int ai = 0; ai < 4; ai++) proxy->init_atom(ai + 1);
  std::string conf = "colvarsTrajFrequency 0\ncolvarsRestartFrequency 0\ncolvar {\n  name b\n  distance {\n    group1 { atomNumbers 3 }\n    group2 { atomNumbers 4 }\n  }\n}\n"
    "colvar {\n  name a\n  distance {\n    group1 { atomNumbers 1 }\n    group2 { atomNumbers 2 }\n  }\n  corrFunc on\n  corrFuncType coordinate\n  corrFuncLength 3\n  corrFuncStride 1\n  corrFuncNormalize off\n";
  if (cross) conf += "  corrFuncWithColvar b\n"; conf += "}\n";
  if (proxy->colvars->read_config_string(conf)) { delete proxy; return 3; }
  std::vector<cvm::atom_pos> &pos = *(proxy->modify_atom_positions());
  for (int s = 0; s < 10; s++) { pos[0] = cvm::atom_pos(0.0, 0.0, 0.0); pos[1] = cvm::atom_pos(A[s], 0.0, 0.0); pos[2] = cvm::atom_pos(0.0, 5.0, 0.0); pos[3] = cvm::atom_pos(B[s], 5.0, 0.0); proxy->colvars->it = s; proxy->colvars->calc(); }
  colvarmodule::colvar_by_name("a")->write_output_files(); delete proxy;
  std::ifstream is((prefix + ".a.corrfunc.dat").c_str()); if (!is) return 3; std::string line; out.clear(); nsamples = -1;
  while (std::getline(is, line)) { size_t p = line.find("Number of samples ="); if (p != std::string::npos) nsamples = std::strtol(line.c_str() + p + 19, NULL, 10);
    if (line.size() == 0 || line[0] == '#') continue; std::istringstream ls(line); long st; double v; if (ls >> st >> v) out.push_back(v); }
  return 0;
}
// mean over the last n frames t of x(t) * y(t - tau)
static double corr(double const *x, double const *y, int tau, long n) { double s = 0.0; for (int t = 9; t > 9 - n; t--) s += x[t] * y[t - tau]; return s / double(n); }
int main(int argc, char **argv) {
  if (argc < 3) return 2;
  char dir[] = "./cvacfXXXXXX"; if (!mkdtemp(dir)) return 2; if (chdir(dir)) return 2;
  std::vector<double> autoc, cross; long na = 0, nc = 0;
  if (run("auto", false, autoc, na) || run("cross", true, cross, nc)) { std::cout << "REPLAY: configuration rejected or no output\n"; return 3; }
  if (autoc.size() < 4 || cross.size() < 4 || na <= 0 || nc <= 0) { std::cout << "REPLAY: correlation function output too short\n"; return 3; }
  std::ostringstream msg; int bad_auto = 0, bad_cross = 0;
  for (int tau = 0; tau <= 3; tau++) if (std::fabs(autoc[tau] - corr(A, A, tau, na)) > 1e-6 * (1.0 + std::fabs(autoc[tau]))) bad_auto++;
  int fwd = 0, bwd = 0; for (int tau = 0; tau <= 3; tau++) { if (std::fabs(cross[tau] - corr(A, B, tau, nc)) > 1e-6 * (1.0 + std::fabs(cross[tau]))) fwd++; if (std::fabs(cross[tau] - corr(B, A, tau, nc)) > 1e-6 * (1.0 + std::fabs(cross[tau]))) bwd++; }
  bad_cross = (fwd && bwd) ? (fwd < bwd ? fwd : bwd) : 0;
  int as_b_auto = 0; for (int tau = 1; tau <= 3; tau++) if (std::fabs(cross[tau] - corr(B, B, tau, nc)) < 1e-6 * (1.0 + std::fabs(cross[tau]))) as_b_auto++;
  if (bad_auto) REPLAY_FAIL("auto-correlation of a: " << bad_auto << " of 4 lags differ from < a(t) a(t - tau) >");
  if (bad_cross) REPLAY_FAIL("corrFunc of a with corrFuncWithColvar b over " << nc << " frames: written C(0..3) = " << cross[0] << " " << cross[1] << " " << cross[2] << " " << cross[3]
     << "; textbook < a(t) b(t - tau) > = " << corr(A, B, 0, nc) << " " << corr(A, B, 1, nc) << " " << corr(A, B, 2, nc) << " " << corr(A, B, 3, nc)
     << "; < a(t - tau) b(t) > = " << corr(B, A, 0, nc) << " " << corr(B, A, 1, nc) << " " << corr(B, A, 2, nc) << " " << corr(B, A, 3, nc)
     << "; " << as_b_auto << " of the lags 1..3 equal the AUTO-correlation of b, and C(0) = " << cross[0] << " vs < a a > = " << corr(A, A, 0, nc) << ", < a b > = " << corr(A, B, 0, nc));
  REPLAY_PASS("auto- and cross-correlation functions equal their textbook definitions over " << nc << " frames");
}

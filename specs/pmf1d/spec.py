def s(name, src, sig, **kw): d = {'name': name, 'src': src, 'sig': sig, 'inc': name + '.body.inc'}; d.update(kw); return d
UNIT = {
 'cxxflags': ['-DCVS_SREAL', '-DCVS_VEC_SIZED', '-DCVS_VEC_COPY', '-DCVS_VEC_MINCAP=4'],
 'slices': [
  s('integrate', 'colvargrid.cpp', r'int integrate_potential::integrate\(const int itmax, const cvm::real &tol, cvm::real & err, bool verbose\)', R5=['sum']),
 ],
 'assumed': ['symbolic reals; the gradient grid is a stand-in: average() and value_output_smoothed(ix, smoothed) are uninterpreted calls, index_ok is the 1-D range test; the PMF grid\'s own new_index / index_ok / incr / set_value are 1-D stand-ins (their real bodies are under contract in unit grid_index)',
             'the frame declares `gradients` as a plain pointer (the real member is a std::shared_ptr; the front end has no overloaded operator->)',
             'dimensions 2 and 3 (nr_linbcg_sym) are not reached: nd == 1'],
 'tasks': [
  {'id': 'integrate_1d', 'properties': ['C16'], 'slices': ['integrate'], 'harness': 'h_integrate_1d', 'enforce': 'k_integrate_1d', 'unwind': 6, 'unwind_body': 5,
   'bounded': '1 to 3 gradient bins (loop unwound)',
   'mutants': [('sum += (val - corr) * widths[0];', 'sum += (val + corr) * widths[0];'), ('set_value(ix, sum);\n      cvm::real val', 'cvm::real val'), ('corr = gradients->average();', 'corr = 0.0;', 'integrate', 0),
               ('if ( periodic[0] ) {', 'if ( !periodic[0] ) {'), ('sum += (val - corr) * widths[0];', 'sum = (val - corr) * widths[0];')]},
 ],
}

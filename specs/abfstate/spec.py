def s(name, src, sig, **kw): d = {'name': name, 'src': src, 'sig': sig, 'inc': name + '.body.inc'}; d.update(kw); return d
UNIT = {
 'slices': [s('read_state_data', 'colvarbias_abf.cpp', r'template <typename IST> IST &colvarbias_abf::read_state_data_template_\(IST &is\)')],
 'assumed': ['the stream, read_state_data_key, the grids\' read_raw / copy_grid and set_div are logging stubs whose success flags are arbitrary'],
 'tasks': [
  {'id': 'read_state_data', 'properties': ['C14', 'C03', 'C16'], 'slices': ['read_state_data'], 'harness': 'h_read_state_data', 'enforce': 'k_read_state_data',
   'replace': ['k_key', 'k_read_raw', 'k_copy_grid', 'k_set_div'], 'unwind': 20,
   'mutants': [('  if (shared_on) {\n    last_gradients->copy_grid', '  if (shared_on && shared_freq) {\n    last_gradients->copy_grid'), ('last_samples->copy_grid(*samples);', 'last_samples->copy_grid(*local_samples);'),
               ('if (! read_state_data_key(is, "local_gradient")) {\n      return is;\n    }', ''), ('shared_last_step = cvm::step_absolute();', 'shared_last_step = cvm::step_relative();')]},
 ],
}

// Frame TU for colvar::get_state_params (C17 / C03: which quantities go into the state under which keyword).
// Body sliced verbatim from src/colvar.cpp; the output stream records (keyword literal | value identity) tokens.
#define CVS_SMAX 6
#include <vector>
#include <string>
#include <cvm_stub.h>
#include <cvs_echo.h>
enum features_colvar
#include "features_colvar.body.inc"
;
extern "C" { extern int e_i[64]; }
extern "C" void k_tok(int kind, int id);     // kind 1 = keyword literal, 2 = value, 3 = object name
struct colvarvalue { int tag; };
struct manip_t { int dummy; };
struct tagged_real { int tag; };   // a cvm::real member identified by a tag
struct wrapped_t { int dummy; };   // result of cvm::wrap_string(name, width)
static int lit_code(char const *s) {
  char const *names[14] = { "  name ", "\n", "  x ", "  v ", "  extended_x ", "  extended_v ", " ", " r_", " v_", " vr_", " Ep_", " Ek_", " ft_", " fa_" };
  for (int k = 0; k < 14; k++) { bool eq = true; for (int i = 0; i < 16; i++) { if (names[k][i] != s[i]) { eq = false; break; } if (s[i] == 0) break; } if (eq) return k + 1; }
  return 99;
}
namespace std {
  struct ostringstream {
    ostringstream &operator<<(char const *s) { k_tok(1, lit_code(s)); return *this; }
    ostringstream &operator<<(string const &) { k_tok(3, 0); return *this; }
    ostringstream &operator<<(colvarvalue const &v) { k_tok(2, v.tag); return *this; }
    ostringstream &operator<<(manip_t const &) { return *this; }
    ostringstream &operator<<(tagged_real const &v) { k_tok(2, v.tag); return *this; }
    ostringstream &operator<<(wrapped_t const &) { k_tok(3, 0); return *this; }
    string str() const { string r; return r; }
  };
  inline manip_t setprecision(int) { manip_t m; return m; }
  inline manip_t setw(int) { manip_t m; return m; }
}
#define cv_prec cv_prec_()
#define cv_width cv_width_()
struct cvm_fmt2 : colvarmodule { static int cv_prec_() { return 14; } static int cv_width_() { return 21; } };
#undef cvm
#define cvm cvm_fmt2
struct cvm_fmt3 : cvm_fmt2 { static wrapped_t wrap_string(std::string const &, size_t) { wrapped_t w; return w; } };
#undef cvm
#define cvm cvm_fmt3
namespace std { typedef ostringstream ostream; }
struct cvv_w : colvarvalue { size_t output_width(int w) const { return (size_t) w; } };
struct K_wtl {
  bool en_[f_cv_ntot]; bool is_enabled(int f = f_cv_active) const { return en_[f]; }
  std::string name; cvv_w x;
  std::ostream &body(std::ostream &os)
#include "write_traj_label.body.inc"
};
struct K_wt {
  bool en_[f_cv_ntot]; bool is_enabled(int f = f_cv_active) const { return en_[f]; }
  colvarvalue x, x_reported, v_fdiff, v_reported, ft_reported, fa_; tagged_real potential_energy, kinetic_energy;
  colvarvalue applied_force() const { return fa_; }
  std::ostream &body(std::ostream &os)
#include "write_traj.body.inc"
};
struct K_gsp {
  bool en_[f_cv_ntot]; bool is_enabled(int f = f_cv_active) const { return en_[f]; }
  std::string name;                //@real colvar.h
  colvarvalue x;                   //@real colvar.h
  colvarvalue x_ext;               //@real colvar.h
  colvarvalue v_ext;               //@real colvar.h
  colvarvalue x_reported;          //@real colvar.h
  colvarvalue v_reported;          //@real colvar.h
  std::string const body() const
#include "get_state_params.body.inc"
};
extern "C" int k_get_state_params(bool *en) {
  K_gsp f; for (int k = 0; k < f_cv_ntot; k++) { f.en_[k] = en[k]; e_i[k] = en[k]; }
  f.x.tag = 1; f.x_ext.tag = 2; f.v_ext.tag = 3; f.x_reported.tag = 4; f.v_reported.tag = 5;
  f.body();
  return 0;
}
extern "C" int k_write_traj_label(bool *en) { K_wtl f; for (int k = 0; k < f_cv_ntot; k++) { f.en_[k] = en[k]; e_i[k] = en[k]; } std::ostream os; f.body(os); return 0; }
extern "C" int k_write_traj(bool *en) { K_wt f; for (int k = 0; k < f_cv_ntot; k++) { f.en_[k] = en[k]; e_i[k] = en[k]; } std::ostream os;
  f.x.tag = 1; f.x_reported.tag = 4; f.v_fdiff.tag = 6; f.v_reported.tag = 5; f.potential_energy.tag = 7; f.kinetic_energy.tag = 8; f.ft_reported.tag = 9; f.fa_.tag = 10; f.body(os); return 0; }
extern "C" { extern int g_fid[12]; }
extern "C" void cvs_set_fids() { g_fid[0] = f_cv_external; g_fid[1] = f_cv_extended_Lagrangian; g_fid[2] = f_cv_output_velocity; g_fid[3] = f_cv_output_value; g_fid[4] = f_cv_output_energy; g_fid[5] = f_cv_output_total_force; g_fid[6] = f_cv_output_applied_force; }

#include "contract.h"
int e_i[16]; int g_nstage, g_stage_id[12], g_stage_extra[12], g_stage_rc[12]; int g_nalloc;
int g_throw, g_debug, g_vec_alloc; unsigned g_errors, g_error_bits; size_t g_alloc_bytes;
long long g_step_rel, g_step_abs; int g_sim_continuing, g_sim_running;
size_t nondet_size_t(void); int nondet_int(void);
double k_floor(double x) { return x; } double k_sqrt(double x) { return x; } double k_pow(double x, double y) { return x; }
double k_boltzmann(void) { return 0.0; } double k_target_temperature(void) { return 0.0; } double k_dt(void) { return 1.0; } int k_same_step(void) { return 0; }
void h_clear_keyword_registry(void) { k_clear_keyword_registry(nondet_size_t(), nondet_size_t(), nondet_size_t(), nondet_size_t()); __CPROVER_assert(0, "canary: returns"); }
void h_parse_config(void) { g_debug = 0; g_errors = 0; g_error_bits = 0; for (int k = 0; k < 12; k++) g_stage_rc[k] = nondet_int(); size_t n = nondet_size_t();
  k_parse_config(n); if (g_nstage == 5 && n > 0) __CPROVER_assert(0, "canary: all stages ran after a stale auto-generated configuration"); if (g_nstage == 2) __CPROVER_assert(0, "canary: stopped at global parameters"); }
void h_coordnum_pairlist(void) { g_debug = 0; g_errors = 0; int *f; int r = k_coordnum_pairlist(f); if (g_nalloc == 1) __CPROVER_assert(0, "canary: pairlist allocated"); if (r != 0) __CPROVER_assert(0, "canary: rejected"); }

def s(name, src, sig, **kw): d = {'name': name, 'src': src, 'sig': sig, 'inc': name + '.body.inc'}; d.update(kw); return d
UNIT = {
 'slices': [s('update_div_neighbors', 'colvargrid.cpp', r'void integrate_potential::update_div_neighbors\(const std::vector<int> &ix0\)')],
 'assumed': ['colvar_grid<T>::wrap is replaced by its contract k_wrap (enforced in unit grid_index, nd <= 3)', 'update_div_local is a logging stub (its stencil is not under contract)',
             'non-periodic dimensions have the upper neighbour inside the grid (expanded PMF grid), as the code comments state'],
 'tasks': [
  {'id': 'update_div_neighbors', 'properties': ['C16'], 'slices': ['update_div_neighbors'], 'harness': 'h_update_div_neighbors', 'enforce': 'k_update_div_neighbors',
   'replace': ['k_wrap', 'k_update_div_local'], 'unwind': 20, 'object_bits': 10,   # nd in {1,2,3} is the function's whole domain and its loops have fixed trip counts: not a bounded stand-in
   'mutants': [('ix[1]++; wrap(ix);', 'ix[1]++;'), ('ix[0]--; wrap(ix);', 'ix[0]++; wrap(ix);'), ('ix[2] = ix0[2];', 'ix[2] = ix0[1];'), ('ix[2]++;', 'ix[2]--;'), ('for (k = 0; k<2; k++) {', 'for (k = 0; k<1; k++) {')]},
 ],
}

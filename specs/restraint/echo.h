/* echo of wrapper inputs for counterexample traces: packed into two arrays (two frame targets) */
#ifndef RESTRAINT_ECHO_H
#define RESTRAINT_ECHO_H
#ifdef __cplusplus
extern "C" {
#endif
extern double e_d[16]; extern long long e_l[16];
#ifdef __cplusplus
}
#endif
#define e_force_k e_d[0]
#define e_width e_d[1]
#define e_value e_d[2]
#define e_center e_d[3]
#define e_lw e_d[4]
#define e_uw e_d[5]
#define e_lk e_d[6]
#define e_uk e_d[7]
#define e_dist e_d[8]
#define e_actual e_d[9]
#define e_i e_l[0]
#define e_has_lower e_l[1]
#define e_has_upper e_l[2]
#define e_periodic e_l[3]
#define e_bypass e_l[4]
#define e_step_abs e_l[5]
#define e_step_rel e_l[6]
#define e_first_step e_l[7]
#define e_target_nsteps e_l[8]
#define e_stage e_l[9]
#define e_target_nstages e_l[10]
#define e_chg e_l[11]
#define e_running e_l[12]
#endif

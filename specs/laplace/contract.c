#include "contract.h"
TERM_GHOST_DEFS
int g_a[27], g_la[27], g_w[3]; int e_l[8]; int g_p; int g_nx[3];
int g_throw, g_debug, g_vec_alloc; unsigned g_errors, g_error_bits; size_t g_alloc_bytes;
long long g_step_rel, g_step_abs; int g_sim_continuing, g_sim_running;
size_t nondet_size_t(void); int nondet_int(void); double nondet_double(void); _Bool nondet_bool(void);
double k_floor(double x) { return x; } double k_sqrt(double x) { return x; } double k_pow(double x, double y) { return x; }
double k_boltzmann(void) { return 0.0; } double k_target_temperature(void) { return 0.0; } double k_dt(void) { return 1.0; } int k_same_step(void) { return 0; }
#define H(NAME, ND, N0, N1, N2, PER, MID) void NAME(void) { g_debug = 0; g_tn = 0; g_p = nondet_int(); g_nx[0] = N0; g_nx[1] = N1; g_nx[2] = N2; k_atimes(ND, N0, N1, N2, PER, PER, PER); \
  if (g_p == 0) __CPROVER_assert(0, "canary: corner point reachable"); if (g_p == MID) __CPROVER_assert(0, "canary: point in the interior of the last dimension reachable"); }
H(h_atimes_2d_open, 2, 3, 3, 3, 0, 4)
H(h_atimes_2d_periodic, 2, 3, 3, 3, 1, 4)
H(h_atimes_3d_open, 3, 2, 2, 3, 0, 1)
H(h_atimes_3d_periodic, 3, 2, 2, 3, 1, 1)
/* mixed periodicity (the two harnesses above have equal flags): periodic in x only, periodic in y only */
#define HM(NAME, PX, PY, MID) void NAME(void) { g_debug = 0; g_tn = 0; g_p = nondet_int(); g_nx[0] = 3; g_nx[1] = 3; g_nx[2] = 3; k_atimes(2, 3, 3, 3, PX, PY, 0); \
  if (g_p == 0) __CPROVER_assert(0, "canary: corner point reachable"); if (g_p == MID) __CPROVER_assert(0, "canary: centre point reachable"); }
HM(h_atimes_2d_px, 1, 0, 4)
HM(h_atimes_2d_py, 0, 1, 4)

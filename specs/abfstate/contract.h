/* Contract for colvarbias_abf::read_state_data_template_ (C14, C03): blocks are read in the order written; after a COMPLETE read of a
   shared-ABF state the "already shared" reference grids are reset to the grids just loaded and the last-sharing step to the current
   step -- whenever sharing is on, whatever the sharing frequency (0 = sharing driven by script); an incomplete state changes none of them */
#ifndef ABFSTATE_CONTRACT_H
#define ABFSTATE_CONTRACT_H
#include <stddef.h>
extern int e_i[16];
extern int g_throw, g_debug; extern unsigned g_errors, g_error_bits;
extern long long g_step_rel, g_step_abs; extern int g_sim_continuing, g_sim_running;
extern int g_nkey, g_key_log[8], g_key_ok[8], g_nraw, g_raw_log[8], g_raw_ok[8], g_ncopy, g_copy_dst[4], g_copy_src[4], g_nsetdiv;
#define O(x) __CPROVER_old(x)
#define KEY_SAMPLES ('s' + 3 * 'm')
#define KEY_GRADIENT ('g' + 3 * 'a')
#define KEY_LSAMPLES ('l' + 3 * 'c' + 7 * 's')
#define KEY_LGRADIENT ('l' + 3 * 'c' + 7 * 'g')
#define KEY_ZSAMPLES ('z' + 3 * 's')
#define KEY_ZGRADIENT ('z' + 3 * 'g')
int k_key(int code) __CPROVER_requires(0 <= g_nkey && g_nkey < 8) __CPROVER_assigns(g_nkey, g_key_log[g_nkey]) __CPROVER_ensures(g_nkey == O(g_nkey) + 1 && g_key_log[g_nkey - 1] == code && __CPROVER_return_value == g_key_ok[g_nkey - 1]);
int k_read_raw(int tag) __CPROVER_requires(0 <= g_nraw && g_nraw < 8) __CPROVER_assigns(g_nraw, g_raw_log[g_nraw]) __CPROVER_ensures(g_nraw == O(g_nraw) + 1 && g_raw_log[g_nraw - 1] == tag && __CPROVER_return_value == g_raw_ok[g_nraw - 1]);
void k_copy_grid(int dst, int src) __CPROVER_requires(0 <= g_ncopy && g_ncopy < 4) __CPROVER_assigns(g_ncopy, g_copy_dst[g_ncopy], g_copy_src[g_ncopy]) __CPROVER_ensures(g_ncopy == O(g_ncopy) + 1 && g_copy_dst[g_ncopy - 1] == dst && g_copy_src[g_ncopy - 1] == src);
void k_set_div(void) __CPROVER_requires(g_nsetdiv < 4) __CPROVER_assigns(g_nsetdiv) __CPROVER_ensures(g_nsetdiv == O(g_nsetdiv) + 1);
#define NBLK (2 + (shared_on ? 2 : 0) + (czar ? 2 : 0))
#define ALLOK6(a) ((a)[0] && (a)[1] && (NBLK < 3 || (a)[2]) && (NBLK < 4 || (a)[3]) && (NBLK < 5 || (a)[4]) && (NBLK < 6 || (a)[5]))
#define COMPLETE (ALLOK6(g_key_ok) && ALLOK6(g_raw_ok))
long long k_read_state_data(_Bool b_integrate, _Bool shared_on, size_t shared_freq, _Bool czar, long long last_step_in)
__CPROVER_requires(g_nkey == 0 && g_nraw == 0 && g_ncopy == 0 && g_nsetdiv == 0 && g_debug == 0)
__CPROVER_assigns(__CPROVER_object_whole(e_i), g_nkey, __CPROVER_object_whole(g_key_log), g_nraw, __CPROVER_object_whole(g_raw_log), g_ncopy, __CPROVER_object_whole(g_copy_dst), __CPROVER_object_whole(g_copy_src), g_nsetdiv, g_errors, g_error_bits)
/* complete state: every block read once, in order */
__CPROVER_ensures(COMPLETE ==> (g_nkey == NBLK && g_nraw == NBLK && g_key_log[0] == KEY_SAMPLES && g_raw_log[0] == 0 && g_key_log[1] == KEY_GRADIENT && g_raw_log[1] == 1))
__CPROVER_ensures((COMPLETE && shared_on) ==> (g_key_log[2] == KEY_LSAMPLES && g_raw_log[2] == 2 && g_key_log[3] == KEY_LGRADIENT && g_raw_log[3] == 3))
__CPROVER_ensures((COMPLETE && czar) ==> (g_key_log[NBLK - 2] == KEY_ZSAMPLES && g_raw_log[NBLK - 2] == 4 && g_key_log[NBLK - 1] == KEY_ZGRADIENT && g_raw_log[NBLK - 1] == 5))
/* reference grids of shared ABF */
__CPROVER_ensures((COMPLETE && shared_on) ==> (g_ncopy == 2 && g_copy_dst[0] == 7 && g_copy_src[0] == 1 && g_copy_dst[1] == 6 && g_copy_src[1] == 0 && __CPROVER_return_value == g_step_abs))
__CPROVER_ensures((!COMPLETE || !shared_on) ==> (g_ncopy == 0 && __CPROVER_return_value == last_step_in))
/* divergence refreshed iff integrating and the gradient block was read */
__CPROVER_ensures(g_nsetdiv == ((b_integrate && g_key_ok[0] && g_raw_ok[0] && g_key_ok[1] && g_raw_ok[1]) ? 1 : 0))
;
#endif

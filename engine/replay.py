"""Violation reports and native replay of counterexamples."""
import json, os, time
from . import core

def report_violation(prop, unit, r, o, scratch, tier):
    d = os.path.join(core.VERIF, 'replays')
    os.makedirs(d, exist_ok=True)
    path = os.path.join(d, '%s_%s_%s.json' % (prop, r['task'], o['name'].replace('/', '_')))
    task = [t for t in unit['tasks'] if t['id'] == r['task']][0]
    trace = core.get_trace(task, r['gb'], os.path.join(scratch, unit['name']), o['name'])
    vals = core.trace_values(trace) if trace else {}
    echo = {k: v for k, v in vals.items() if k.startswith('e_') or k.startswith('g_')}
    doc = {'property': prop, 'unit': unit['name'], 'task': r['task'], 'obligation': o['name'],
           'obligation_text': o['description'], 'location': o['loc'], 'solver': o['solver'],
           'counterexample_inputs': echo, 'native_replay': None}
    suffix = ''
    if not echo:
        suffix = ' no-failing-input-found'
        doc['verifier_output'] = 'obligation %s FAILED (%s); no usable model values' % (o['name'], o['solver'])
    json.dump(doc, open(path, 'w'), indent=1)
    return path, suffix

def cmd_replay(args):
    print(open(args[0]).read())
    return 0

/* Contracts for the ABF ramp (C04), symbolic reals.  With w the number of samples of the bin:
     ramp(w) = 0                                   for w <= minSamples
             = (w - minSamples) / (w * (fullSamples - minSamples))     for minSamples < w < fullSamples
             = 1 / w                               for w >= fullSamples
   so that ramp(w) * (accumulated sum) is the bin's mean scaled linearly from 0 to 1 between minSamples and fullSamples.
   vector_value_smoothed / value_output_smoothed return  fact * data  for each component of the bin, fact = ramp(count) when smoothing,
   else 1/count (0 for an empty bin); without a count grid the weight is 1. */
#ifndef ABFRAMP_CONTRACT_H
#define ABFRAMP_CONTRACT_H
#include <stddef.h>
#include "../common/term.h"
extern int g_node[16]; extern long long e_l[8]; extern size_t g_count;
extern int g_throw, g_debug; extern unsigned g_errors, g_error_bits;
#define N(k) g_node[k]
static int t_op(int n) { return TVALID(n) ? g_top(n) : -1; }
static int t_a(int n) { return TVALID(n) ? g_ta(n) : -2; }
static int t_b(int n) { return TVALID(n) ? g_tb(n) : -2; }
static _Bool is_leaf(int n, double x) { return P_LEAF(n, x); }
/* n = ramp applied to the weight node W whose value is w */
static _Bool is_ramp(int n, int W, double w, int minS, int fullS) {
  if (w <= (double) minS) return is_leaf(n, 0.0);
  if (w < (double) fullS) { int num = t_a(n), den = t_b(n);
    return t_op(n) == T_DIV && t_op(num) == T_SUB && t_a(num) == W && is_leaf(t_b(num), (double) minS) && t_op(den) == T_MUL && t_a(den) == W && is_leaf(t_b(den), (double) (fullS - minS)); }
  return t_op(n) == T_DIV && is_leaf(t_a(n), 1.0) && t_b(n) == W; }
#define SAMPLES_OK (minS >= 0 && minS <= 1000000 && fullS >= 0 && fullS <= 1000000)
void k_smooth_inverse_weight(double w, int minS, int fullS)
__CPROVER_requires(SAMPLES_OK && w >= 0.0 && w <= 1.0e15 && g_tn == 0)
__CPROVER_assigns(__CPROVER_object_whole(g_node), __CPROVER_object_whole(e_l), TERM_FRAME)
__CPROVER_ensures(is_ramp(N(1), N(0), w, minS, fullS))
;
/* the factor applied to the bin's data: node f, given the weight leaf reachable from it */
static _Bool is_weight_leaf(int W, _Bool has_samples) { return is_leaf(W, has_samples ? (double) g_count : 1.0); }
static double wval(_Bool has_samples) { return has_samples ? (double) g_count : 1.0; }
static _Bool is_fact(int f, _Bool has_samples, _Bool smoothed, int minS, int fullS) { double w = wval(has_samples);
  if (smoothed) {
    if (w <= (double) minS) return is_leaf(f, 0.0);
    if (w < (double) fullS) return is_weight_leaf(t_a(t_a(f)), has_samples) && is_ramp(f, t_a(t_a(f)), w, minS, fullS);
    return is_weight_leaf(t_b(f), has_samples) && is_ramp(f, t_b(f), w, minS, fullS); }
  if (w > 0.0) return t_op(f) == T_DIV && is_leaf(t_a(f), 1.0) && is_weight_leaf(t_b(f), has_samples);
  return is_leaf(f, 0.0); }
static _Bool comp_ok(int r, int d, _Bool has_samples, _Bool smoothed, int minS, int fullS) { return t_op(r) == T_MUL && t_b(r) == d && is_fact(t_a(r), has_samples, smoothed, minS, fullS); }
void k_vector_value_smoothed(int minS, int fullS, _Bool has_samples, _Bool smoothed)
__CPROVER_requires(SAMPLES_OK && g_count <= 1000000000 && g_tn == 0)
__CPROVER_assigns(__CPROVER_object_whole(g_node), __CPROVER_object_whole(e_l), TERM_FRAME)
__CPROVER_ensures(comp_ok(N(4), N(2), has_samples, smoothed, minS, fullS) && comp_ok(N(5), N(3), has_samples, smoothed, minS, fullS))
/* one factor for the whole bin */
__CPROVER_ensures(t_a(N(4)) == t_a(N(5)))
;
void k_value_output_smoothed(int minS, int fullS, _Bool has_samples, _Bool smoothed)
__CPROVER_requires(SAMPLES_OK && g_count <= 1000000000 && g_tn == 0)
__CPROVER_assigns(__CPROVER_object_whole(g_node), __CPROVER_object_whole(e_l), TERM_FRAME)
__CPROVER_ensures(comp_ok(N(4), N(2), has_samples, smoothed, minS, fullS))
;
#endif

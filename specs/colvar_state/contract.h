/* Contract for colvar::get_state_params (C17, C03): the saved value of the extended coordinate and its velocity are the REPORTED ones
   (x_reported, v_reported: both referring to the beginning of the step that a restart will repeat), never the already advanced x_ext;
   the variable's value is x (x_reported for an external extended variable); the velocity line appears iff velocities are output. */
#ifndef COLVAR_STATE_CONTRACT_H
#define COLVAR_STATE_CONTRACT_H
#include <stddef.h>
extern int e_i[64]; extern int g_fid[12];
extern int g_throw, g_debug; extern unsigned g_errors, g_error_bits;
extern int g_ntok, g_tok_kind[24], g_tok_id[24];
#define O(x) __CPROVER_old(x)
void k_tok(int kind, int id) __CPROVER_requires(0 <= g_ntok && g_ntok < 24) __CPROVER_assigns(g_ntok, g_tok_kind[g_ntok], g_tok_id[g_ntok])
  __CPROVER_ensures(g_ntok == O(g_ntok) + 1 && g_tok_kind[g_ntok - 1] == kind && g_tok_id[g_ntok - 1] == id);
#define F_EXTERNAL g_fid[0]
#define F_EXTLAG g_fid[1]
#define F_OUTVEL g_fid[2]
#define LIT(k, c) (g_tok_kind[k] == 1 && g_tok_id[k] == (c))
#define VAL(k, t) (g_tok_kind[k] == 2 && g_tok_id[k] == (t))
#define TAG_X 1
#define TAG_XEXT 2
#define TAG_XREP 4
#define TAG_VREP 5
/* token positions: 0 "name" 1 <name> 2 "\n" 3 "x" 4 <value> 5 "\n" then optional groups */
#define NV (en[F_OUTVEL] ? 3 : 0)
int k_get_state_params(_Bool *en)
__CPROVER_requires(__CPROVER_is_fresh(en, 64) && g_ntok == 0)
__CPROVER_assigns(__CPROVER_object_whole(e_i), g_ntok, __CPROVER_object_whole(g_tok_kind), __CPROVER_object_whole(g_tok_id))
__CPROVER_ensures(g_ntok == 6 + NV + (en[F_EXTLAG] ? 6 : 0))
__CPROVER_ensures(LIT(0, 1) && g_tok_kind[1] == 3 && LIT(2, 2) && LIT(3, 3) && LIT(5, 2))
__CPROVER_ensures(VAL(4, (en[F_EXTERNAL] && en[F_EXTLAG]) ? TAG_XREP : TAG_X))
__CPROVER_ensures(en[F_OUTVEL] ==> (LIT(6, 4) && VAL(7, TAG_VREP) && LIT(8, 2)))
__CPROVER_ensures(en[F_EXTLAG] ==> (LIT(6 + NV, 5) && VAL(7 + NV, TAG_XREP) && LIT(8 + NV, 2) && LIT(9 + NV, 6) && VAL(10 + NV, TAG_VREP) && LIT(11 + NV, 2)))
;
/* colvar::write_traj_label / write_traj (C19): under every combination of output flags the data line carries exactly as many columns as
   the label line announces, group by group in the same order: value (2 columns for a non-external extended-Lagrangian variable, else 1),
   velocity (likewise), energy (2), total force (1), applied force (1).  ncol_* count the columns each function emits. */
#define F_OUTVAL g_fid[3]
#define F_OUTEN g_fid[4]
#define F_OUTTF g_fid[5]
#define F_OUTAF g_fid[6]
#define EXT2 ((en[F_EXTLAG] && !en[F_EXTERNAL]) ? 2 : 1)
#define NCOL ((en[F_OUTVAL] ? EXT2 : 0) + (en[F_OUTVEL] ? EXT2 : 0) + (en[F_OUTEN] ? 2 : 0) + (en[F_OUTTF] ? 1 : 0) + (en[F_OUTAF] ? 1 : 0))
#define P_VAL (en[F_OUTVAL] ? EXT2 : 0)
#define P_VEL (P_VAL + (en[F_OUTVEL] ? EXT2 : 0))
#define P_EN (P_VEL + (en[F_OUTEN] ? 2 : 0))
#define P_TF (P_EN + (en[F_OUTTF] ? 1 : 0))
/* label: token 0 is " ", then per column a (prefix literal, wrapped name) pair */
int k_write_traj_label(_Bool *en)
__CPROVER_requires(__CPROVER_is_fresh(en, 64) && g_ntok == 0)
__CPROVER_assigns(__CPROVER_object_whole(e_i), g_ntok, __CPROVER_object_whole(g_tok_kind), __CPROVER_object_whole(g_tok_id))
__CPROVER_ensures(g_ntok == 1 + 2 * NCOL && LIT(0, 7))
__CPROVER_ensures(en[F_OUTVAL] ==> (LIT(1, 7) && g_tok_kind[2] == 3 && (EXT2 == 1 || LIT(3, 8))))
__CPROVER_ensures(en[F_OUTVEL] ==> (LIT(1 + 2 * P_VAL, 9) && (EXT2 == 1 || LIT(3 + 2 * P_VAL, 10))))
__CPROVER_ensures(en[F_OUTEN] ==> (LIT(1 + 2 * P_VEL, 11) && LIT(3 + 2 * P_VEL, 12)))
__CPROVER_ensures(en[F_OUTTF] ==> LIT(1 + 2 * P_EN, 13))
__CPROVER_ensures(en[F_OUTAF] ==> LIT(1 + 2 * P_TF, 14))
;
/* data: token 0 is " ", then per column a (" " literal, value) pair; the values are, in order, the variable's value(s), velocity(ies),
   potential and kinetic energy, reported total force, applied force */
int k_write_traj(_Bool *en)
__CPROVER_requires(__CPROVER_is_fresh(en, 64) && g_ntok == 0)
__CPROVER_assigns(__CPROVER_object_whole(e_i), g_ntok, __CPROVER_object_whole(g_tok_kind), __CPROVER_object_whole(g_tok_id))
__CPROVER_ensures(g_ntok == 1 + 2 * NCOL - (en[F_OUTEN] ? 0 : 0) && LIT(0, 7))
__CPROVER_ensures(en[F_OUTVAL] ==> (EXT2 == 2 ? (VAL(2, 1) && VAL(4, 4)) : VAL(2, 4)))
__CPROVER_ensures(en[F_OUTVEL] ==> (EXT2 == 2 ? (VAL(2 + 2 * P_VAL, 6) && VAL(4 + 2 * P_VAL, 5)) : VAL(2 + 2 * P_VAL, 5)))
__CPROVER_ensures(en[F_OUTEN] ==> (VAL(2 + 2 * P_VEL, 7) && VAL(4 + 2 * P_VEL, 8)))
__CPROVER_ensures(en[F_OUTTF] ==> VAL(2 + 2 * P_EN, 9))
__CPROVER_ensures(en[F_OUTAF] ==> VAL(2 + 2 * P_TF, 10))
;
#endif

// Native replay for NR_Jacobi::eigsrt: the real function from /repo's working tree on the counterexample's eigenvalues/vectors.
#include "replay_util.h"
#include "colvarmodule.h"
#include "colvartypes.h"
#include "nr_jacobi.h"
#include <algorithm>
int main(int argc, char **argv) {
  if (argc < 3) return 2; replay_vals v; if (!v.load(argv[2])) return 2;
  cvm::real d[4], d0[4], M[4][4], M0[4][4];
  for (int a = 0; a < 4; a++) { d[a] = d0[a] = v.arr_d("e_d", a); for (int b = 0; b < 4; b++) M[a][b] = M0[a][b] = v.arr_d("e_d", 4 + 4 * a + b); }
  NR_Jacobi::eigsrt(d, M);
  std::ostringstream in; in << "d = {" << d0[0] << ", " << d0[1] << ", " << d0[2] << ", " << d0[3] << "} -> {" << d[0] << ", " << d[1] << ", " << d[2] << ", " << d[3] << "}";
  for (int i = 0; i < 3; i++) if (!(d[i] >= d[i + 1])) REPLAY_FAIL(in.str() << ": eigenvalues not in descending order, the leading eigenvector is not in column 0");
  cvm::real s0[4], s1[4]; for (int i = 0; i < 4; i++) { s0[i] = d0[i]; s1[i] = d[i]; } std::sort(s0, s0 + 4); std::sort(s1, s1 + 4);
  for (int i = 0; i < 4; i++) if (s0[i] != s1[i]) REPLAY_FAIL(in.str() << ": eigenvalues are not a rearrangement of the input");
  for (int i = 0; i < 4; i++) { bool ok = false; for (int k = 0; k < 4; k++) { bool m = d[i] == d0[k]; for (int j = 0; j < 4; j++) m = m && M[j][i] == M0[j][k]; ok = ok || m; }
    if (!ok) REPLAY_FAIL(in.str() << ": eigenvector column " << i << " does not belong to its eigenvalue any more"); }
  REPLAY_PASS(in.str());
}

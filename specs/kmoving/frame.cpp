// Frame TU for colvarbias_restraint_k_moving::update / update_acc_work (C06, C03).  Bodies sliced verbatim from src/colvarbias_restraint.cpp.
#include <vector>
#include <cvm_stub.h>
#include <cvs_echo.h>
#include <colvarvalue_sym.h>
#define CID_DUDK (CID_USER + 8)
enum features_biases
#include "features_biases.body.inc"
;
extern "C" { extern long long e_l[16]; extern int g_node[24]; }
struct KMovF {
  bool en_[f_cvb_ntot]; bool is_enabled(int f = f_cvb_active) const { return en_[f]; }
  size_t nvar_; size_t num_variables() const { return nvar_; }
  bool b_chg_force_k;                          //@real colvarbias_restraint.h
  bool b_decoupling;                           //@real colvarbias_restraint.h
  int target_nstages;                          //@real colvarbias_restraint.h
  int stage;                                   //@real colvarbias_restraint.h
  std::vector<cvm::real> lambda_schedule;      //@real colvarbias_restraint.h
  cvm::step_number target_nsteps;              //@real colvarbias_restraint.h
  cvm::step_number first_step;                 //@real colvarbias_restraint.h
  cvm::real acc_work;                          //@real colvarbias_restraint.h
  cvm::real target_force_k;                    //@real colvarbias_restraint.h
  cvm::real starting_force_k;                  //@real colvarbias_restraint.h
  cvm::real lambda_exp;                        //@real colvarbias_restraint.h
  cvm::real restraint_FE;                      //@real colvarbias_restraint.h
  cvm::real target_equil_steps;                //@real colvarbias_restraint.h
  cvm::real force_k_incr;                      //@real colvarbias_restraint.h
  cvm::real force_k;                           //@real colvarbias_restraint.h
  cvm::real d_restraint_potential_dk(size_t i) const { return sreal_call(CID_DUDK, (int) i); }
};
struct K_kmu : KMovF { int body()
#include "k_moving_update.body.inc"
};
struct K_kmw : KMovF { int body()
#include "k_moving_update_acc_work.body.inc"
};
#define OPQR(member, slot) do { double v_ = nondet_double(); f.member = cvm::real(v_); g_node[slot] = f.member.id; } while (0)
// node slots (in): 0 force_k 1 force_k_incr 2 starting 3 target 4 lambda_exp 5 restraint_FE 6 acc_work 7,8 lambda_schedule[0..1]; (out): 10 force_k 11 force_k_incr 12 restraint_FE 13 acc_work
static void load(KMovF &f, bool chg, bool decoupling, int nstages, int stage, CVS_STEP_T nsteps, CVS_STEP_T first, double equil, size_t nsched, cvm::real *sched) {
  for (int k = 0; k < f_cvb_ntot; k++) f.en_[k] = false;
  f.nvar_ = 1; f.b_chg_force_k = chg; f.b_decoupling = decoupling; f.target_nstages = nstages; f.stage = stage; f.target_nsteps = nsteps; f.first_step = first; f.target_equil_steps = cvm::real(equil);
  OPQR(force_k, 0); OPQR(force_k_incr, 1); OPQR(starting_force_k, 2); OPQR(target_force_k, 3); OPQR(lambda_exp, 4); OPQR(restraint_FE, 5); OPQR(acc_work, 6);
  for (int k = 0; k < 2; k++) { double v = nondet_double(); sched[k] = cvm::real(v); g_node[7 + k] = sched[k].id; }
  CVS_VIEW(f.lambda_schedule, sched, nsched);
  e_l[0] = chg; e_l[1] = decoupling; e_l[2] = nstages; e_l[3] = stage; e_l[4] = nsteps; e_l[5] = first; e_l[6] = (long long) nsched; e_l[7] = g_step_abs; e_l[8] = g_step_rel; e_l[9] = g_sim_running;
}
extern "C" int k_k_moving_update(bool chg, bool decoupling, int nstages, int *stage, CVS_STEP_T nsteps, CVS_STEP_T first, double equil, size_t nsched) {
  g_tn = 0; K_kmu f; cvm::real sched[2]; load(f, chg, decoupling, nstages, *stage, nsteps, first, equil, nsched, sched);
  int r = f.body();
  *stage = f.stage; g_node[10] = f.force_k.nid(); g_node[11] = f.force_k_incr.nid(); g_node[12] = f.restraint_FE.nid();
  return r;
}
extern "C" int k_k_moving_update_acc_work(bool chg, bool out_work) {
  g_tn = 0; K_kmw f; cvm::real sched[2]; int st = 0; load(f, chg, false, 0, st, 10, 0, 0.0, 0, sched); f.en_[f_cvb_output_acc_work] = out_work; e_l[10] = out_work;
  int r = f.body(); g_node[13] = f.acc_work.nid();
  return r;
}

// Frame TU for colvarbias_meta::update_grid_params, boundary-expansion loop (C05).  Statement range sliced verbatim from src/colvarbias_meta.cpp:
// the `for` over variables that decides whether (and by how much) the grids must grow; the declarations before it are frame fields.
#include <vector>
#include <cvm_stub.h>
#include <cvs_echo.h>
#include <colvarvalue_sym.h>
enum features_colvar
#include "features_colvar.body.inc"
;
extern "C" { extern int e_i[32]; extern int g_node[8]; }
struct var_stub { int tag; bool expand_boundaries; bool hard_lo, hard_up; cvm::real width;
  bool is_enabled(int f) const { return f == f_cv_hard_lower_boundary ? hard_lo : (f == f_cv_hard_upper_boundary ? hard_up : false); } };
struct K_ugp {
  std::vector<var_stub *> colvars;
  inline size_t num_variables() const { return colvars.size(); }
  inline var_stub *variables(int i) const { return colvars[i]; }
  // locals of update_grid_params declared before the sliced range
  bool changed_grids; int min_buffer;
  std::vector<int> curr_bin, new_sizes;
  std::vector<colvarvalue> new_lower_boundaries, new_upper_boundaries;
  void body()
#include "expand_loop.body.inc"
};
extern "C" int k_expand_loop(int min_buffer, int *curr_bin, int *sizes, bool *expand, bool *hard_lo, bool *hard_up) {
  K_ugp f; var_stub v[2]; var_stub *vp[2]; colvarvalue lb[2], ub[2];
  g_tn = 0;
  for (int k = 0; k < 2; k++) { v[k].tag = k; v[k].expand_boundaries = expand[k]; v[k].hard_lo = hard_lo[k]; v[k].hard_up = hard_up[k]; double w = nondet_double(); v[k].width = cvm::real(w); vp[k] = &v[k];
    double a = nondet_double(), b = nondet_double(); lb[k] = colvarvalue(a); ub[k] = colvarvalue(b);
    g_node[k] = lb[k].real_value.id; g_node[2 + k] = ub[k].real_value.id;
    e_i[k] = curr_bin[k]; e_i[2 + k] = sizes[k]; e_i[4 + k] = expand[k]; e_i[6 + k] = hard_lo[k]; e_i[8 + k] = hard_up[k]; }
  e_i[10] = min_buffer;
  CVS_VIEW(f.colvars, vp, 2); CVS_VIEW(f.curr_bin, curr_bin, 2); CVS_VIEW(f.new_sizes, sizes, 2); CVS_VIEW(f.new_lower_boundaries, lb, 2); CVS_VIEW(f.new_upper_boundaries, ub, 2);
  f.changed_grids = false; f.min_buffer = min_buffer;
  f.body();
  g_node[4] = lb[0].real_value.nid(); g_node[5] = lb[1].real_value.nid(); g_node[6] = ub[0].real_value.nid(); g_node[7] = ub[1].real_value.nid();
  return f.changed_grids;
}

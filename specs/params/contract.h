/* Contracts for parameter-validation sites (C10): whatever value the configuration delivers for a frequency/stride, the
   statements that consume it either report an error or leave it usable as a divisor; no integer division by zero. */
#ifndef PARAMS_CONTRACT_H
#define PARAMS_CONTRACT_H
#include <stddef.h>
extern long long e_l[8]; extern size_t g_rof;
extern int g_throw, g_debug; extern unsigned g_errors, g_error_bits;
extern long long g_step_rel, g_step_abs; extern int g_sim_continuing, g_sim_running;
extern int g_fid[4]; extern int g_en[64]; extern int g_nbranch, g_can_acc; extern int g_kv_found; extern size_t g_kv_size; extern _Bool g_kv_bool;
/* get_keyval may or may not find the keyword, and may deliver ANY value of the type */
int k_get_keyval_size(size_t *v) __CPROVER_requires(__CPROVER_w_ok(v, sizeof(size_t))) __CPROVER_assigns(*v) __CPROVER_ensures(1);
int k_get_keyval_bool(_Bool *v) __CPROVER_requires(__CPROVER_w_ok(v, sizeof(_Bool))) __CPROVER_assigns(*v) __CPROVER_ensures(1);
void k_enable(int f) __CPROVER_requires(0 <= f && f < 64) __CPROVER_assigns(g_en[f]) __CPROVER_ensures(g_en[f] == 1);
void k_hill_branch(void) __CPROVER_requires(g_nbranch < 5) __CPROVER_assigns(g_nbranch) __CPROVER_ensures(g_nbranch == __CPROVER_old(g_nbranch) + 1);
int k_can_accumulate(void) __CPROVER_assigns() __CPROVER_ensures(__CPROVER_return_value == g_can_acc);
#define O(x) __CPROVER_old(x)
#define PFRAME __CPROVER_object_whole(e_l), g_errors, g_error_bits, __CPROVER_object_whole(g_en)
/* runAve { runAveLength, runAveStride }: accepted without error only with a usable (non-zero) stride */
int k_parse_runave(size_t *stride, size_t *length)
__CPROVER_requires(__CPROVER_is_fresh(stride, sizeof(size_t)) && __CPROVER_is_fresh(length, sizeof(size_t)))
__CPROVER_assigns(PFRAME, *stride, *length)
__CPROVER_ensures((g_errors == O(g_errors) && g_en[g_fid[1]]) ==> *stride != 0)
;
/* corrFuncOffset/Length/Stride */
int k_parse_acf(size_t *stride)
__CPROVER_requires(__CPROVER_is_fresh(stride, sizeof(size_t)))
__CPROVER_assigns(PFRAME, *stride)
__CPROVER_ensures(g_errors == O(g_errors) ==> *stride != 0)
;
/* metadynamics: the bias is history dependent only with a positive hill frequency */
int k_meta_init_hillfreq(size_t *freq, size_t *gfreq)
__CPROVER_requires(__CPROVER_is_fresh(freq, sizeof(size_t)) && __CPROVER_is_fresh(gfreq, sizeof(size_t)) && g_en[g_fid[0]] == 0)
__CPROVER_assigns(PFRAME, *freq, *gfreq)
__CPROVER_ensures(g_en[g_fid[0]] ==> *freq > 0)
;
/* update_bias, head of the function (up to the first statement of the hill-creation branch): safe for every hill frequency that
   init can leave behind, i.e. under "history dependent => frequency > 0" only; hills are created only when history dependent */
int k_meta_update_bias_guard(size_t freq, _Bool hist)
__CPROVER_requires((hist ==> freq > 0) && g_nbranch == 0 && g_step_abs >= 0 && (g_can_acc == 0 || g_can_acc == 1))
__CPROVER_assigns(PFRAME, g_nbranch)
__CPROVER_ensures(!hist ==> g_nbranch == 0)
__CPROVER_ensures(!g_can_acc ==> g_nbranch == 0)
;
/* the same head of update_bias, seen as the deposition schedule (C05): a hill is created in a call iff the bias is history dependent,
   data may be accumulated at this step, and the absolute step is a multiple of newHillFrequency; at most one per call */
int k_meta_update_bias_sched(size_t freq, _Bool hist)
__CPROVER_requires(freq == 10 && g_nbranch == 0 && g_step_abs >= 0 && g_step_abs <= 4000000000000LL && (g_can_acc == 0 || g_can_acc == 1))
__CPROVER_assigns(PFRAME, g_nbranch)
__CPROVER_ensures(g_nbranch == ((hist && g_can_acc && (g_step_abs % 10) == 0) ? 1 : 0))
;
#endif

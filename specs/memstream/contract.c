#include "contract.h"
size_t e_dl, e_rp, e_bufsz, e_add, e_max, e_tcap, e_vlen, e_isz; int e_st, e_ext; unsigned char e_buf[32], e_v[32];
int g_throw, g_debug, g_vec_alloc; unsigned g_errors, g_error_bits; size_t g_alloc_bytes;
size_t g_mw;
size_t nondet_size_t(void); int nondet_int(void);
double k_floor(double x) { return x; } double k_sqrt(double x) { return x; }

void h_expand(void) {
  size_t *st; unsigned char *buf; g_mw = nondet_size_t();
  int r = k_expand(st, buf, nondet_size_t(), nondet_size_t(), nondet_size_t());
  if (r) __CPROVER_assert(0, "canary: expand_output_buffer can succeed");
  if (!r) __CPROVER_assert(0, "canary: expand_output_buffer can refuse");
}
void h_has_remaining(void) { size_t *st; int r = k_has_remaining(st, nondet_size_t());
  if (r) __CPROVER_assert(0, "canary: has_remaining can be true"); if (!r) __CPROVER_assert(0, "canary: has_remaining can be false"); }
#define SMALL(x, n) __CPROVER_assume((x) <= (n))
#define MS_H(SUF, T) \
void hs_write_object_##SUF(void) { size_t *st; unsigned char *buf; T *t; g_mw = nondet_size_t(); size_t b = nondet_size_t(), m = nondet_size_t(); SMALL(b, 32); SMALL(m, 64); \
  k_write_object_##SUF(st, buf, b, m, t); } \
void hs_read_object_##SUF(void) { size_t *st; unsigned char *buf; T *t; g_mw = nondet_size_t(); size_t b = nondet_size_t(); SMALL(b, 32); \
  k_read_object_##SUF(st, buf, b, nondet_int(), t); } \
void hs_write_vector_##SUF(void) { size_t *st; unsigned char *buf; T *v; g_mw = nondet_size_t(); size_t b = nondet_size_t(), m = nondet_size_t(), n = nondet_size_t(); SMALL(b, 32); SMALL(m, 64); SMALL(n, 3); \
  k_write_vector_##SUF(st, buf, b, m, v, n); } \
void hs_read_vector_##SUF(void) { size_t *st; unsigned char *buf; T *v; size_t *vlen; g_mw = nondet_size_t(); size_t b = nondet_size_t(), vc = nondet_size_t(); SMALL(b, 32); SMALL(vc, 3); \
  k_read_vector_##SUF(st, buf, b, nondet_int(), v, vlen, vc); } \
void h_write_object_##SUF(void) { size_t *st; unsigned char *buf; T *t; g_mw = nondet_size_t(); \
  k_write_object_##SUF(st, buf, nondet_size_t(), nondet_size_t(), t); \
  __CPROVER_assert(0, "canary: write_object returns"); } \
void h_read_object_##SUF(void) { size_t *st; unsigned char *buf; T *t; g_mw = nondet_size_t(); \
  k_read_object_##SUF(st, buf, nondet_size_t(), nondet_int(), t); \
  __CPROVER_assert(0, "canary: read_object returns"); } \
void h_write_vector_##SUF(void) { size_t *st; unsigned char *buf; T *v; g_mw = nondet_size_t(); \
  k_write_vector_##SUF(st, buf, nondet_size_t(), nondet_size_t(), v, nondet_size_t()); \
  __CPROVER_assert(0, "canary: write_vector returns"); } \
void h_read_vector_##SUF(void) { size_t *st; unsigned char *buf; T *v; size_t *vlen; g_mw = nondet_size_t(); \
  k_read_vector_##SUF(st, buf, nondet_size_t(), nondet_int(), v, vlen, nondet_size_t()); \
  __CPROVER_assert(0, "canary: read_vector returns"); }
MS_H(u64, unsigned long)
MS_H(i32, int)
MS_H(u8, unsigned char)

/* ---- lemma harnesses (F): only contract-replaced calls; what is written is read back ---- */
#include <stdlib.h>
#define MS_LEMMA(SUF, T) \
void h_rt_vector_##SUF(void) { \
  size_t bufsz = nondet_size_t(), n = nondet_size_t(), maxlen = nondet_size_t(), wcap = nondet_size_t(); \
  __CPROVER_assume(bufsz <= SZMAX && n <= SZMAX / sizeof(T) && wcap <= SZMAX / sizeof(T)); \
  size_t *st = malloc(4 * sizeof(size_t)); unsigned char *buf = malloc(bufsz); T *v = malloc(n * sizeof(T)); \
  T *w = malloc(wcap * sizeof(T)); size_t *wlen = malloc(sizeof(size_t)); \
  __CPROVER_assume(st && buf && v && w && wlen); \
  g_mw = nondet_size_t(); g_throw = 0; \
  st[0] = nondet_size_t(); st[1] = nondet_size_t(); st[2] = GOOD; st[3] = st[0]; *wlen = nondet_size_t(); \
  __CPROVER_assume(WF_W(st, bufsz) && st[3] + 8 + n * sizeof(T) <= bufsz && *wlen <= wcap); \
  size_t start = st[0]; \
  k_write_vector_##SUF(st, buf, bufsz, maxlen, v, n); \
  if (st[2] == GOOD) { \
    __CPROVER_assert(st[0] == start + 8 + n * sizeof(T), "lemma: a successful write_vector advances the stream by 8 + n*sizeof(T)"); \
    st[1] = start;            /* read back what was just written (seekg to its start) */ \
    T *r = k_read_vector_##SUF(st, buf, bufsz, 0, w, wlen, wcap); \
    __CPROVER_assert(st[2] == GOOD, "lemma: reading back a written vector succeeds"); \
    __CPROVER_assert(*wlen == n, "lemma: the vector read back has the length written"); \
    __CPROVER_assert(st[1] == st[0], "lemma: reading back consumes exactly what was written"); \
    __CPROVER_assert(!(g_mw < n * sizeof(T)) || ((unsigned char *)r)[g_mw] == ((unsigned char *)v)[g_mw], "lemma: every byte of the vector read back equals the byte written"); \
    __CPROVER_assert(0, "canary: round trip reachable"); \
  } \
} \
void h_rt_object_##SUF(void) { \
  size_t bufsz = nondet_size_t(), maxlen = nondet_size_t(); \
  __CPROVER_assume(bufsz <= SZMAX); \
  size_t *st = malloc(4 * sizeof(size_t)); unsigned char *buf = malloc(bufsz); T *t = malloc(sizeof(T)); T *u = malloc(sizeof(T)); \
  __CPROVER_assume(st && buf && t && u); \
  g_mw = nondet_size_t(); \
  st[0] = nondet_size_t(); st[1] = nondet_size_t(); st[2] = GOOD; st[3] = st[0]; \
  __CPROVER_assume(WF_W(st, bufsz) && st[3] + sizeof(T) <= bufsz); \
  size_t start = st[0]; \
  k_write_object_##SUF(st, buf, bufsz, maxlen, t); \
  if (st[2] == GOOD) { \
    st[1] = start; \
    k_read_object_##SUF(st, buf, bufsz, 0, u); \
    __CPROVER_assert(st[2] == GOOD && *u == *t && st[1] == st[0], "lemma: an object read back equals the object written"); \
    __CPROVER_assert(0, "canary: object round trip reachable"); \
  } \
}
MS_LEMMA(u64, unsigned long)
MS_LEMMA(i32, int)
MS_LEMMA(u8, unsigned char)

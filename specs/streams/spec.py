def s(name, src, sig, **kw): d = {'name': name, 'src': src, 'sig': sig, 'inc': name + '.body.inc'}; d.update(kw); return d
UNIT = {
 'slices': [
  s('hill_stream_error', 'colvarbias_meta.cpp', r'template <typename IST> IST &hill_stream_error\(IST &is, size_t start_pos, std::string const &key\)'),
  s('read_objects_state', 'colvarmodule.cpp', r'std::istream & colvarmodule::read_objects_state\(std::istream &is\)',
    subst=[('while (is) {', 'while (!!is) {'), ('if (is >> word) {', 'if (!!(is >> word)) {'), ('auto pos = is.tellg();', 'long pos = is.tellg();'), ('cvm::increase_depth();', 'cvm_depth();'), ('cvm::decrease_depth();', 'cvm_depth();')]),
 ],
 'assumed': ['std::istream is a position/state model (a seek on a failed stream has no effect, tellg of a failed stream is -1); objects\' read_state either consumes 10 positions (the matching bias) or leaves the position alone; the stream holds one "harmonic" block followed by end-of-file; two biases of that type'],
 'tasks': [
  {'id': 'hill_stream_error', 'properties': ['C14', 'C11'], 'slices': ['hill_stream_error'], 'harness': 'h_hill_stream_error', 'enforce': 'k_hill_stream_error', 'unwind': 20,
   'mutants': [('is.clear();\n  is.seekg(start_pos);', 'is.seekg(start_pos);\n  is.clear();'), ('is.setstate(std::ios::failbit);', '')]},
  {'id': 'read_objects_state', 'properties': ['C03'], 'slices': ['read_objects_state'], 'harness': 'h_read_objects_state', 'enforce': 'k_read_objects_state',
   'replace': ['k_next_word', 'k_obj_read_state', 'k_discard_block'], 'unwind': 20, 'unwind_body': 4, 'bounded': 'one state block, two biases of its type (loops unwound)',
   'mutants': [('ARS_INPUT_ERROR);\n          }\n          if (is.tellg() > pos)', 'ARS_INPUT_ERROR);\n          }\n          if (is.tellg() >= pos)', 'read_objects_state', 1), ('if (is.tellg() == pos) {', 'if (false) {')]},
 ],
}

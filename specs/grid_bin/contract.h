#ifndef GRID_BIN_CONTRACT_H
#define GRID_BIN_CONTRACT_H
#include <stddef.h>
#include <math.h>
extern double e_value, e_lower, e_width; extern int e_i, e_nxi, e_peri, e_ibin;
extern int g_throw, g_debug; extern unsigned g_errors, g_error_bits;
#define GB_GHOSTS e_value, e_lower, e_width, e_i, e_nxi, e_peri, e_ibin
#define FINITE(x) ((x) >= -1.0e300 && (x) <= 1.0e300)
/* quotient as the code computes it (same association) */

/* The ghost parameter q is constrained to be the quotient exactly as the code computes it; stating the
   contract over q keeps one division in the specification (solver cost), it is not an input of the code. */
#define QPRE(q, value, lower, width) ((q) == ((value) - (lower)) / (width) && (q) > -2147483000.0 && (q) < 2147483000.0)

/* value_to_bin_scalar: the unique integer b with b <= q < b+1, q the quotient (value-lower)/width:
   "the unique bin [lower + i*width, lower + (i+1)*width) containing the value", stated in quotient space. */
int k_value_to_bin_scalar(double value, double lower, double width, int i, double q)
__CPROVER_requires(i == 1 && FINITE(value) && FINITE(lower) && width > 1.0e-300 && width <= 1.0e300)
__CPROVER_requires(QPRE(q, value, lower, width))
__CPROVER_assigns(GB_GHOSTS)
__CPROVER_ensures((double)__CPROVER_return_value <= q)
__CPROVER_ensures(q < (double)__CPROVER_return_value + 1.0)
;

/* value_to_bin_scalar_bound: the same bin clamped into [0, nx-1] (periodic: reduced modulo nx first) */
int k_value_to_bin_scalar_bound(double value, double lower, double width, int nxi, _Bool peri, int i, double q)
__CPROVER_requires(i == 1 && FINITE(value) && FINITE(lower) && width > 1.0e-300 && width <= 1.0e300)
__CPROVER_requires(QPRE(q, value, lower, width) && nxi >= 1)
__CPROVER_assigns(GB_GHOSTS)
__CPROVER_ensures(0 <= __CPROVER_return_value && __CPROVER_return_value < nxi)
__CPROVER_ensures((q >= 0.0 && q < (double)nxi) ==> ((double)__CPROVER_return_value <= q && q < (double)__CPROVER_return_value + 1.0))
__CPROVER_ensures((!peri && q < 0.0) ==> __CPROVER_return_value == 0)
__CPROVER_ensures((!peri && q >= (double)nxi) ==> __CPROVER_return_value == nxi - 1)
;

/* bin_to_value_scalar: centre of bin i_bin, in the documented form lower + width*(0.5 + i_bin) */
double k_bin_to_value_scalar(int i_bin, double lower, double width, int i)
__CPROVER_requires(i == 1 && FINITE(lower) && FINITE(width))
__CPROVER_assigns(GB_GHOSTS)
__CPROVER_ensures(__CPROVER_return_value == lower + width * (0.5 + i_bin))
;

/* value_to_bin_scalar_fraction: q - floor(q); in [0,1] (1.0 is reached by rounding for tiny negative q) */
double k_value_to_bin_scalar_fraction(double value, double lower, double width, int i, double q)
__CPROVER_requires(i == 1 && FINITE(value) && FINITE(lower) && width > 1.0e-300 && width <= 1.0e300)
__CPROVER_requires(QPRE(q, value, lower, width))
__CPROVER_assigns(GB_GHOSTS)
__CPROVER_ensures(__CPROVER_return_value >= 0.0 && __CPROVER_return_value <= 1.0)
;
#endif

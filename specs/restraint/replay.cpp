// Native replay for the harmonic and harmonic-walls restraints (C06, C01): real module + stub proxy, one distance variable between two atoms
// on the x axis.  Parameters (force constant, width, centre, walls, wall constants) come from the counterexample after being mapped into a
// usable range (with symbolic reals the verifier's numbers do not steer the arithmetic; any parameter set exposes a wrong closed form).
// For several positions the bias energy is compared with the documented closed form and the force on the second atom with minus its
// derivative (analytic and by central finite differences of the reported energy).
#include "replay_util.h"
#include <cmath>
#include <vector>
#include "colvarmodule.h"
#include "colvarproxy.h"
#include "colvarbias.h"
#include "colvarproxy_stub.h"
#include "colvarproxy_stub.cpp"
static double usable(double x, double lo, double hi, double dflt) { if (!(x == x) || std::fabs(x) > 1.0e6) return dflt; double a = std::fabs(x); double r = lo + std::fmod(a, hi - lo); return (r > lo) ? r : dflt; }
struct sample { double E, F; };
static colvarproxy_stub *make(std::string const &conf) {
  colvarproxy_stub *proxy = new colvarproxy_stub(); proxy->set_unit_system("real", false); proxy->colvars->setup_input(); proxy->colvars->setup_output();
  for (int ai = 0; ai < 2; ai++) proxy->init_atom(ai + 1);
  if (proxy->colvars->read_config_string(conf)) { delete proxy; return NULL; }
  return proxy;
}
static sample eval(colvarproxy_stub *proxy, double x, long step) {
  std::vector<cvm::atom_pos> &pos = *(proxy->modify_atom_positions()); pos[0] = cvm::atom_pos(0.0, 0.0, 0.0); pos[1] = cvm::atom_pos(x, 0.0, 0.0);
  std::vector<cvm::rvector> &f = *(proxy->modify_atom_applied_forces()); f[0] = cvm::rvector(0.0, 0.0, 0.0); f[1] = cvm::rvector(0.0, 0.0, 0.0);
  proxy->colvars->it = step; proxy->colvars->calc();
  sample s; s.E = proxy->colvars->biases[0]->get_energy(); s.F = (*(proxy->modify_atom_applied_forces()))[1].x; return s;
}
int main(int argc, char **argv) {
  if (argc < 3) return 2; std::string task(argv[1]); replay_vals v; if (!v.load(argv[2])) return 2;
  double const k = usable(v.d("e_force_k"), 0.5, 9.5, 2.5), w = usable(v.d("e_width"), 0.3, 2.3, 0.7);
  bool const walls = task.find("walls") == 0;
  std::ostringstream conf; conf.precision(17);
  conf << "colvarsTrajFrequency 0\ncolvarsRestartFrequency 0\ncolvar {\n  name d\n  width " << w << "\n  distance {\n    group1 { atomNumbers 1 }\n    group2 { atomNumbers 2 }\n  }\n}\n";
  double c = 0.0, lw = 0.0, uw = 0.0, kl = 0.0, ku = 0.0;
  if (!walls) { c = usable(v.d("e_center"), 4.0, 9.0, 5.3); conf << "harmonic {\n  name h\n  colvars d\n  forceConstant " << k << "\n  centers " << c << "\n}\n"; }
  else { lw = usable(v.d("e_lw"), 3.0, 5.0, 4.1); uw = lw + usable(v.d("e_uw"), 1.0, 4.0, 2.2); kl = usable(v.d("e_lk") * k, 0.5, 9.5, 1.7); ku = usable(v.d("e_uk") * k, 0.5, 9.5, 3.9);
    conf << "harmonicWalls {\n  name h\n  colvars d\n  lowerWalls " << lw << "\n  upperWalls " << uw << "\n  lowerWallConstant " << kl << "\n  upperWallConstant " << ku << "\n}\n"; }
  colvarproxy_stub *proxy = make(conf.str()); if (!proxy) { std::cout << "REPLAY: configuration rejected\n" << conf.str(); return 3; }
  std::vector<double> xs;
  if (!walls) { xs.push_back(c - 1.7 * w); xs.push_back(c + 0.4 * w); xs.push_back(c + 2.3 * w); }
  else { xs.push_back(lw - 1.3 * w); xs.push_back(lw - 0.2 * w); xs.push_back(0.5 * (lw + uw)); xs.push_back(uw + 0.6 * w); xs.push_back(uw + 1.9 * w); }
  int bad = 0; std::ostringstream first; long step = 0;
  for (size_t n = 0; n < xs.size(); n++) {
    double const x = xs[n]; if (!(x > 0.2)) continue;
    double E, F;
    if (!walls) { E = 0.5 * k * (x - c) * (x - c) / (w * w); F = -k * (x - c) / (w * w); }
    else if (x < lw) { E = 0.5 * kl * (x - lw) * (x - lw) / (w * w); F = -kl * (x - lw) / (w * w); }
    else if (x > uw) { E = 0.5 * ku * (x - uw) * (x - uw) / (w * w); F = -ku * (x - uw) / (w * w); }
    else { E = 0.0; F = 0.0; }
    sample s = eval(proxy, x, step++); double const h = 1.0e-5; sample sp = eval(proxy, x + h, step++), sm = eval(proxy, x - h, step++);
    double const fd = -(sp.E - sm.E) / (2.0 * h);
    bool const bE = std::fabs(s.E - E) > 1e-9 * (1.0 + std::fabs(E)), bF = std::fabs(s.F - F) > 1e-9 * (1.0 + std::fabs(F)), bD = std::fabs(s.F - fd) > 1e-4 * (1.0 + std::fabs(fd));
    if (bE || bF || bD) { bad++; if (first.str().empty()) first << "at d = " << x << ": energy " << s.E << " (closed form " << E << "), force on atom 2 " << s.F << " (closed form " << F << ", minus finite-difference derivative of the reported energy " << fd << ")"; }
  }
  delete proxy;
  if (bad) REPLAY_FAIL((walls ? "harmonicWalls" : "harmonic") << " restraint with " << (walls ? "" : "forceConstant ") << (walls ? "" : "") << "parameters {" << conf.str().substr(conf.str().find(walls ? "harmonicWalls" : "harmonic {")) << "}: " << bad << " of " << xs.size() << " positions deviate; " << first.str());
  REPLAY_PASS("energy equals the documented closed form and the atomic force is minus its derivative at " << xs.size() << " positions");
}

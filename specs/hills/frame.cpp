// Frame TU for colvarbias_meta::calc_hills / calc_hills_force (C05, C01).  Bodies sliced verbatim from src/colvarbias_meta.cpp,
// hill accessors from src/colvarbias_meta.h.
#include <vector>
#include <list>
#include <cvm_stub.h>
#include <cvs_echo.h>
#include <colvar_sym.h>
extern "C" { extern int g_node[40]; extern long long e_l[8]; }
struct hill_s {
  cvm::step_number it;                         //@real colvarbias_meta.h
  cvm::real hill_value;                        //@real colvarbias_meta.h
  cvm::real sW;                                //@real colvarbias_meta.h
  cvm::real W;                                 //@real colvarbias_meta.h
  std::vector<colvarvalue> centers;            //@real colvarbias_meta.h
  std::vector<cvm::real> sigmas;               //@real colvarbias_meta.h
  inline cvm::real energy()
#include "hill_energy.body.inc"
  inline cvm::real const &value()
#include "hill_value_get.body.inc"
  inline void value(cvm::real const &new_value)
#include "hill_value_set.body.inc"
  inline cvm::real weight()
#include "hill_weight.body.inc"
};
struct colvarbias_meta_s { typedef hill_s hill; typedef std::list<hill_s>::iterator hill_iter; };
struct MetaF {
  typedef std::list<hill_s>::iterator hill_iter;
  std::vector<colvar *> colvars;                               //@real colvarbias.h
  std::vector<colvarvalue> colvar_values;                      //@real colvarbias.h
  std::vector<cvm::real> colvar_sigmas;                        //@real colvarbias_meta.h
  inline size_t num_variables() const
#include "num_variables.body.inc"
  inline colvar *variables(int i) const
#include "variables.body.inc"
};
struct K_ch : MetaF { void body(hill_iter h_first, hill_iter h_last, cvm::real &energy, std::vector<colvarvalue> const *values)
#include "calc_hills.body.inc"
};
struct K_chf : MetaF { void body(size_t const &i, hill_iter h_first, hill_iter h_last, std::vector<colvarvalue> &forces, std::vector<colvarvalue> const *values)
#include "calc_hills_force.body.inc"
};
// node slots.  per hill h (0,1), base 10*h: +0 W, +1 sW, +2 hill_value (in), +3 centre[0], +4 centre[1], +5 sigma[0], +6 sigma[1], +7 hill_value (out)
// 20,21 colvar_values[0..1]; 22,23 (*values)[0..1]; 24,25 colvar_sigmas[0..1]; 26 energy/force in; 27 energy/force[i] out; 28 force[1-i] in; 29 force[1-i] out
#define OPQ(lv, slot) do { double v_ = nondet_double(); lv = cvm::real(v_); g_node[slot] = (lv).id; } while (0)
struct Setup {
  colvar cvs[2]; colvar *cvp[2]; hill_s hs[2]; colvarvalue cen[2][2]; cvm::real sig[2][2]; colvarvalue cvv[2], alt[2]; cvm::real csig[2];
  std::vector<colvarvalue> altv; std::list<hill_s> hl;
  void init(MetaF &f, size_t nh) {
    for (int k = 0; k < 2; k++) { cvs[k].tag = k; cvp[k] = &cvs[k]; OPQ(cvv[k].real_value, 20 + k); OPQ(alt[k].real_value, 22 + k); OPQ(csig[k], 24 + k); }
    for (int h = 0; h < 2; h++) {
      OPQ(hs[h].W, 10 * h); OPQ(hs[h].sW, 10 * h + 1); OPQ(hs[h].hill_value, 10 * h + 2);
      for (int k = 0; k < 2; k++) { OPQ(cen[h][k].real_value, 10 * h + 3 + k); OPQ(sig[h][k], 10 * h + 5 + k); }
      CVS_VIEW(hs[h].centers, cen[h], 2); CVS_VIEW(hs[h].sigmas, sig[h], 2);
    }
    CVS_VIEW(f.colvars, cvp, 2); CVS_VIEW(f.colvar_values, cvv, 2); CVS_VIEW(f.colvar_sigmas, csig, 2); CVS_VIEW(altv, alt, 2);
    hl.p_ = hs; hl.n_ = nh;
  }
};
extern "C" void k_calc_hills(size_t nh, bool use_values) {
  g_tn = 0; K_ch f; Setup s; s.init(f, nh); e_l[0] = (long long) nh; e_l[1] = use_values;
  cvm::real energy; OPQ(energy, 26);
  f.body(s.hl.begin(), s.hl.end(), energy, use_values ? &s.altv : (std::vector<colvarvalue> const *) 0);
  g_node[27] = energy.nid(); g_node[7] = s.hs[0].hill_value.nid(); g_node[17] = s.hs[1].hill_value.nid();
}
extern "C" void k_calc_hills_force(size_t i, size_t nh, bool use_values, int vtype) {
  g_tn = 0; K_chf f; Setup s; s.init(f, nh); e_l[0] = (long long) nh; e_l[1] = use_values; e_l[2] = (long long) i; e_l[3] = vtype;
  colvarvalue fo[2]; std::vector<colvarvalue> forces; CVS_VIEW(forces, fo, 2);
  OPQ(fo[i].real_value, 26); OPQ(fo[1 - i].real_value, 28);
  s.cvv[i].value_type = vtype; s.alt[i].value_type = vtype;
  f.body(i, s.hl.begin(), s.hl.end(), forces, use_values ? &s.altv : (std::vector<colvarvalue> const *) 0);
  g_node[27] = fo[i].real_value.nid(); g_node[29] = fo[1 - i].real_value.nid();
}

// Base definitions for the verification stubs (trusted; see DESIGN.md §2.1).
// Compiled by goto-cc in C++ mode with -nostdinc, and by g++ only never.
#ifndef CVS_BASE_H
#define CVS_BASE_H
typedef unsigned long size_t;
typedef long ptrdiff_t;
typedef unsigned long uintptr_t;
typedef long int64_t;
typedef unsigned long uint64_t;
typedef int int32_t;
typedef unsigned int uint32_t;
namespace std { typedef ::size_t size_t; typedef ::ptrdiff_t ptrdiff_t; }

// ghost flag: an uncaught C++ exception (std::length_error, std::out_of_range,
// std::bad_alloc) would have been thrown == host crash
extern "C" int g_throw;
// ghost: number of error signals raised through cvm::error / error codes OR-ed
extern "C" unsigned g_errors;
extern "C" unsigned g_error_bits;

extern "C" int g_vec_alloc;          // frame switch: vectors may allocate fresh storage on growth
extern "C" size_t g_alloc_bytes;     // ghost: size of the last such allocation
extern "C" void *malloc(size_t);
#define CVS_ASSERT(c, msg) __CPROVER_assert((c), msg)
#endif

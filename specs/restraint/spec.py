R = 'colvarbias_restraint.cpp'
def s(name, src, sig): return {'name': name, 'src': src, 'sig': sig, 'inc': name + '.body.inc'}
CV = ['k_cv_is_enabled']
ACC = ['num_variables', 'variables']
def fp(id, props, sl, extra=None, mutants=None, timeout=300):
    t = {'id': id, 'properties': props, 'slices': [sl] + ACC, 'harness': 'h_' + id, 'enforce': 'k_' + id, 'replace': CV + (extra or []),
         'unwind': 20, 'object_bits': 10, 'timeout': timeout, 'mutants': mutants or []}
    return t
UNIT = {
 'cxxflags': ['-DCVS_SREAL', '-DCVS_STEP_T=int'], 'cflags': ['-DCVS_STEP_T=int'],
 'slices': [
  s('features_biases', 'colvardeps.h', r'enum features_biases'),
  s('features_colvar', 'colvardeps.h', r'enum features_colvar'),
  s('num_variables', 'colvarbias.h', r'inline size_t num_variables\(\) const'),
  s('variables', 'colvarbias.h', r'inline colvar \* variables\(int i\) const'),
  s('harmonic_restraint_potential', R, r'cvm::real colvarbias_restraint_harmonic::restraint_potential\(size_t i\) const'),
  s('harmonic_restraint_force', R, r'colvarvalue const colvarbias_restraint_harmonic::restraint_force\(size_t i\) const'),
  s('harmonic_d_restraint_potential_dk', R, r'cvm::real colvarbias_restraint_harmonic::d_restraint_potential_dk\(size_t i\) const'),
  dict(s('walls_colvar_distance', R, r'cvm::real colvarbias_restraint_harmonic_walls::colvar_distance\(size_t i\) const'), ret_real=True,
       subst=[('colvarvalue const &cvv =', 'colvarvalue const cvv =')]),
  dict(s('walls_restraint_potential', R, r'cvm::real colvarbias_restraint_harmonic_walls::restraint_potential\(size_t i\) const'), R8=['upper_wall_k', 'lower_wall_k']),
  dict(s('walls_restraint_force', R, r'colvarvalue const colvarbias_restraint_harmonic_walls::restraint_force\(size_t i\) const'), R8=['upper_wall_k', 'lower_wall_k']),
  dict(s('walls_d_restraint_potential_dk', R, r'cvm::real colvarbias_restraint_harmonic_walls::d_restraint_potential_dk\(size_t i\) const'), R8=['upper_wall_k', 'lower_wall_k']),
  s('centers_moving_update', R, r'int colvarbias_restraint_centers_moving::update\(\)'),
  dict(s('centers_moving_update_acc_work', R, r'int colvarbias_restraint_centers_moving::update_acc_work\(\)'), R5=['acc_work']),
 ],
 'assumed': ['real arithmetic is symbolic (stubs/sreal.h): + - * / and pow/dist2/value are uninterpreted term constructors, results carry unconstrained finite payloads; contracts state the expression computed, not its floating-point value',
             'class colvar / colvarvalue are stand-ins (stubs/colvar_sym.h): queries are uninterpreted calls tagged by variable',
             'colvarbias_restraint_centers_moving::update_centers is a logging stub in the proof of update()'],
 'tasks': [
  fp('harmonic_restraint_potential', ['C06', 'C01'], 'harmonic_restraint_potential',
     mutants=[('variables(i)->dist2(variables(i)->value(), colvar_centers[i])', 'variables(i)->value().dist2(colvar_centers[i])'), ('0.5 * force_k', 'force_k'), ('colvar_centers[i]', 'colvar_centers[0]')]),
  fp('harmonic_restraint_force', ['C06', 'C01'], 'harmonic_restraint_force', mutants=[('-0.5', '0.5'), ('dist2_lgrad(variables(i)->value(), colvar_centers[i])', 'dist2_lgrad(colvar_centers[i], variables(i)->value())')]),
  fp('harmonic_d_restraint_potential_dk', ['C06'], 'harmonic_d_restraint_potential_dk', mutants=[('0.5 /', '1.0 /')]),
  fp('walls_colvar_distance', ['C06'], 'walls_colvar_distance',
     mutants=[('lower_wall_dist2 < upper_wall_dist2', 'lower_wall_dist2 > upper_wall_dist2'), ('if (grad < 0.0) { return 0.5 * grad; }\n  }\n  if (upper', 'if (grad <= 0.0) { return 0.5 * grad; }\n  }\n  if (upper'),
              ('variables(i)->actual_value() :\n    variables(i)->value()', 'variables(i)->value() :\n    variables(i)->actual_value()')]),
  fp('walls_restraint_potential', ['C06', 'C19', 'C01'], 'walls_restraint_potential', extra=['k_walls_colvar_distance_stub'],
     mutants=[('dist > 0.0 ? upper_wall_k : lower_wall_k', 'dist < 0.0 ? upper_wall_k : lower_wall_k'), ('dist * dist', 'dist')]),
  fp('walls_restraint_force', ['C06', 'C01'], 'walls_restraint_force', extra=['k_walls_colvar_distance_stub'],
     mutants=[('dist > 0.0 ? upper_wall_k : lower_wall_k', 'dist > 0.0 ? lower_wall_k : upper_wall_k'), ('- force_k', 'force_k')]),
  fp('walls_d_restraint_potential_dk', ['C06'], 'walls_d_restraint_potential_dk', extra=['k_walls_colvar_distance_stub'], mutants=[('0.5 * scale', 'scale')]),
  dict(fp('centers_moving_update', ['C06', 'C03'], 'centers_moving_update', extra=['k_update_centers'],
     mutants=[('(cvm::step_relative() > 0) &&', '(cvm::step_absolute() > first_step) &&'), ('((cvm::step_absolute() - first_step) % target_nsteps) == 1', '(cvm::step_relative() % target_nsteps) == 1'),
              ('stage++;', ''), ('cvm::real(stage)/cvm::real(target_nstages)', 'cvm::real(stage + 1)/cvm::real(target_nstages)'), ('if (cvm::step_relative() == 0) {', 'if (cvm::step_relative() == 1) {')]),
       bounded='2 variables (loops over variables unwound); step numbers are 32-bit (real: 64-bit) so that % is decidable'),
  dict(fp('centers_moving_update_acc_work', ['C06', 'C03', 'C19'], 'centers_moving_update_acc_work',
     mutants=[('(cvm::step_relative() > 0) &&', ''), ('acc_work += colvar_forces[i] * centers_incr[i];', 'acc_work = colvar_forces[i] * centers_incr[i];'), ('<= target_nsteps', '< target_nsteps')]),
       bounded='2 variables (loops over variables unwound)'),
 ],
}

#include "contract.h"
TERM_GHOST_DEFS
double e_d[16]; long long e_l[16];
int g_throw, g_debug, g_vec_alloc; unsigned g_errors, g_error_bits; size_t g_alloc_bytes;
CVS_STEP_T g_step_rel, g_step_abs; int g_sim_continuing, g_sim_running;
int g_ret, g_f_cv_periodic, g_cv_periodic[3], g_cv_feat_other;
double g_wdist; int g_nwd; int g_nuc, g_uc_lambda; int g_wl, g_wu, g_wdl, g_wdu;
int g_cf_node[2], g_incr_node[2], g_acc_in, g_acc_out;
int g_un[12], g_uo[4], g_nbu, g_bu_tn;
size_t nondet_size_t(void); int nondet_int(void); double nondet_double(void); long long nondet_ll(void); _Bool nondet_bool(void);
double k_floor(double x) { return x; } double k_sqrt(double x) { return x; } double k_pow(double x, double y) { return x; }

static void havoc_cv(void) { for (int k = 0; k < 3; k++) g_cv_periodic[k] = nondet_int(); g_cv_feat_other = nondet_int(); g_debug = 0; g_tn = 0; }
#define H3(NAME) void h_##NAME(void) { havoc_cv(); double r = k_##NAME(nondet_size_t(), nondet_double(), nondet_double(), nondet_double()); \
  if (r > 1.0) __CPROVER_assert(0, "canary: " #NAME " can return a value above 1"); }
H3(harmonic_restraint_potential)
H3(harmonic_restraint_force)
H3(harmonic_d_restraint_potential_dk)
H3(linear_restraint_potential)
H3(linear_restraint_force)
H3(linear_d_restraint_potential_dk)
void h_restraint_update(void) { havoc_cv(); g_error_bits = 0; int r = k_restraint_update(); if (r == 0) __CPROVER_assert(0, "canary: restraint update returns"); }
void h_update_centers_body(void) { havoc_cv(); g_error_bits = 0; int r = k_update_centers_body(); if (r == 0) __CPROVER_assert(0, "canary: update_centers returns"); }
void h_walls_colvar_distance(void) { havoc_cv(); g_wl = nondet_int(); g_wu = nondet_int(); g_wdl = nondet_int(); g_wdu = nondet_int();
  int hl = nondet_int(), hu = nondet_int();
  double r = k_walls_colvar_distance(nondet_size_t(), nondet_double(), nondet_double(), hl, hu, nondet_bool());
  if (r > 0.0 && g_cv_periodic[0]) __CPROVER_assert(0, "canary: periodic non-zero displacement reachable");
  if (g_tn > 3 && !g_cv_periodic[0] && hl && hu && g_top(g_ret) == T_MUL) __CPROVER_assert(0, "canary: non-periodic upper-wall displacement with both walls reachable"); }
#define H4(NAME) void h_##NAME(void) { havoc_cv(); g_wdist = nondet_double(); double r = k_##NAME(nondet_size_t(), nondet_double(), nondet_double(), nondet_double(), nondet_double()); \
  if (r > 1.0 && g_wdist < 0.0) __CPROVER_assert(0, "canary: " #NAME " above 1 below the lower wall"); }
H4(walls_restraint_potential)
H4(walls_restraint_force)
H4(walls_d_restraint_potential_dk)
void h_centers_moving_update(void) { havoc_cv(); g_step_abs = nondet_int(); g_step_rel = nondet_int(); g_sim_running = nondet_int(); g_error_bits = 0;
  int *stage; double *incr; int ns = nondet_int();
  k_centers_moving_update(stage, ns, nondet_int(), nondet_int(), nondet_bool(), incr);
  if (g_nuc == 1 && ns > 0) __CPROVER_assert(0, "canary: staged advance reachable");
  if (g_nuc == 1 && ns == 0) __CPROVER_assert(0, "canary: continuous update reachable"); }
void h_centers_moving_update_acc_work(void) { havoc_cv(); g_step_abs = nondet_int(); g_step_rel = nondet_int(); g_sim_running = nondet_int();
  k_centers_moving_update_acc_work(nondet_int(), nondet_int(), nondet_bool(), nondet_bool());
  if (g_acc_out != g_acc_in) __CPROVER_assert(0, "canary: work accumulation reachable"); }

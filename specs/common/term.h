/* Contract-side view of the ghost term table built by stubs/sreal.h.  A contract describes the expression a function
   must compute as a pattern over the table, starting from the node of the result; operand order matters (the
   pattern is the documented formula), evaluation order does not. */
#ifndef TERM_H
#define TERM_H
#ifndef T_NT
#define T_NT 48
#endif
#define T_LEAF 1
#define T_ADD 2
#define T_SUB 3
#define T_MUL 4
#define T_DIV 5
#define T_NEG 6
#define T_CALL 7
extern int g_ti[1 + 4 * T_NT]; extern double g_tv[T_NT];
#define g_tn g_ti[0]
#define g_top(n) g_ti[1 + 4 * (n)]
#define g_ta(n) g_ti[2 + 4 * (n)]
#define g_tb(n) g_ti[3 + 4 * (n)]
#define g_tc(n) g_ti[4 + 4 * (n)]
#define TERM_GHOST_DEFS int g_ti[1 + 4 * T_NT]; double g_tv[T_NT];
#define TERM_FRAME __CPROVER_object_whole(g_ti), __CPROVER_object_whole(g_tv)
/* node creation as a contract-replaced call (units compiled with -DCVS_TNODE_CALL) */
int k_tnode(int op, int a, int b, int c, double val, int isleaf)
__CPROVER_requires(0 <= g_tn && g_tn < T_NT)
__CPROVER_assigns(g_ti[0], g_ti[1 + 4 * g_tn], g_ti[2 + 4 * g_tn], g_ti[3 + 4 * g_tn], g_ti[4 + 4 * g_tn], g_tv[g_tn])
__CPROVER_ensures(g_tn == __CPROVER_old(g_tn) + 1 && __CPROVER_return_value == __CPROVER_old(g_tn))
__CPROVER_ensures(g_ti[1 + 4 * __CPROVER_return_value] == op && g_ti[2 + 4 * __CPROVER_return_value] == a && g_ti[3 + 4 * __CPROVER_return_value] == b && g_ti[4 + 4 * __CPROVER_return_value] == c)
__CPROVER_ensures((isleaf ==> g_tv[__CPROVER_return_value] == val) && g_tv[__CPROVER_return_value] >= -1.0e300 && g_tv[__CPROVER_return_value] <= 1.0e300)
;
#define TVALID(n) ((n) >= 0 && (n) < g_tn && (n) < T_NT)
/* node n is the literal/input value x */
#define P_LEAF(n, x) (TVALID(n) && g_top(n) == T_LEAF && g_tv[n] == (x))
/* The C preprocessor does not re-expand a macro inside its own expansion, so every pattern constructor exists in
   identical copies 1..7: a pattern at nesting depth d (root = 1) uses the copy numbered d. */
#define P_BIN1(n, op, A, B) (TVALID(n) && g_top(n) == (op) && A(g_ta(n)) && B(g_tb(n)))
#define P_NEG1(n, A) (TVALID(n) && g_top(n) == T_NEG && A(g_ta(n)))
#define P_CALL1_1(n, cid, A) (TVALID(n) && g_top(n) == T_CALL + (cid) && A(g_ta(n)))
#define P_CALL2_1(n, cid, A, B) (TVALID(n) && g_top(n) == T_CALL + (cid) && A(g_ta(n)) && B(g_tb(n)))
#define P_CALL3_1(n, cid, A, B, C) (TVALID(n) && g_top(n) == T_CALL + (cid) && A(g_ta(n)) && B(g_tb(n)) && C(g_tc(n)))
#define P_VCALL1_1(n, cid, tag, B) (TVALID(n) && g_top(n) == T_CALL + (cid) && g_ta(n) == (tag) && B(g_tb(n)))
#define P_VCALL2_1(n, cid, tag, B, C) (TVALID(n) && g_top(n) == T_CALL + (cid) && g_ta(n) == (tag) && B(g_tb(n)) && C(g_tc(n)))
#define P_BIN2(n, op, A, B) (TVALID(n) && g_top(n) == (op) && A(g_ta(n)) && B(g_tb(n)))
#define P_NEG2(n, A) (TVALID(n) && g_top(n) == T_NEG && A(g_ta(n)))
#define P_CALL1_2(n, cid, A) (TVALID(n) && g_top(n) == T_CALL + (cid) && A(g_ta(n)))
#define P_CALL2_2(n, cid, A, B) (TVALID(n) && g_top(n) == T_CALL + (cid) && A(g_ta(n)) && B(g_tb(n)))
#define P_CALL3_2(n, cid, A, B, C) (TVALID(n) && g_top(n) == T_CALL + (cid) && A(g_ta(n)) && B(g_tb(n)) && C(g_tc(n)))
#define P_VCALL1_2(n, cid, tag, B) (TVALID(n) && g_top(n) == T_CALL + (cid) && g_ta(n) == (tag) && B(g_tb(n)))
#define P_VCALL2_2(n, cid, tag, B, C) (TVALID(n) && g_top(n) == T_CALL + (cid) && g_ta(n) == (tag) && B(g_tb(n)) && C(g_tc(n)))
#define P_BIN3(n, op, A, B) (TVALID(n) && g_top(n) == (op) && A(g_ta(n)) && B(g_tb(n)))
#define P_NEG3(n, A) (TVALID(n) && g_top(n) == T_NEG && A(g_ta(n)))
#define P_CALL1_3(n, cid, A) (TVALID(n) && g_top(n) == T_CALL + (cid) && A(g_ta(n)))
#define P_CALL2_3(n, cid, A, B) (TVALID(n) && g_top(n) == T_CALL + (cid) && A(g_ta(n)) && B(g_tb(n)))
#define P_CALL3_3(n, cid, A, B, C) (TVALID(n) && g_top(n) == T_CALL + (cid) && A(g_ta(n)) && B(g_tb(n)) && C(g_tc(n)))
#define P_VCALL1_3(n, cid, tag, B) (TVALID(n) && g_top(n) == T_CALL + (cid) && g_ta(n) == (tag) && B(g_tb(n)))
#define P_VCALL2_3(n, cid, tag, B, C) (TVALID(n) && g_top(n) == T_CALL + (cid) && g_ta(n) == (tag) && B(g_tb(n)) && C(g_tc(n)))
#define P_BIN4(n, op, A, B) (TVALID(n) && g_top(n) == (op) && A(g_ta(n)) && B(g_tb(n)))
#define P_NEG4(n, A) (TVALID(n) && g_top(n) == T_NEG && A(g_ta(n)))
#define P_CALL1_4(n, cid, A) (TVALID(n) && g_top(n) == T_CALL + (cid) && A(g_ta(n)))
#define P_CALL2_4(n, cid, A, B) (TVALID(n) && g_top(n) == T_CALL + (cid) && A(g_ta(n)) && B(g_tb(n)))
#define P_CALL3_4(n, cid, A, B, C) (TVALID(n) && g_top(n) == T_CALL + (cid) && A(g_ta(n)) && B(g_tb(n)) && C(g_tc(n)))
#define P_VCALL1_4(n, cid, tag, B) (TVALID(n) && g_top(n) == T_CALL + (cid) && g_ta(n) == (tag) && B(g_tb(n)))
#define P_VCALL2_4(n, cid, tag, B, C) (TVALID(n) && g_top(n) == T_CALL + (cid) && g_ta(n) == (tag) && B(g_tb(n)) && C(g_tc(n)))
#define P_BIN5(n, op, A, B) (TVALID(n) && g_top(n) == (op) && A(g_ta(n)) && B(g_tb(n)))
#define P_NEG5(n, A) (TVALID(n) && g_top(n) == T_NEG && A(g_ta(n)))
#define P_CALL1_5(n, cid, A) (TVALID(n) && g_top(n) == T_CALL + (cid) && A(g_ta(n)))
#define P_CALL2_5(n, cid, A, B) (TVALID(n) && g_top(n) == T_CALL + (cid) && A(g_ta(n)) && B(g_tb(n)))
#define P_CALL3_5(n, cid, A, B, C) (TVALID(n) && g_top(n) == T_CALL + (cid) && A(g_ta(n)) && B(g_tb(n)) && C(g_tc(n)))
#define P_VCALL1_5(n, cid, tag, B) (TVALID(n) && g_top(n) == T_CALL + (cid) && g_ta(n) == (tag) && B(g_tb(n)))
#define P_VCALL2_5(n, cid, tag, B, C) (TVALID(n) && g_top(n) == T_CALL + (cid) && g_ta(n) == (tag) && B(g_tb(n)) && C(g_tc(n)))
#define P_BIN6(n, op, A, B) (TVALID(n) && g_top(n) == (op) && A(g_ta(n)) && B(g_tb(n)))
#define P_NEG6(n, A) (TVALID(n) && g_top(n) == T_NEG && A(g_ta(n)))
#define P_CALL1_6(n, cid, A) (TVALID(n) && g_top(n) == T_CALL + (cid) && A(g_ta(n)))
#define P_CALL2_6(n, cid, A, B) (TVALID(n) && g_top(n) == T_CALL + (cid) && A(g_ta(n)) && B(g_tb(n)))
#define P_CALL3_6(n, cid, A, B, C) (TVALID(n) && g_top(n) == T_CALL + (cid) && A(g_ta(n)) && B(g_tb(n)) && C(g_tc(n)))
#define P_VCALL1_6(n, cid, tag, B) (TVALID(n) && g_top(n) == T_CALL + (cid) && g_ta(n) == (tag) && B(g_tb(n)))
#define P_VCALL2_6(n, cid, tag, B, C) (TVALID(n) && g_top(n) == T_CALL + (cid) && g_ta(n) == (tag) && B(g_tb(n)) && C(g_tc(n)))
#define P_BIN7(n, op, A, B) (TVALID(n) && g_top(n) == (op) && A(g_ta(n)) && B(g_tb(n)))
#define P_NEG7(n, A) (TVALID(n) && g_top(n) == T_NEG && A(g_ta(n)))
#define P_CALL1_7(n, cid, A) (TVALID(n) && g_top(n) == T_CALL + (cid) && A(g_ta(n)))
#define P_CALL2_7(n, cid, A, B) (TVALID(n) && g_top(n) == T_CALL + (cid) && A(g_ta(n)) && B(g_tb(n)))
#define P_CALL3_7(n, cid, A, B, C) (TVALID(n) && g_top(n) == T_CALL + (cid) && A(g_ta(n)) && B(g_tb(n)) && C(g_tc(n)))
#define P_VCALL1_7(n, cid, tag, B) (TVALID(n) && g_top(n) == T_CALL + (cid) && g_ta(n) == (tag) && B(g_tb(n)))
#define P_VCALL2_7(n, cid, tag, B, C) (TVALID(n) && g_top(n) == T_CALL + (cid) && g_ta(n) == (tag) && B(g_tb(n)) && C(g_tc(n)))
#define P_VCALL0(n, cid, tag) (TVALID(n) && g_top(n) == T_CALL + (cid) && g_ta(n) == (tag))
/* call ids (same order as stubs/cvm_stub.h) */
#define CID_FLOOR 1
#define CID_SQRT 2
#define CID_POW 3
#define CID_EXP 4
#define CID_VALUE 5
#define CID_ACTUAL_VALUE 6
#define CID_DIST2 7
#define CID_DIST2_LGRAD 8
#define CID_DIST2_RGRAD 9
#define CID_WRAP 10
#define CID_CVV_DIST2 11
#define CID_CVV_DIST2_GRAD 12
#define CID_INTERPOLATE 13
#define CID_WIDTH 14
#define CID_USER 15
/* node n is exactly node m (shared sub-expression / pass-through) */
#define P_SAME(n, m) ((n) == (m))
#endif

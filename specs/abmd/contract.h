/* Contract for colvarbias_abmd::update (C06), symbolic reals: the adiabatic-bias ratchet.
   x = value of the variable, s = +1 (increasing) or -1 (decreasing), r = reference (x itself on first use),  d = (x - r) * s.
   d > 0 (the variable is beyond the reference in the favourable direction): no force, no energy, and the reference follows x as long as
   (r - stop) * s <= 0, i.e. until the stopping value is reached.  Otherwise: energy 1/2 k d d, force (-s k) d.
   Nothing happens while no simulation is running. */
#ifndef ABMD_CONTRACT_H
#define ABMD_CONTRACT_H
#include <stddef.h>
#include "../common/term.h"
extern int g_node[12]; extern int e_l[8];
extern int g_throw, g_debug; extern unsigned g_errors, g_error_bits; extern int g_sim_running;
#define N(k) g_node[k]
static int t_op(int n) { return TVALID(n) ? g_top(n) : -1; }
static int t_a(int n) { return TVALID(n) ? g_ta(n) : -2; }
static int t_b(int n) { return TVALID(n) ? g_tb(n) : -2; }
static double t_v(int n) { return TVALID(n) ? g_tv[n] : 0.0; }
static _Bool is_leaf(int n, double x) { return P_LEAF(n, x); }
static _Bool is_x(int n) { return t_op(n) == T_CALL + CID_VALUE && t_a(n) == 0; }
/* reference in use: the stored one, or x on first use */
static _Bool is_ref(int n, _Bool ref_init) { return ref_init ? n == N(0) : is_x(n); }
static _Bool is_diff(int n, _Bool ref_init, _Bool dec) { int d = t_a(n); return t_op(n) == T_MUL && is_leaf(t_b(n), dec ? -1.0 : 1.0) && t_op(d) == T_SUB && is_x(t_a(d)) && is_ref(t_b(d), ref_init); }
extern int g_wd, g_wt;   /* ghost witnesses: the node of d, the node of (r - stop) * s */
static _Bool is_stoptest(int n, _Bool ref_init, _Bool dec) { int d = t_a(n); return t_op(n) == T_MUL && is_leaf(t_b(n), dec ? -1.0 : 1.0) && t_op(d) == T_SUB && is_ref(t_a(d), ref_init) && t_b(d) == N(1); }
static int find_stoptest(_Bool ri, _Bool dec) { return is_stoptest(12, ri, dec) ? 12 : is_stoptest(13, ri, dec) ? 13 : is_stoptest(11, ri, dec) ? 11 : is_stoptest(14, ri, dec) ? 14 : is_stoptest(10, ri, dec) ? 10 : is_stoptest(15, ri, dec) ? 15 : -1; }
static _Bool restrained_ok(_Bool ref_init, _Bool dec) { int f = N(6), e = N(7);
  return t_op(f) == T_MUL && t_b(f) == g_wd && t_op(t_a(f)) == T_MUL && t_b(t_a(f)) == N(2) && t_op(t_a(t_a(f))) == T_NEG && is_leaf(t_a(t_a(t_a(f))), dec ? -1.0 : 1.0)
      && t_op(e) == T_MUL && t_b(e) == g_wd && t_op(t_a(e)) == T_MUL && t_b(t_a(e)) == g_wd && t_op(t_a(t_a(e))) == T_MUL && is_leaf(t_a(t_a(t_a(e))), 0.5) && t_b(t_a(t_a(e))) == N(2)
      && is_ref(N(5), ref_init); }
static _Bool free_ok(_Bool ref_init, _Bool dec) { return is_leaf(N(6), 0.0) && is_leaf(N(7), 0.0); }
int k_abmd_update(_Bool ref_init, _Bool decreasing)
__CPROVER_requires(g_tn == 0 && (g_sim_running == 0 || g_sim_running == 1))
__CPROVER_assigns(__CPROVER_object_whole(g_node), __CPROVER_object_whole(e_l), TERM_FRAME)
__CPROVER_ensures(!g_sim_running ==> (N(5) == N(0) && N(6) == N(3) && N(7) == N(4) && e_l[3] == ref_init))
__CPROVER_ensures(g_sim_running ==> e_l[3] == 1)
__CPROVER_ensures((g_sim_running && is_diff(g_wd, ref_init, decreasing) && !(t_v(g_wd) > 0.0)) ==> restrained_ok(ref_init, decreasing))
__CPROVER_ensures((g_sim_running && is_diff(g_wd, ref_init, decreasing) && t_v(g_wd) > 0.0) ==> free_ok(ref_init, decreasing))
/* the ratchet: the reference advances to x exactly while the stopping value has not been reached */
__CPROVER_ensures((g_sim_running && is_diff(g_wd, ref_init, decreasing) && t_v(g_wd) > 0.0 && is_stoptest(g_wt, ref_init, decreasing) && t_v(g_wt) <= 0.0) ==> is_x(N(5)))
__CPROVER_ensures((g_sim_running && is_diff(g_wd, ref_init, decreasing) && t_v(g_wd) > 0.0 && is_stoptest(g_wt, ref_init, decreasing) && !(t_v(g_wt) <= 0.0)) ==> is_ref(N(5), ref_init))
/* in the free case the stopping test is evaluated */
__CPROVER_ensures((g_sim_running && is_diff(g_wd, ref_init, decreasing) && t_v(g_wd) > 0.0) ==> find_stoptest(ref_init, decreasing) >= 0)
/* existence: the displacement d is computed (node 7 or 6: five input leaves, x, sign leaf, difference, product) */
__CPROVER_ensures(g_sim_running ==> (is_diff(8, ref_init, decreasing) || is_diff(7, ref_init, decreasing) || is_diff(9, ref_init, decreasing)))
;
#endif

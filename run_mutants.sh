#!/bin/bash
# run the stored mutants of every unit (self-test of the contracts' strength); one summary line per unit on stdout, details in /tmp/mutants_<unit>.log
cd /verif
for u in $(ls specs | grep -v common); do
  [ -f specs/$u/spec.py ] || continue
  s=$(date +%s); CVS_MUTANT_JOBS=${CVS_MUTANT_JOBS:-4} ./cv mutants $u > /tmp/mutants_$u.log 2>&1; e=$(date +%s)
  echo "$u: $(tail -1 /tmp/mutants_$u.log) [$((e-s))s]"
done

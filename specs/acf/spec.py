def s(name, src, sig, **kw): d = {'name': name, 'src': src, 'sig': sig, 'inc': name + '.body.inc'}; d.update(kw); return d
UNIT = {
 'cxxflags': ['-DCVS_SREAL'],
 'slices': [
  s('acf_type_e', 'colvar.h', r'enum acf_type_e'),
  s('acf_step', 'colvar.cpp', r'int colvar::calc_acf\(\)', **{'from': r'if \(cvm::step_relative\(\) > prev_timestep\) \{\n\n    switch \(acf_type\)', 'until': r'\n  return COLVARS_OK;'}),
 ],
 'assumed': ['statement range of colvar::calc_acf: the per-step branch `if (cvm::step_relative() > prev_timestep) { switch (acf_type) ... }` (partner lookup and first-call allocation are not under contract)',
             'symbolic reals; value() / velocity() of this variable and of the partner are uninterpreted calls tagged by variable; calc_*_acf, history_add_value and history_incr are logging stubs'],
 'tasks': [
  {'id': 'acf_step', 'properties': ['C19'], 'slices': ['acf_step'], 'harness': 'h_acf_step', 'enforce': 'k_acf_step', 'replace': ['k_acf_ev'], 'unwind': 4,
   'mutants': [('history_add_value(acf_length+acf_offset, *acf_x_history_p,\n                        cfcv->value());\n      history_incr(acf_x_history, acf_x_history_p);\n      break;\n\n    case acf_p2coor:', 'history_add_value(acf_length, *acf_x_history_p,\n                        cfcv->value());\n      history_incr(acf_x_history, acf_x_history_p);\n      break;\n\n    case acf_p2coor:'),
               ('calc_vel_acf((*acf_v_history_p), cfcv->velocity());', 'calc_vel_acf((*acf_v_history_p), cfcv->value());'), ('history_incr(acf_v_history, acf_v_history_p);', '')]},
 ],
}

// Frame TU for class colvar force/total-force bookkeeping (C07, C01, C08, C17, C20).  Bodies sliced verbatim from src/colvar.cpp.
#include <vector>
#include <cvm_stub.h>
#include <cvs_echo.h>
#include <colvarvalue_sym.h>
#define CID_TF (CID_USER + 0)
#define CID_JD (CID_USER + 1)
#define CID_SELF_LGRAD (CID_USER + 2)
#define CID_SELF_DIST2 (CID_USER + 3)
enum features_colvar
#include "features_colvar.body.inc"
;
extern "C" { extern int e_l[64]; extern int g_node[24]; extern int g_ncollect[2], g_nupd_ext; }
extern "C" void k_collect_gradients(int tag);
extern "C" void k_update_extended_Lagrangian();

struct rv_stub { int dummy; void reset() { dummy = 0; } };
struct cvc_stub {
  int tag; bool enabled_; cvm::real sup_coeff;
  bool is_enabled(int f = 0) const { return enabled_; }
  colvarvalue total_force() const { colvarvalue r(sreal_call(CID_TF, tag)); return r; }
  colvarvalue Jacobian_derivative() const { colvarvalue r(sreal_call(CID_JD, tag)); return r; }
  void collect_gradients(std::vector<int> const &, std::vector<rv_stub> &) { k_collect_gradients(tag); }
};

struct ColvarF {
  bool en_[f_cv_ntot];
  bool is_enabled(int f = f_cv_active) const { return en_[f]; }
  colvarvalue x;                      //@real colvar.h
  colvarvalue x_ext;                  //@real colvar.h
  colvarvalue prev_x_ext;             //@real colvar.h
  colvarvalue v_ext;                  //@real colvar.h
  colvarvalue prev_v_ext;             //@real colvar.h
  colvarvalue fr;                     //@real colvar.h
  colvarvalue fj;                     //@real colvar.h
  colvarvalue ft_reported;            //@real colvar.h
  colvarvalue fb;                     //@real colvar.h
  colvarvalue fb_actual;              //@real colvar.h
  colvarvalue f;                      //@real colvar.h
  colvarvalue f_old;                  //@real colvar.h
  colvarvalue ft;                     //@real colvar.h
  colvarvalue            x_old;       //@real colvar.h
  cvm::step_number prev_timestep;     //@real colvar.h
  cvm::real active_cvc_square_norm;   // real: cvm::real active_cvc_square_norm = 0.0;
  cvm::real kinetic_energy;           // real: cvm::real kinetic_energy = 0.0;
  cvm::real potential_energy;         // real: cvm::real potential_energy = 0.0;
  int   time_step_factor;             //@real colvardeps.h
  std::vector<cvc_stub *> cvcs;       // real: std::vector<std::shared_ptr<colvar::cvc>> cvcs;
  std::vector<int> atom_ids;          //@real colvar.h
  std::vector<rv_stub> atomic_gradients;  // real: std::vector<cvm::rvector> atomic_gradients; (elements only reset here)
  colvarvalue value() const { return x; }
};

struct K_ctf : ColvarF { int body()
#include "collect_cvc_total_forces.body.inc"
};
struct K_cj : ColvarF { int body()
#include "collect_cvc_Jacobians.body.inc"
};
struct K_eos : ColvarF { int body()
#include "end_of_step.body.inc"
};
struct K_ccg : ColvarF { int body()
#include "collect_cvc_gradients.body.inc"
};
struct K_ufe : ColvarF {
  // the integrator sees the force accumulated so far (recorded), and leaves the coupling-spring force in f (a fresh opaque value)
  void update_extended_Lagrangian() { g_node[20] = f.real_value.nid(); k_update_extended_Lagrangian(); double s_ = nondet_double(); f.real_value = cvm::real(s_); g_node[21] = f.real_value.id; }
  cvm::real body()
#include "update_forces_energy.body.inc"
};

static void setup(ColvarF &f, bool *en, cvc_stub *cv, cvc_stub **cvp, size_t ncvc, bool *cen, double *coeff) {
  for (int k = 0; k < f_cv_ntot; k++) { f.en_[k] = en[k]; e_l[k] = en[k]; }
  for (int k = 0; k < 2; k++) { cv[k].tag = k; cv[k].enabled_ = cen[k]; cv[k].sup_coeff = cvm::real(coeff[k]); cvp[k] = &cv[k]; e_l[48 + k] = cen[k]; g_node[10 + k] = cv[k].sup_coeff.id; }
  CVS_VIEW(f.cvcs, cvp, ncvc); e_l[50] = (int) ncvc;
}
// fresh opaque values for the state members; their nodes are published in g_node[]
#define OPAQUE(member, slot) do { double v_ = nondet_double(); f.member = colvarvalue(v_); g_node[slot] = f.member.real_value.id; } while (0)
#define OPAQUE_R(member, slot) do { double v_ = nondet_double(); f.member = cvm::real(v_); g_node[slot] = f.member.id; } while (0)

// node slots: 0 ft(in) 1 fj(in) 2 ft_reported(in) 3 norm 4 x 5 f(in) 6 fb 7 fb_actual 8 pot 9 kin 10,11 sup_coeff; outputs: 12 ft 13 ft_reported 14 fj 15 x_old 16 f_old 17 f 18 fr 19 ret
extern "C" int k_collect_cvc_total_forces(bool *en, size_t ncvc, bool *cen, double *coeff) {
  K_ctf f; cvc_stub cv[2]; cvc_stub *cvp[2]; setup(f, en, cv, cvp, ncvc, cen, coeff);
  OPAQUE(ft, 0); OPAQUE(fj, 1); OPAQUE(ft_reported, 2); OPAQUE_R(active_cvc_square_norm, 3);
  int r = f.body();
  g_node[12] = f.ft.real_value.nid(); g_node[13] = f.ft_reported.real_value.nid();
  return r;
}
extern "C" int k_collect_cvc_Jacobians(bool *en, size_t ncvc, bool *cen, double *coeff) {
  K_cj f; cvc_stub cv[2]; cvc_stub *cvp[2]; setup(f, en, cv, cvp, ncvc, cen, coeff);
  OPAQUE(fj, 1); OPAQUE_R(active_cvc_square_norm, 3);
  int r = f.body();
  g_node[14] = f.fj.real_value.nid();
  return r;
}
extern "C" int k_collect_cvc_gradients(bool *en, size_t ncvc, bool *cen, size_t nat) {
  K_ccg f; cvc_stub cv[2]; cvc_stub *cvp[2]; double coeff[2] = {1.0, 1.0}; setup(f, en, cv, cvp, ncvc, cen, coeff);
  rv_stub ag[3]; int ids[3]; CVS_VIEW(f.atomic_gradients, ag, nat); CVS_VIEW(f.atom_ids, ids, nat);
  return f.body();
}
extern "C" int k_end_of_step(bool *en, long long *prev_timestep) {
  K_eos f; cvc_stub cv[2]; cvc_stub *cvp[2]; bool cen[2] = {true, true}; double coeff[2] = {1.0, 1.0}; setup(f, en, cv, cvp, 0, cen, coeff);
  OPAQUE(x, 4); OPAQUE(f, 5); OPAQUE(x_old, 21); OPAQUE(f_old, 20); f.prev_timestep = *prev_timestep;
  int r = f.body();
  g_node[15] = f.x_old.real_value.nid(); g_node[16] = f.f_old.real_value.nid(); *prev_timestep = f.prev_timestep;
  return r;
}
extern "C" double k_update_forces_energy(bool *en, int tsf) {
  K_ufe f; cvc_stub cv[2]; cvc_stub *cvp[2]; bool cen[2] = {true, true}; double coeff[2] = {1.0, 1.0}; setup(f, en, cv, cvp, 0, cen, coeff);
  OPAQUE(x, 4); OPAQUE(f, 5); OPAQUE(fb, 6); OPAQUE(fb_actual, 7); OPAQUE(fj, 1); OPAQUE(fr, 18); OPAQUE_R(potential_energy, 8); OPAQUE_R(kinetic_energy, 9);
  f.time_step_factor = tsf; e_l[51] = tsf;
  cvm::real r = f.body();
  g_node[17] = f.f.real_value.nid(); g_node[18] = f.fr.real_value.nid(); g_node[19] = r.nid();
  return r.v;
}
extern "C" { extern int g_fid[12]; }
extern "C" void cvs_set_fids() {
  g_fid[0] = f_cv_active; g_fid[1] = f_cv_total_force_calc; g_fid[2] = f_cv_hide_Jacobian; g_fid[3] = f_cv_subtract_applied_force;
  g_fid[4] = f_cv_total_force_current_step; g_fid[5] = f_cv_Jacobian; g_fid[6] = f_cv_extended_Lagrangian; g_fid[7] = f_cv_external; g_fid[8] = f_cv_collect_gradient;
}

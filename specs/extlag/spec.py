def s(name, src, sig, **kw): d = {'name': name, 'src': src, 'sig': sig, 'inc': name + '.body.inc'}; d.update(kw); return d
UNIT = {
 'cxxflags': ['-DCVS_SREAL', '-DT_NT=112'], 'cflags': ['-DT_NT=112'],
 'slices': [
  s('features_colvar', 'colvardeps.h', r'enum features_colvar'),
  s('update_extended_Lagrangian', 'colvar.cpp', r'void colvar::update_extended_Lagrangian\(\)', R5=['f', 'f_ext', 'v_ext', 'x_ext'],
    subst=[('cvm::real delta = 0;', 'cvm::real delta(0.0);')]),
 ],
 'assumed': ['symbolic reals; the variable\'s own dist2 / dist2_lgrad / wrap are uninterpreted calls; non-external variables only (f_cv_external off)',
             'the BAOA integrator arithmetic, Langevin noise and the reflection branch are executed (all comparison outcomes explored) but only force routing, reported total force, saved state and coupling energy are specified'],
 'tasks': [
  {'id': 'update_extended_Lagrangian', 'properties': ['C17'], 'slices': ['update_extended_Lagrangian'], 'harness': 'h_update_extended_Lagrangian', 'enforce': 'k_update_extended_Lagrangian',
   'replace': ['k_dt', 'k_set_value'], 'unwind': 70, 'object_bits': 10, 'timeout': 1200,
   'mutants': [('f_system = (-0.5 * ext_force_k) * this->dist2_lgrad(x_ext, x);', 'f_system = (-1.0 * ext_force_k) * (x_ext - x);'), ('f        = -1.0 * f_system;', 'f        = f_system;'),
               ('ft_reported = f_system;', 'ft_reported = f_ext;'), ('prev_x_ext = x_ext;', ''), ('n_timesteps != 0 && n_timesteps != time_step_factor', 'n_timesteps != time_step_factor')]},
 ],
}

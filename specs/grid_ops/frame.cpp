// Frame TU for colvar_grid<T> whole-grid combination (C14).  Bodies sliced verbatim from src/colvargrid.h.  T = size_t (count grids).
#include <vector>
#include <cvm_stub.h>
#include <cvs_echo.h>
typedef size_t T;
extern "C" { extern size_t g_n, g_k; extern size_t *g_data, *g_other; extern size_t g_old_k; extern size_t e_z[8]; }

struct GridD {
  size_t mult;                 //@real colvargrid.h
  std::vector<T> data;         //@real colvargrid.h
  bool has_data;               //@real colvargrid.h
  inline size_t multiplicity() const
#include "multiplicity.body.inc"
};
struct K_copy : GridD { GridD other_grid; void body()
#include "copy_grid.body.inc"
};
struct K_delta : GridD { GridD other_grid; void body()
#include "delta_grid.body.inc"
};
struct K_add : GridD { GridD other_grid; cvm::real scale_factor; void body()
#include "add_grid.body.inc"
};
#define SETUPG(f) \
  f.mult = mult; f.other_grid.mult = omult; CVS_VIEW(f.data, data, n); CVS_VIEW(f.other_grid.data, other, on); f.has_data = false; f.other_grid.has_data = true; \
  g_n = n; g_k = gk; g_data = data; g_other = other; if (gk < n) g_old_k = data[gk]; \
  e_z[0] = n; e_z[1] = on; e_z[2] = mult; e_z[3] = omult; e_z[4] = gk; if (gk < n) e_z[5] = data[gk]; if (gk < on) e_z[6] = other[gk];
extern "C" int k_copy_grid(size_t *data, size_t n, size_t mult, size_t *other, size_t on, size_t omult, size_t gk) {
  K_copy f; SETUPG(f); f.body(); return f.has_data; }
extern "C" int k_delta_grid(size_t *data, size_t n, size_t mult, size_t *other, size_t on, size_t omult, size_t gk) {
  K_delta f; SETUPG(f); f.body(); return f.has_data; }
extern "C" int k_add_grid(size_t *data, size_t n, size_t mult, size_t *other, size_t on, size_t omult, size_t gk) {
  K_add f; SETUPG(f); f.scale_factor = 1.0; f.body(); return f.has_data; }

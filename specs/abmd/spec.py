def s(name, src, sig, **kw): d = {'name': name, 'src': src, 'sig': sig, 'inc': name + '.body.inc'}; d.update(kw); return d
UNIT = {
 'cxxflags': ['-DCVS_SREAL'],
 'slices': [
  s('num_variables', 'colvarbias.h', r'inline size_t num_variables\(\) const'),
  s('variables', 'colvarbias.h', r'inline colvar \* variables\(int i\) const'),
  s('abmd_update', 'colvarbias_abmd.cpp', r'int colvarbias_abmd::update\(\)'),
 ],
 'assumed': ['symbolic reals; the variable is a stand-in whose value() is an uninterpreted call'],
 'tasks': [
  {'id': 'abmd_update', 'properties': ['C06', 'C01'], 'slices': ['abmd_update', 'num_variables', 'variables'], 'harness': 'h_abmd_update', 'enforce': 'k_abmd_update', 'unwind': 4,
   'mutants': [('if ( diff > 0. ) {', 'if ( diff < 0. ) {'), ('colvar_forces[0] = - sign * k * diff;', 'colvar_forces[0] = sign * k * diff;'), ('bias_energy = 0.5 * k * diff * diff;;', 'bias_energy = k * diff * diff;;'),
               ('if ( (ref_val-stopping_val) * sign <= 0. ) ref_val = val;', 'ref_val = val;'), ('cvm::real const sign = decreasing ? -1. : 1.;', 'cvm::real const sign = decreasing ? 1. : -1.;'), ('ref_initialized = true;', '')]},
 ],
}

R = 'colvarcomp_rotations.cpp'
def s(name, src, sig, **kw): d = {'name': name, 'src': src, 'sig': sig, 'inc': name + '.body.inc'}; d.update(kw); return d
UNIT = {
 'cxxflags': ['-DCVS_SREAL', '-DT_NT=160'], 'cflags': ['-DT_NT=160'],
 'slices': [
  s('ori_calc_value', R, r'void colvar::orientation::calc_value\(\)', subst=[('x.quaternion_value = -1.0 * rot.q;', 'x.quaternion_value = cvm::real(-1.0) * rot.q;')]),
  s('ori_apply_force', R, r'void colvar::orientation::apply_force\(colvarvalue const &force\)',
    subst=[('auto ag_force = ', 'ag_force_t ag_force = '), ('const auto f_ia = ', 'cvm::rvector const f_ia = '), ('calc_derivative_wrt_group2<false, true, false>(', 'calc_derivative_wrt_group2(')]),
 ],
 'assumed': ['symbolic reals; cvm::quaternion / cvm::rvector are component stand-ins; the optimal rotation and its derivatives d(rot.q)_k/d(atom) are opaque (uninterpreted calls tagged by atom, quaternion component and Cartesian component); the 4-d inner product is one uninterpreted call',
             'extraction: `auto` declarations are given their types, the explicit template arguments of calc_derivative_wrt_group2 are dropped (front-end limits); in calc_value the literal -1.0 multiplying a quaternion is written cvm::real(-1.0)',
             'two atoms'],
 'tasks': [
  {'id': 'ori_calc_value', 'properties': ['C02', 'C01'], 'slices': ['ori_calc_value'], 'harness': 'h_ori_calc_value', 'enforce': 'k_ori_calc_value', 'unwind': 12,
   'mutants': [('(rot.q).inner(ref_quat) >= 0.0', '(rot.q).inner(ref_quat) <= 0.0')]},
  {'id': 'ori_apply_force', 'properties': ['C01'], 'slices': ['ori_apply_force'], 'harness': 'h_ori_apply_force', 'enforce': 'k_ori_apply_force', 'replace': ['k_atom_force'], 'unwind': 12, 'unwind_body': 3,
   'bounded': '2 atoms (loop over atoms unwound)',
   'mutants': [('if ((rot.q).inner(ref_quat) < 0.0) {', 'if ((rot.q).inner(ref_quat) > 0.0) {'), ('FQ[2] * dq0_2[2]', 'FQ[2] * dq0_2[3]'), ('if (!atoms->noforce) {', 'if (atoms->noforce) {')]},
 ],
}

"""Per-property claims; MANIFEST.json is generated from this by `./cv manifest`."""
NA_DEFAULT = "check not built yet (build phase in progress)"
CLAIMS = {
 'C15': {
  'text': "Function contracts on the verbatim bodies of colvar_grid's index functions (index_ok for every nd by loop contract; incr, wrap, wrap_detect_edge, address for nd <= 3 with full-domain values) discharged by CBMC dfcc: in-range test is exact, incr is the lexicographic successor ending in the sentinel index_ok rejects (every bin visited once), periodic wrapping maps into [0,nx) by a multiple of nx and non-periodic out-of-range is flagged. Grid-file round trips and floating-point binning of the whole pipeline are not decided.",
  'note': "Trusted: CBMC C++ front end + stub std::vector; frame/wrapper marshalling; nd<=3 tasks are bounded stand-ins (reported separately, not counted as proved). n/d: text/multicolumn file round trip, histogram update path.",
  'design_ref': '§4 C15',
 },
}
CLAIMS['C11'] = {
  'text': "Function contracts on the verbatim bodies of cvm::memory_stream (has_remaining, expand_output_buffer, read/write_object<T>, read/write_vector<T> for 8-, 4- and 1-byte T) discharged by CBMC dfcc for every buffer length, position, state and length prefix: no uncaught exception, no read or write outside the data, damaged or truncated vectors set failbit, and lemma harnesses over the contracts show that what is written is read back byte for byte. For the multiple-replica metadynamics state file, colvarbias_meta::write_replica_state_file is under contract: the temporary file is closed before it is renamed over the live file. Text-state parsing and backup_file are not decided here.",
  'note': "Trusted: CBMC C++ front end + stub std::vector (growth beyond the frame's capacity modelled as fresh allocation); memcpy by assumed contract (specs/common/memcpy_contract.h); class template instead of member templates. n/d: std::string/colvarvalue specialisations, backup_file/rename ordering, text state.",
  'design_ref': '§4 C11',
}
CLAIMS['C06'] = {
  'text': "Contracts on the verbatim bodies of the harmonic and harmonic-walls restraint functions (potential, force, dU/dk, wall selection including the closest-wall rule for periodic variables) and of colvarbias_restraint_centers_moving::update / update_acc_work, discharged by CBMC dfcc with real arithmetic kept symbolic: each function returns exactly the documented expression over the variable's own (shortest-image) metric, the staged/continuous centre schedule advances as a function of the absolute step only (never on the repeated first step of a run segment), and accumulated work gets one force*increment term per variable on advancing steps inside the schedule. colvarbias_restraint_k_moving::update / update_acc_work: continuous schedule k = k0 + (k1-k0)*lambda^e with lambda = (step-first)/n, increment k_new - k_old and ZERO after the schedule; staged schedule advances by one stage (resetting the TI accumulator) on stage boundaries but never on the repeated first step of a continued run; work += (sum dU/dk) * increment on advancing steps.",
  'note': "Real arithmetic is uninterpreted (term structure, not floating-point values); class colvar/colvarvalue are stand-ins; moving-centre tasks are bounded (2 variables, schedule length 10, 32-bit step numbers). n/d: linear/histogram restraints, ABMD, interpolation on manifolds, TI averages (the TI accumulator is still incremented once more on a repeated step).",
  'design_ref': '§4 C06',
}
CLAIMS['C13'] = {
  'text': "Contracts on the verbatim bodies of colvardeps::disable and colvardeps::decr_ref_count discharged by CBMC dfcc: a capability that is off or still referenced by more than one requirer is never switched off (error, no state change); switching one off releases each self prerequisite and each remembered alternate exactly once, forgets the alternates, releases children's prerequisites once per (child, requirement) only while the object is active, and a reference count never goes below zero; cvm::atom_group's destructor destroys an allocated fitting group (releasing its atoms) whether or not the feature was ever enabled.",
  'note': "Bounded stand-in for disable (4 features, <=2 entries per list, <=2 children; loops unwound); children and the recursive callees are counting stubs. n/d: enable(), destructors, atom release, 'values as if the deleted objects never existed'.",
  'design_ref': '§4 C13',
}
CLAIMS['C08'] = {
  'text': "Contract on the verbatim body of colvarbias::communicate_forces discharged by CBMC dfcc: a bias that does not apply forces sends nothing; otherwise every variable receives exactly one call, on the actual-value entry iff the bias bypasses the extended Lagrangian, whose operand is time_step_factor * force * scaling factor (impulse-style multiple time step), and the previous forces are recorded.",
  'note': "Bounded (<=3 variables); products are logged uninterpreted operations; colvar entry points are logging stubs. n/d: calc_colvars awake schedule, calc_biases energy sum, update_forces_energy.",
  'design_ref': '§4 C08',
}
CLAIMS['C03'] = {
  'text': "Mechanisms a resumed run relies on, as contracts on verbatim bodies: colvarbias::can_accumulate_data is true exactly when the step is not the repeated first step of a segment (or step-zero data is requested); the moving-centre restraint schedule and work accumulation do nothing on the repeated step and depend on the absolute step only; the binary stream reads back every object and vector exactly as written (C11 lemmas); reading a text state offers each block to the objects of its type in order until the matching one consumes it (so the second bias of a type is restored too); a restarted shared-ABF walker resets its 'already shared' reference grids whenever sharing is on.",
  'note': "Whole-run equality of two executions is not a contract of one call and is not decided; text state, metadynamics/ABF/histogram accumulators and k_moving are n/d here.",
  'design_ref': '§4 C03',
}
CLAIMS['C07'] = {
  'text': "Contracts on the verbatim bodies of colvar::collect_cvc_total_forces, collect_cvc_Jacobians and end_of_step, discharged by CBMC dfcc with symbolic real arithmetic: the reported total force is the sum over enabled components of total_force*coeff/norm (each once, hence linear in the component forces), plus the Jacobian term unless it is hidden and the applied force subtracted; the Jacobian term is (sum of Jacobian_derivative*coeff/norm) * kB*T; the force remembered for subtraction at the next step is the force actually applied.",
  'note': "Components are stand-ins (uninterpreted total_force / Jacobian_derivative), at most 2 components; the analytic inverse gradients of each component type and calc_colvar_properties are n/d.",
  'design_ref': '§4 C07'}
CLAIMS['C14'] = {
  'text': "Contracts on the verbatim bodies of colvar_grid<size_t>::copy_grid, delta_grid and add_grid, closed by loop contracts for every grid length: each element is combined exactly once with the element of the same address (other, other - own, own + other), nothing else changes, and grids of different multiplicity or size are refused without change. colvarbias_abf::read_state_data: after a complete restart state the shared-ABF reference grids are reset to the loaded grids and the last-sharing step to the current step whenever sharing is on (also with script-driven sharing, frequency 0), so data collected before the restart is not counted again. hill_stream_error: a hill record of a peer that is only partly on disk leaves the reader rewound to the start of that record and flagged failed.",
  'note': "Element type size_t (count grids); add_grid requires equal lengths from its caller (it checks only the multiplicity). n/d: replica_share message exchange, file-based metadynamics replicas, interleavings and restarts.",
  'design_ref': '§4 C14'}
CLAIMS['C16'] = {
  'text': "Contract on the verbatim body of integrate_potential::update_div_neighbors (with colvar_grid::wrap replaced by its own proved contract): after a sample in bin ix0 the divergence is recomputed at exactly the 2^nd points wrap(ix0 + delta), delta in {0,1}^nd, each once, for nd = 2 and 3 -- the locality argument behind incremental = batch.",
  'note': "update_div_local (the stencil) is a logging stub; the Poisson solver and the 1-D cumulative sum are n/d. nd <= 3 is the function's own domain.",
  'design_ref': '§4 C16'}
CLAIMS['C17'] = {
  'text': "Contracts on the verbatim bodies of colvar::update_forces_energy and colvar::end_of_step (symbolic reals): biases act on the extended coordinate (f = fb, Jacobian correction iff hidden), the extended-Lagrangian step runs exactly when the feature is on and a simulation is running, the atoms additionally feel fb_actual unless the variable is external, the returned energy is potential + kinetic, and end_of_step records the relative step used to detect a repeated step; colvar::get_state_params saves the extended coordinate and velocity as REPORTED at the beginning of the step a restart will repeat (x_reported, v_reported), never the already advanced x_ext.",
  'note': "Thorough tier additionally proves a contract on the whole body of update_extended_Lagrangian (12 min): coupling force (-k/2) d/dx_ext dist2(x_ext, x) over the variable's own metric, atoms feel minus that force times the time-step factor, reported total force selection, saved state for undoing a repeated step, coupling energy. The integrator's arithmetic and reflection bounds are n/d.",
  'design_ref': '§4 C17'}
CLAIMS['C19'] = {
  'text': "Contracts on the verbatim bodies of colvarmodule::write_traj_files (a data line exactly on absolute steps that are multiples of the frequency, labels at segment start / on request / every 1000 lines, flag cleared), of colvar::write_traj_label / write_traj (under every combination of output flags the data line carries exactly the columns the label line announces, group by group in the same order, and each column is the quantity its group names), of the running average and variance of colvar::calc_runave (mean over exactly runAveLength values, variance from deviations about that mean, divisor L-1; window lengths 2 and 3), of the walls restraint energy (written E_ column: constant of the wall actually exceeded) and of the accumulated-work update.",
  'note': "write_traj_files is a bounded stand-in (32-bit steps, frequency 5, restart frequency 7: symbolic % is undecidable in practice); bias-level columns and correlation functions are n/d.",
  'design_ref': '§4 C19'}
CLAIMS['C01'] = {
  'text': "The propagation chain between energy and force, as contracts on verbatim bodies with symbolic reals: harmonic and wall restraint forces are the hand derivative of their energies over the same metric and prefactor; colvarbias::communicate_forces hands each variable its force exactly once with the time-step factor; colvar::update_forces_energy sums bias forces, Jacobian correction and actual-value forces as documented.",
  'note': "Component gradients (calc_gradients of ~40 cvc classes), fit gradients, metadynamics/ABMD kernels and atom_group::apply_colvar_force are n/d: calculus over sqrt/acos/eigen-decompositions is outside any contract language available here.",
  'design_ref': '§4 C01'}
CLAIMS['C20'] = {
  'text': "Contracts on the verbatim bodies of the scripting interface's argument helpers (cmd_arg_shift, get_cmd_arg, check_cmd_nargs for module-, colvar- and bias-level commands, any argument count): an argument is objv[shift+i] exactly when that many words were passed, NULL otherwise, objv is never indexed outside [0, objc); an accepted argument count implies every mandatory argument is present (lemma). colvarproxy::parse_module_config hands every queued configuration to the module exactly once and removes it from the queue even when it was rejected (bounded: 2 entries). Plus colvar::collect_cvc_gradients: the gradients a script query returns come from exactly the enabled components, once each.",
  'note': "colvarscript::run dispatch, the per-command bodies, the proxy's config queue and 'script numbers equal engine numbers' are n/d.",
  'design_ref': '§4 C20'}
CLAIMS['C10'] = {
  'text': "Contracts on the statements that consume frequency/stride parameters (colvar::parse_analysis runAve and corrFunc blocks, colvarbias_meta::init newHillFrequency, head of colvarbias_meta::update_bias), with get_keyval delivering ANY value: no integer division by zero, a zero stride is an error, a metadynamics bias is history dependent only with a positive hill frequency and never evaluates the schedule otherwise; a coordNum pairlist is allocated only with a positive refresh frequency; colvarmodule::parse_config discards auto-generated configuration left by an earlier rejected call before parsing anything and stops at the first failing stage.",
  'note': "Statement ranges (not whole functions) are sliced; other parameters (widths, sizes, atom ranges, ABF list lengths, OPES), roll-back after a rejected configuration and non-finite floats are n/d.",
  'design_ref': '§4 C10'}
CLAIMS['C04'] = {
  'text': "Contracts on the verbatim bodies of colvarbias_abf::update (up to 'End of ABF proper') and calc_biasing_force, symbolic reals: each force sample is attributed to the bin the variable occupied when the force acted (previous call's bin unless the variable's total force is of the current step), accumulated at most once and only on eligible steps inside the grid; the applied force is zero outside the grid or with applyBias off, otherwise the smoothed mean force, made zero-mean for one periodic variable BEFORE the maxForce cap.",
  'note': "Bounded (1-2 variables); grids, update_system_force, smoothing ramp and replica sharing are stubs; the tail of update() (output prefix, UI estimator, calc_energy), projected ABF, CZAR and the arithmetic of the running mean are n/d.",
  'design_ref': '§4 C04'}
CLAIMS['C05'] = {
  'text': "Deposition schedule of metadynamics as contracts on the head of colvarbias_meta::update_bias and on colvarbias::can_accumulate_data: in one call at most one hill is created, and exactly when the bias is history dependent, the step is not the repeated first step of a segment, and the absolute step is a multiple of newHillFrequency. Boundary expansion (update_grid_params loop): the grids are re-allocated iff ANY expandable variable comes within the buffer of a non-hard boundary, each adjusted by exactly the missing points.",
  'note': "Hill frequency fixed to 10 in the schedule task (constant divisor); hill values, weights, well-tempered scaling, grids, rebinning and keepHills are n/d (Gaussian sums over exp are outside reach).",
  'design_ref': '§4 C05'}
CLAIMS['C09'] = {
  'text': "Contracts on the verbatim bodies of colvarmodule::getline (LF and CRLF lines deliver the same text, a CR-only line is empty), colvarparse::check_braces (OK iff opening and closing braces from the start position balance) and to_lower_cppstr (ASCII folding), over a bounded std::string stand-in; colvarparse::clear_keyword_registry empties the whole registry including the list of keywords valid in the context just parsed (so a later parse by the same object is strict again).",
  'note': "The string helpers are bounded stand-ins (strings of at most 6 characters, counted separately); the registry task is loop-free. key_lookup, check_keywords, typed value extraction and whole-parser layout independence are n/d.",
  'design_ref': '§4 C09'}
CLAIMS['C18'] = {
  'text': "Contracts on the verbatim bodies of colvar::cvc::dist2, dist2_lgrad, dist2_rgrad and wrap with symbolic reals: value and gradient use the same minimum-image displacement d = (x1-x2) - floor((x1-x2)/P + 1/2) P for any number of periods (gradient = 2d, distance = d*d), non-periodic components use the plain difference, and wrap maps x to x - floor((x-c)/P + 1/2) P around the wrap centre.",
  'note': "Structural (uninterpreted arithmetic): that the formula selects the nearest image numerically is real analysis and not decided. colvarvalue's vector/quaternion metrics and interpolation are n/d.",
  'design_ref': '§4 C18'}
CLAIMS['C02'] = {
  'text': "One slice only: a contract on the verbatim body of NR_Jacobi::eigsrt (IEEE doubles, comparisons only): the four eigenvalues come out in descending order, are a rearrangement of the input, and every eigenvector column travels with its eigenvalue -- so the quaternion taken from column 0 for the optimal rotation belongs to the LARGEST eigenvalue (the least-squares optimum rather than another stationary rotation).",
  'note': "Everything else of C02 is not decided: values against an independent evaluation, invariance under rigid motion / lattice translations / atom reordering, the Jacobi diagonalisation itself and the sign convention of the quaternion are real-analysis statements over long floating-point chains outside CBMC's reach.",
  'design_ref': '§4 C02'}
NOT_APPLICABLE = {
 'C12': "quantifies over thread schedules; sequential contract verification (CBMC dfcc) cannot express it and the C++ front end has no OpenMP (DESIGN.md §4 C12)",
}

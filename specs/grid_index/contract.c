#include "contract.h"
size_t g_nd, g_k, g_k2, e_nd;
int *g_ix, *g_nx, *g_eb;
_Bool *g_per;
int g_old_k, g_old_k2;
int e_ix[4], e_nx[4], e_per[4];
int g_throw, g_debug; unsigned g_errors, g_error_bits;
size_t nondet_size_t(void);
int nondet_int(void);

void h_index_ok(void) {
  size_t nd = nondet_size_t(), gk = nondet_size_t(); int *ix, *nx;
  int r = k_index_ok(ix, nx, nd, gk);
  if (r == 1) __CPROVER_assert(0, "canary: index_ok can return true");
  if (r == 0) __CPROVER_assert(0, "canary: index_ok can return false");
}
void h_wrap_detect_edge(void) {
  size_t nd = nondet_size_t(); int *ix, *nx; _Bool *per;
  int r = k_wrap_detect_edge(ix, nx, per, nd);
  if (r == 1 && nd == 3) __CPROVER_assert(0, "canary: wrap_detect_edge can return true (nd 3)");
  if (r == 0 && nd == 3) __CPROVER_assert(0, "canary: wrap_detect_edge can return false (nd 3)");
}
void h_wrap(void) {
  size_t nd = nondet_size_t(); int *ix, *nx; _Bool *per; unsigned e0 = g_errors;
  k_wrap(ix, nx, per, nd);
  if (g_errors != e0) __CPROVER_assert(0, "canary: wrap can raise an error");
  if (g_errors == e0 && nd == 3) __CPROVER_assert(0, "canary: wrap can succeed (nd 3)");
}
void h_incr(void) {
  size_t nd = nondet_size_t(); int *ix, *nx;
  k_incr(ix, nx, nd);
  if (nd == 3) __CPROVER_assert(0, "canary: incr returns (nd 3)");
}
void h_address(void) {
  size_t nd = nondet_size_t(); int *ix, *nx, *nxc;
  k_address(ix, nx, nxc, nd);
  if (nd == 3) __CPROVER_assert(0, "canary: address returns (nd 3)");
}

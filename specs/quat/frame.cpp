// Frame TU for cvm::quaternion::dist2 / dist2_grad (C18).  Bodies sliced verbatim from src/colvartypes.h.
#include <cvm_stub.h>
#include <cvs_echo.h>
#define PI   3.14159265358979323846
extern "C" { extern int g_node[16]; extern double e_d[8]; }
struct quaternion_s;
struct cvm_q : colvarmodule { typedef quaternion_s quaternion; };
#undef cvm
#define cvm cvm_q
struct quaternion_s {
  cvm::real q0, q1, q2, q3;                                    //@real colvartypes.h
  quaternion_s() {}
  quaternion_s(cvm::real const &a, cvm::real const &b, cvm::real const &c, cvm::real const &d) { q0 = a; q1 = b; q2 = c; q3 = d; }
  quaternion_s(double a, double b, double c, double d) { q0 = cvm::real(a); q1 = cvm::real(b); q2 = cvm::real(c); q3 = cvm::real(d); }
  inline cvm::real dist2(cvm::quaternion const &Q2) const
#include "q_dist2.body.inc"
  inline cvm::quaternion dist2_grad(cvm::quaternion const &Q2) const;
};
inline cvm::quaternion operator * (cvm::real c, cvm::quaternion const &q)
#include "q_scale.body.inc"
inline cvm::quaternion quaternion_s::dist2_grad(cvm::quaternion const &Q2) const
#include "q_dist2_grad.body.inc"
// node slots: 0..3 this->q0..q3, 4..7 Q2.q0..q3, 8 dist2 result, 9..12 gradient components
static void load(quaternion_s &a, quaternion_s &b, double const *in) {
  a.q0 = cvm::real(in[0]); a.q1 = cvm::real(in[1]); a.q2 = cvm::real(in[2]); a.q3 = cvm::real(in[3]);
  b.q0 = cvm::real(in[4]); b.q1 = cvm::real(in[5]); b.q2 = cvm::real(in[6]); b.q3 = cvm::real(in[7]);
  g_node[0] = a.q0.id; g_node[1] = a.q1.id; g_node[2] = a.q2.id; g_node[3] = a.q3.id; g_node[4] = b.q0.id; g_node[5] = b.q1.id; g_node[6] = b.q2.id; g_node[7] = b.q3.id;
  for (int k = 0; k < 8; k++) e_d[k] = in[k];
}
extern "C" void k_q_dist2(double *in) { g_tn = 0; quaternion_s a, b; load(a, b, in); cvm::real r = a.dist2(b); g_node[8] = r.nid(); }
extern "C" void k_q_dist2_grad(double *in) { g_tn = 0; quaternion_s a, b; load(a, b, in); quaternion_s r = a.dist2_grad(b);
  g_node[9] = r.q0.nid(); g_node[10] = r.q1.nid(); g_node[11] = r.q2.nid(); g_node[12] = r.q3.nid(); }

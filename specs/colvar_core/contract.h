/* Contracts for class colvar's force / total-force bookkeeping.  Real arithmetic is symbolic (specs/common/term.h). */
#ifndef COLVAR_CORE_CONTRACT_H
#define COLVAR_CORE_CONTRACT_H
#include <stddef.h>
#include "../common/term.h"
extern int e_l[64]; extern int g_node[24]; extern int g_ncollect[2], g_nupd_ext;
extern int g_throw, g_debug; extern unsigned g_errors, g_error_bits;
extern long long g_step_rel, g_step_abs; extern int g_sim_continuing, g_sim_running;
extern double g_boltz, g_temp;
#define CID_TF (CID_USER + 0)
#define CID_JD (CID_USER + 1)
/* feature ids of the sliced enum (frame.cpp checks them with static assertions at setup) */
extern int g_fid[12];
#define F_ACTIVE g_fid[0]
#define F_TF_CALC g_fid[1]
#define F_HIDE_JAC g_fid[2]
#define F_SUB_APPL g_fid[3]
#define F_TF_CURR g_fid[4]
#define F_JACOBIAN g_fid[5]
#define F_EXT_LAG g_fid[6]
#define F_EXTERNAL g_fid[7]
#define F_COLLECT_GRAD g_fid[8]
#define NFEAT_CV 64
#define CV_FRAME __CPROVER_object_whole(e_l), __CPROVER_object_whole(g_node), TERM_FRAME
#define CV_PRE (__CPROVER_is_fresh(en, NFEAT_CV * sizeof(_Bool)) && g_tn == 0)
#define CVC_PRE (ncvc <= 2 && __CPROVER_is_fresh(cen, 2 * sizeof(_Bool)) && __CPROVER_is_fresh(coeff, 2 * sizeof(double)) && coeff[0] >= -1.0e100 && coeff[0] <= 1.0e100 && coeff[1] >= -1.0e100 && coeff[1] <= 1.0e100)
double k_boltzmann(void) __CPROVER_assigns() __CPROVER_ensures(__CPROVER_return_value == g_boltz);
double k_target_temperature(void) __CPROVER_assigns() __CPROVER_ensures(__CPROVER_return_value == g_temp);
void k_collect_gradients(int tag) __CPROVER_requires(0 <= tag && tag < 2 && g_ncollect[tag] < 100) __CPROVER_assigns(g_ncollect[tag]) __CPROVER_ensures(g_ncollect[tag] == __CPROVER_old(g_ncollect[tag]) + 1);
void k_update_extended_Lagrangian(void) __CPROVER_requires(g_nupd_ext < 100) __CPROVER_assigns(g_nupd_ext) __CPROVER_ensures(g_nupd_ext == __CPROVER_old(g_nupd_ext) + 1);

#define N(k) g_node[k]
#define IS_N3(n) P_SAME(n, N(3))
#define IS_C0(n) P_SAME(n, N(10))
#define IS_C1(n) P_SAME(n, N(11))
#define L_ZERO(n) P_LEAF(n, 0.0)
/* contribution of component k: (total_force_k * sup_coeff_k) / active_cvc_square_norm */
#define TF0(n) P_VCALL0(n, CID_TF, 0)
#define TF1(n) P_VCALL0(n, CID_TF, 1)
#define TFC0(n) P_BIN5(n, T_MUL, TF0, IS_C0)
#define TFC1(n) P_BIN5(n, T_MUL, TF1, IS_C1)
#define TERM0(n) P_BIN4(n, T_DIV, TFC0, IS_N3)
#define TERM1(n) P_BIN4(n, T_DIV, TFC1, IS_N3)
/* sum over the enabled components, starting from zero, in order */
#define ON0 (ncvc > 0 && cen[0])
#define ON1 (ncvc > 1 && cen[1])
#define SUM_0(n) L_ZERO(n)
#define SUM_A(n) P_BIN3(n, T_ADD, L_ZERO, TERM0)
#define SUM_B(n) P_BIN3(n, T_ADD, L_ZERO, TERM1)
#define SUM_AB(n) P_BIN2(n, T_ADD, SUM_A, TERM1)
#define CVC_SUM(n) ((!ON0 && !ON1) ? SUM_0(n) : (ON0 && !ON1) ? SUM_A(n) : (!ON0 && ON1) ? SUM_B(n) : SUM_AB(n))
#define IS_FJ_IN(n) P_SAME(n, N(1))
#define WITH_FJ(n) (TVALID(n) && g_top(n) == T_ADD && CVC_SUM(g_ta(n)) && IS_FJ_IN(g_tb(n)))

/* collect_cvc_total_forces: ft = sum over enabled components of total_force*coeff/norm, each once (linear in the component
   total forces), plus the Jacobian term unless it is hidden and the applied force is subtracted; reported at once iff the
   total force is of the current step */
int k_collect_cvc_total_forces(_Bool *en, size_t ncvc, _Bool *cen, double *coeff)
__CPROVER_requires(CV_PRE && CVC_PRE)
__CPROVER_assigns(CV_FRAME)
__CPROVER_ensures(__CPROVER_return_value == 0)
__CPROVER_ensures(!en[F_TF_CALC] ==> N(12) == N(0))
__CPROVER_ensures((en[F_TF_CALC] && (en[F_HIDE_JAC] && en[F_SUB_APPL])) ==> CVC_SUM(N(12)))
__CPROVER_ensures((en[F_TF_CALC] && !(en[F_HIDE_JAC] && en[F_SUB_APPL])) ==> WITH_FJ(N(12)))
__CPROVER_ensures(en[F_TF_CURR] ==> N(13) == N(12))
__CPROVER_ensures(!en[F_TF_CURR] ==> N(13) == N(2))
;
/* collect_cvc_Jacobians: fj = (sum over enabled components of Jacobian_derivative*coeff/norm) * (kB * T) */
#define JD0(n) P_VCALL0(n, CID_JD, 0)
#define JD1(n) P_VCALL0(n, CID_JD, 1)
#define JDC0(n) P_BIN6(n, T_MUL, JD0, IS_C0)
#define JDC1(n) P_BIN6(n, T_MUL, JD1, IS_C1)
#define JTERM0(n) P_BIN5(n, T_DIV, JDC0, IS_N3)
#define JTERM1(n) P_BIN5(n, T_DIV, JDC1, IS_N3)
#define JSUM_A(n) P_BIN4(n, T_ADD, L_ZERO, JTERM0)
#define JSUM_B(n) P_BIN4(n, T_ADD, L_ZERO, JTERM1)
#define JSUM_AB(n) P_BIN3(n, T_ADD, JSUM_A, JTERM1)
#define JSUM(n) ((!ON0 && !ON1) ? L_ZERO(n) : (ON0 && !ON1) ? JSUM_A(n) : (!ON0 && ON1) ? JSUM_B(n) : JSUM_AB(n))
#define L_KB(n) P_LEAF(n, g_boltz)
#define L_T(n) P_LEAF(n, g_temp)
#define KBT(n) P_BIN2(n, T_MUL, L_KB, L_T)
int k_collect_cvc_Jacobians(_Bool *en, size_t ncvc, _Bool *cen, double *coeff)
__CPROVER_requires(CV_PRE && CVC_PRE && g_boltz >= 0.0 && g_boltz <= 1.0 && g_temp >= 0.0 && g_temp <= 1.0e6)
__CPROVER_assigns(CV_FRAME)
__CPROVER_ensures(__CPROVER_return_value == 0)
__CPROVER_ensures(!en[F_JACOBIAN] ==> N(14) == N(1))
__CPROVER_ensures(en[F_JACOBIAN] ==> (TVALID(N(14)) && g_top(N(14)) == T_MUL && JSUM(g_ta(N(14))) && KBT(g_tb(N(14)))))
;
/* collect_cvc_gradients: iff gradients are collected, every enabled component contributes exactly once and a disabled
   component (switched off at run time) contributes nothing */
int k_collect_cvc_gradients(_Bool *en, size_t ncvc, _Bool *cen, size_t nat)
__CPROVER_requires(CV_PRE && ncvc <= 2 && nat <= 3 && __CPROVER_is_fresh(cen, 2 * sizeof(_Bool)) && g_ncollect[0] == 0 && g_ncollect[1] == 0)
__CPROVER_assigns(CV_FRAME, __CPROVER_object_whole(g_ncollect))
__CPROVER_ensures(__CPROVER_return_value == 0)
__CPROVER_ensures(g_ncollect[0] == ((en[F_COLLECT_GRAD] && ncvc > 0 && cen[0]) ? 1 : 0))
__CPROVER_ensures(g_ncollect[1] == ((en[F_COLLECT_GRAD] && ncvc > 1 && cen[1]) ? 1 : 0))
;
/* end_of_step: remembers the value, the force actually applied (f, not the bias sum) iff the applied force is to be
   subtracted from the next total force, and the relative step */
int k_end_of_step(_Bool *en, long long *prev_timestep)
__CPROVER_requires(CV_PRE && __CPROVER_is_fresh(prev_timestep, sizeof(long long)))
__CPROVER_assigns(CV_FRAME, *prev_timestep)
__CPROVER_ensures(__CPROVER_return_value == 0 && N(15) == N(4) && *prev_timestep == g_step_rel)
__CPROVER_ensures(en[F_SUB_APPL] ==> N(16) == N(5))
__CPROVER_ensures(!en[F_SUB_APPL] ==> N(16) == N(20))
;
/* update_forces_energy: inactive: zero force, zero energy.  Active: f = 0 + fb [- fj*tsf iff Jacobian and hidden]
   [extended Lagrangian step iff extended and running] [+ fb_actual unless external]; returns potential + kinetic energy */
#define IS_FB(n) P_SAME(n, N(6))
#define IS_FBA(n) P_SAME(n, N(7))
#define IS_FJ(n) P_SAME(n, N(1))
#define L_TSF(n) P_LEAF(n, (double)tsf)
#define F1(n) P_BIN4(n, T_ADD, L_ZERO, IS_FB)
#define FJT(n) P_BIN4(n, T_MUL, IS_FJ, L_TSF)
#define F2(n) P_BIN3(n, T_SUB, F1, FJT)
#define FBASE(n) ((en[F_JACOBIAN] && en[F_HIDE_JAC]) ? F2(n) : F1(n))
#define EXT_STEP (en[F_EXT_LAG] && g_sim_running)
/* with an extended-Lagrangian step the integrator receives the bias force FBASE and leaves the coupling-spring force (node 21) in f */
#define FPRE(n) (EXT_STEP ? P_SAME(n, N(21)) : FBASE(n))
#define F3(n) (TVALID(n) && g_top(n) == T_ADD && FPRE(g_ta(n)) && IS_FBA(g_tb(n)))
#define IS_POT(n) P_SAME(n, N(8))
#define IS_KIN(n) P_SAME(n, N(9))
double k_update_forces_energy(_Bool *en, int tsf)
__CPROVER_requires(CV_PRE && g_nupd_ext == 0 && (g_sim_running == 0 || g_sim_running == 1) && tsf >= 1 && tsf <= 1000000)
__CPROVER_assigns(CV_FRAME, g_nupd_ext)
__CPROVER_ensures(L_ZERO(N(18)))
__CPROVER_ensures(!en[F_ACTIVE] ==> (L_ZERO(N(17)) && L_ZERO(N(19)) && g_nupd_ext == 0))
__CPROVER_ensures(en[F_ACTIVE] ==> (g_nupd_ext == ((en[F_EXT_LAG] && g_sim_running) ? 1 : 0)))
__CPROVER_ensures((en[F_ACTIVE] && !en[F_EXTERNAL]) ==> F3(N(17)))
__CPROVER_ensures((en[F_ACTIVE] && en[F_EXTERNAL]) ==> FPRE(N(17)))
/* the force handed to the extended-Lagrangian integrator is the bias force on the extended coordinate, WITHOUT the forces of biases that bypass it */
__CPROVER_ensures((en[F_ACTIVE] && EXT_STEP) ==> FBASE(N(20)))
__CPROVER_ensures(en[F_ACTIVE] ==> P_BIN1(N(19), T_ADD, IS_POT, IS_KIN))
;
#endif

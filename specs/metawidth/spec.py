def s(name, src, sig, **kw): d = {'name': name, 'src': src, 'sig': sig, 'inc': name + '.body.inc'}; d.update(kw); return d
UNIT = {
 'cxxflags': ['-DCVS_SREAL'],
 'slices': [
  s('num_variables', 'colvarbias.h', r'inline size_t num_variables\(\) const'),
  s('variables', 'colvarbias.h', r'inline colvar \* variables\(int i\) const'),
  s('init_widths', 'colvarbias_meta.cpp', r'int colvarbias_meta::init\(std::string const &conf\)',
    **{'from': r'get_keyval\(conf, "gaussianSigmas", colvar_sigmas, colvar_sigmas\);', 'until': r'\n  \{\n    bool b_replicas = false;', 'until_close': 'return error_code;'}),
 ],
 'assumed': ['statement range of colvarbias_meta::init: from the gaussianSigmas keyword to the replica keywords; get_keyval delivers ghost values (a user either gives gaussianSigmas for both variables, or hillWidth, or neither, or both)',
             'symbolic reals; two variables'],
 'tasks': [
  {'id': 'init_widths', 'properties': ['C05'], 'slices': ['init_widths', 'num_variables', 'variables'], 'harness': 'h_init_widths', 'enforce': 'k_init_widths', 'unwind': 5, 'unwind_body': 4,
   'bounded': '2 variables (loops unwound)',
   'mutants': [('colvar_sigmas[i] = variables(i)->width * hill_width / 2.0;', 'colvar_sigmas[i] = variables(i)->width * hill_width;'), ('if (width_i > hill_width) hill_width = width_i;', 'hill_width = width_i;'), ('2.0 * colvar_sigmas[i] / variables(i)->width', 'colvar_sigmas[i] / variables(i)->width')]},
 ],
}

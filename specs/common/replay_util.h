// Shared helpers for native replay drivers: read "key value" lines written by the engine.
#ifndef REPLAY_UTIL_H
#define REPLAY_UTIL_H
#include <cstdio>
#include <cstdlib>
#include <cstring>
#include <cstdint>
#include <fstream>
#include <iostream>
#include <map>
#include <sstream>
#include <string>
struct replay_vals {
  std::map<std::string, std::string> m;
  bool load(char const *path) {
    std::ifstream is(path); if (!is) return false;
    std::string k, v;
    while (is >> k) { std::getline(is, v); size_t p = v.find_first_not_of(" \t"); m[k] = (p == std::string::npos) ? "" : v.substr(p); }
    return true;
  }
  bool has(std::string const &k) const { return m.count(k) != 0; }
  // integers are printed by cbmc as e.g. 12, -3, 2ul, 5l
  long long i(std::string const &k, long long dflt = 0) const {
    std::map<std::string, std::string>::const_iterator it = m.find(k); if (it == m.end()) return dflt;
    if (it->second == "TRUE" || it->second == "true") return 1;
    if (it->second == "FALSE" || it->second == "false") return 0;
    return std::strtoll(it->second.c_str(), NULL, 10);
  }
  unsigned long long u(std::string const &k, unsigned long long dflt = 0) const {
    std::map<std::string, std::string>::const_iterator it = m.find(k); if (it == m.end()) return dflt;
    return std::strtoull(it->second.c_str(), NULL, 10);
  }
  // doubles: prefer the exact bit pattern (key#bin = 64 chars of 0/1) when the engine provides it
  double d(std::string const &k, double dflt = 0.0) const {
    std::map<std::string, std::string>::const_iterator b = m.find(k + "#bin");
    if (b != m.end() && b->second.size() == 64) {
      uint64_t x = 0; for (size_t j = 0; j < 64; j++) x = (x << 1) | (b->second[j] == '1');
      double r; std::memcpy(&r, &x, 8); return r;
    }
    std::map<std::string, std::string>::const_iterator it = m.find(k); if (it == m.end()) return dflt;
    return std::strtod(it->second.c_str(), NULL);
  }
  long long arr_i(std::string const &base, int idx) const {
    std::ostringstream a; a << base << "[" << idx << "l]"; if (has(a.str())) return i(a.str());
    std::ostringstream c; c << base << "[" << idx << "]"; return i(c.str());
  }
  double arr_d(std::string const &base, int idx) const {
    std::ostringstream a; a << base << "[" << idx << "l]"; if (has(a.str()) || has(a.str() + "#bin")) return d(a.str());
    std::ostringstream c; c << base << "[" << idx << "]"; return d(c.str());
  }
};
#define REPLAY_FAIL(msg) do { std::cout << "REPLAY: property violated on the real code: " << msg << std::endl; return 1; } while (0)
#define REPLAY_PASS(msg) do { std::cout << "REPLAY: real code behaves as specified on this input: " << msg << std::endl; return 0; } while (0)
#endif

// Native replay for colvarbias_alb::write_traj_label / write_traj (C19): real module + stub proxy, an ALB bias with outputCenters and outputGradient
// on; the trajectory file is parsed: each label of the header line is matched with the number below it.  The restraint centre is a known constant
// (7.25), so the column labelled x0_<name> must hold 7.25 on every line and the column labelled Grad_<name> must not be that constant; the number of
// labels must equal the number of data columns.
#include "replay_util.h"
#include <cmath>
#include <vector>
#include <unistd.h>
#include "colvarmodule.h"
#include "colvarproxy.h"
#include "colvarproxy_stub.h"
#include "colvarproxy_stub.cpp"
class run_proxy : public colvarproxy_stub { public: run_proxy() : colvarproxy_stub() { b_simulation_running = true; } };
int main(int argc, char **argv) {
  if (argc < 3) return 2;
  char dir[] = "./cvalbXXXXXX"; if (!mkdtemp(dir)) return 2; if (chdir(dir)) return 2;
  run_proxy *proxy = new run_proxy(); proxy->set_unit_system("real", false); proxy->set_output_prefix("alb"); proxy->colvars->setup_input(); proxy->colvars->setup_output();
  for (int ai = 0; ai < 2; ai++) proxy->init_atom(ai + 1);
  if (proxy->colvars->read_config_string("colvarsTrajFrequency 1\ncolvarsRestartFrequency 0\ncolvar {\n  name d\n  distance {\n    group1 { atomNumbers 1 }\n    group2 { atomNumbers 2 }\n  }\n}\n"
      "alb {\n  name a\n  colvars d\n  centers 7.25\n  UpdateFrequency 4\n  outputCenters on\n  outputGradient on\n  outputEnergy on\n}\n")) { std::cout << "REPLAY: configuration rejected\n"; return 3; }
  std::vector<cvm::atom_pos> &pos = *(proxy->modify_atom_positions());
  for (int s = 0; s < 9; s++) { pos[0] = cvm::atom_pos(0.0, 0.0, 0.0); pos[1] = cvm::atom_pos(5.0 + 0.3 * (s % 4), 0.0, 0.0); proxy->colvars->it = s; proxy->colvars->calc(); }
  proxy->post_run(); delete proxy;
  std::ifstream is("alb.colvars.traj"); if (!is) { std::cout << "REPLAY: no trajectory file\n"; return 3; }
  std::string line; std::vector<std::string> labels; int nlines = 0, bad_count = 0, bad_x0 = 0, bad_grad = 0; std::ostringstream first;
  while (std::getline(is, line)) {
    if (line.size() == 0) continue; std::istringstream ls(line); std::string tok; std::vector<std::string> toks; while (ls >> tok) toks.push_back(tok);
    if (line[0] == '#') { labels.assign(toks.begin() + 1, toks.end()); continue; }
    nlines++; if (toks.size() != labels.size()) { bad_count++; if (first.str().empty()) first << "label line has " << labels.size() << " columns, data line " << toks.size() << "; "; continue; }
    for (size_t k = 0; k < labels.size(); k++) { double v = std::strtod(toks[k].c_str(), NULL);
      if (labels[k].find("x0_") == 0 && std::fabs(v - 7.25) > 1e-9) { bad_x0++; if (first.str().empty()) first << "column labelled " << labels[k] << " holds " << toks[k] << " instead of the centre 7.25; "; }
      if (labels[k].find("Grad_") == 0 && std::fabs(v - 7.25) < 1e-9) { bad_grad++; } }
  }
  if (nlines == 0 || labels.empty()) { std::cout << "REPLAY: empty trajectory\n"; return 3; }
  if (bad_count || bad_x0 || bad_grad) REPLAY_FAIL("ALB bias with outputCenters and outputGradient: over " << nlines << " trajectory lines, " << bad_x0 << " values under the x0_ label are not the centre, " << bad_grad
     << " values under the Grad_ label are the centre, " << bad_count << " lines have a column count different from the label line; " << first.str());
  REPLAY_PASS("ALB trajectory columns match their labels on " << nlines << " lines");
}

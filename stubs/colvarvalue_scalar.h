// Scalar-only stand-in for colvarvalue (a model of a dependency; listed as trusted).
#ifndef CVS_COLVARVALUE_SCALAR_H
#define CVS_COLVARVALUE_SCALAR_H
#include <cvm_stub.h>
struct colvarvalue {
  int value_type;
  cvm::real real_value;
  colvarvalue() : value_type(1), real_value(0.0) {}
  colvarvalue(cvm::real const &x) : value_type(1), real_value(x) {}
  operator cvm::real() const { return real_value; }
};
#endif

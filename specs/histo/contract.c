#include "contract.h"
int e_l[8]; int g_bin[2]; int g_ok[2]; int g_can; int g_nacc, g_acc_bin[4]; double g_acc_w[4];
int g_throw, g_debug, g_vec_alloc; unsigned g_errors, g_error_bits; size_t g_alloc_bytes;
long long g_step_rel, g_step_abs; int g_sim_continuing, g_sim_running;
size_t nondet_size_t(void); int nondet_int(void); double nondet_double(void); _Bool nondet_bool(void);
double k_floor(double x) { return x; } double k_sqrt(double x) { return x; } double k_pow(double x, double y) { return x; }
double k_boltzmann(void) { return 0.0; } double k_target_temperature(void) { return 0.0; } double k_dt(void) { return 1.0; } int k_same_step(void) { return 0; }
void h_histogram_update(void) { g_debug = 0; g_nacc = 0; g_errors = 0; g_error_bits = 0; g_can = nondet_int(); g_bin[0] = nondet_int(); g_bin[1] = nondet_int(); g_ok[0] = nondet_int(); g_ok[1] = nondet_int();
  size_t n = nondet_size_t(); k_histogram_update(n, nondet_double(), nondet_double());
  if (n == 2 && g_nacc == 2) __CPROVER_assert(0, "canary: two elements of a vector variable accumulated");
  if (n == 0 && g_nacc == 1) __CPROVER_assert(0, "canary: scalar sample accumulated"); }

// Symbolic reals: cvm::real as a class whose arithmetic builds a ghost term table instead of computing.
// Every arithmetic operation allocates a node (operator, operand nodes); leaves carry their double value.
// The numeric payload v of an operation result is unconstrained (uninterpreted): contracts state WHICH expression
// is computed (term structure), comparisons in the code branch on the payloads.  Machine arithmetic is thus treated
// as uninterpreted function symbols -- listed as an assumption in every evidence file that uses it.
#ifndef CVS_SREAL_H
#define CVS_SREAL_H
#include <cvs_base.h>
#ifndef T_NT
#define T_NT 72
#endif
#define T_LEAF 1
#define T_ADD 2
#define T_SUB 3
#define T_MUL 4
#define T_DIV 5
#define T_NEG 6
#define T_CALL 7
extern "C" {
  // packed into two objects (fewer frame targets = cheaper contract instrumentation):
  extern unsigned long long g_tw[T_NT];   // per node, packed in one word (one frame-checked write): operator (8 bits), operand nodes a, b, c stored +1 (16 bits each; or: tag / arg nodes of a call)
  extern double g_tv[T_NT];        // payload (leaf value, or the unconstrained result value)
extern int g_tn_;
#define g_tn g_tn_
#define g_top(n) ((int) (g_tw[n] & 255))
#define g_ta(n) ((int) ((g_tw[n] >> 8) & 65535) - 1)
#define g_tb(n) ((int) ((g_tw[n] >> 24) & 65535) - 1)
#define g_tc(n) ((int) ((g_tw[n] >> 40) & 65535) - 1)
#define T_PACK(op, a, b, c) ((unsigned long long) (op) | ((unsigned long long) ((a) + 1) << 8) | ((unsigned long long) ((b) + 1) << 24) | ((unsigned long long) ((c) + 1) << 40))
  double nondet_double();
}
struct sreal {
  double v; int id;
  sreal() : v(0.0), id(-1) {}
  sreal(double x) { v = x; id = leaf(x); }
  sreal(int x) { v = (double) x; id = leaf(v); }
  sreal(long x) { v = (double) x; id = leaf(v); }
  sreal(long long x) { v = (double) x; id = leaf(v); }
  sreal(unsigned long x) { v = (double) x; id = leaf(v); }
  static int leaf(double x) {
    int n = g_tn; CVS_ASSERT(n >= 0 && n < T_NT, "term table capacity (modelling limit)");
    g_tw[n] = T_PACK(T_LEAF, -1, -1, -1); g_tv[n] = x; g_tn = n + 1; return n;
  }
  static sreal node(int op, int a, int b, int c = -1) {
    sreal r; int n = g_tn; CVS_ASSERT(n >= 0 && n < T_NT, "term table capacity (modelling limit)");
    double val = nondet_double(); __CPROVER_assume(val >= -1.0e300 && val <= 1.0e300);
    CVS_ASSERT(op >= 0 && op < 256 && a >= -1 && a < 65535 && b >= -1 && b < 65535 && c >= -1 && c < 65535, "term node fields fit the packed word (modelling limit)");
    g_tw[n] = T_PACK(op, a, b, c); g_tv[n] = val; g_tn = n + 1; r.v = val; r.id = n; return r;
  }
  // an operand that was never given a value (default-constructed, id -1) stands for the literal 0.0: the operand slot holds -1
  // (no node is allocated for it, so node numbering does not depend on it; P_LEAF(n, 0.0) accepts -1)
  int nid() const { return id; }
  sreal &operator=(double x) { v = x; id = leaf(x); return *this; }
  sreal operator-() const { return node(T_NEG, nid(), -1); }
  sreal &operator+=(sreal const &b) { sreal r = node(T_ADD, nid(), b.nid()); v = r.v; id = r.id; return *this; }
  sreal &operator-=(sreal const &b) { sreal r = node(T_SUB, nid(), b.nid()); v = r.v; id = r.id; return *this; }
  sreal &operator*=(sreal const &b) { sreal r = node(T_MUL, nid(), b.nid()); v = r.v; id = r.id; return *this; }
  sreal &operator/=(sreal const &b) { sreal r = node(T_DIV, nid(), b.nid()); v = r.v; id = r.id; return *this; }
  sreal &operator+=(double b) { return operator+=(sreal(b)); }
  sreal &operator-=(double b) { return operator-=(sreal(b)); }
  sreal &operator*=(double b) { return operator*=(sreal(b)); }
  sreal &operator/=(double b) { return operator/=(sreal(b)); }
};
#define SREAL_BIN(OPSYM, OPC) \
  inline sreal operator OPSYM(sreal const &a, sreal const &b) { return sreal::node(OPC, a.nid(), b.nid()); } \
  inline sreal operator OPSYM(double a, sreal const &b) { sreal x(a); return sreal::node(OPC, x.id, b.nid()); } \
  inline sreal operator OPSYM(sreal const &a, double b) { sreal y(b); return sreal::node(OPC, a.nid(), y.id); } \
  inline sreal operator OPSYM(int a, sreal const &b) { sreal x(a); return sreal::node(OPC, x.id, b.nid()); } \
  inline sreal operator OPSYM(sreal const &a, int b) { sreal y(b); return sreal::node(OPC, a.nid(), y.id); }
SREAL_BIN(+, T_ADD)
SREAL_BIN(-, T_SUB)
SREAL_BIN(*, T_MUL)
SREAL_BIN(/, T_DIV)
#define SREAL_CMP(OPSYM) \
  inline bool operator OPSYM(sreal const &a, sreal const &b) { return a.v OPSYM b.v; } \
  inline bool operator OPSYM(sreal const &a, double b) { return a.v OPSYM b; } \
  inline bool operator OPSYM(double a, sreal const &b) { return a OPSYM b.v; } \
  inline bool operator OPSYM(sreal const &a, int b) { return a.v OPSYM (double) b; } \
  inline bool operator OPSYM(int a, sreal const &b) { return (double) a OPSYM b.v; }
SREAL_CMP(<)
SREAL_CMP(>)
SREAL_CMP(<=)
SREAL_CMP(>=)
SREAL_CMP(==)
SREAL_CMP(!=)
inline sreal cvs_select(bool c, sreal const &a, sreal const &b) { if (c) return a; return b; }
// an uninterpreted function application f_<cid>(a, b, c) (pow, exp, dist2 ...): a node with operator T_CALL + cid
inline sreal sreal_call(int cid, int a, int b = -1, int c = -1) { return sreal::node(T_CALL + cid, a, b, c); }
#endif

M = 'colvarbias_meta.cpp'
H = 'colvarbias_meta.h'
def s(name, src, sig, **kw): d = {'name': name, 'src': src, 'sig': sig, 'inc': name + '.body.inc'}; d.update(kw); return d
SEL = ('values ? (*values)[i] : colvar_values[i]', '*(values ? &(*values)[i] : &colvar_values[i])')
UNIT = {
 'cxxflags': ['-DCVS_SREAL', '-DCVS_CVV_TYPES'], 'cflags': [],
 'slices': [
  s('cvv_Type', 'colvarvalue.h', r'enum Type'),
  s('num_variables', 'colvarbias.h', r'inline size_t num_variables\(\) const'),
  s('variables', 'colvarbias.h', r'inline colvar \* variables\(int i\) const'),
  s('hill_energy', H, r'inline cvm::real energy\(\)'),
  s('hill_value_get', H, r'inline cvm::real const &value\(\)'),
  s('hill_value_set', H, r'inline void value\(cvm::real const &new_value\)'),
  s('hill_weight', H, r'inline cvm::real weight\(\)'),
  s('calc_hills', M, r'void colvarbias_meta::calc_hills\(colvarbias_meta::hill_iter\s+h_first,', subst=[SEL, ('h->value(0.0);', 'h->value(cvm::real(0.0));')], R5=['cv_sqdev', 'energy']),
  s('calc_hills_force', M, r'void colvarbias_meta::calc_hills_force\(size_t const &i,', subst=[('colvarvalue const x(values ? (*values)[i] : colvar_values[i]);', 'colvarvalue const &x = *(values ? &(*values)[i] : &colvar_values[i]);')],
    R5=[r'forces\[i\]\.real_value', r'forces\[i\]\.rvector_value', r'forces\[i\]\.quaternion_value', r'forces\[i\]\.vector1d_value']),
 ],
 'assumed': ['symbolic reals (stubs/sreal.h); colvar::dist2 / dist2_lgrad and exp are uninterpreted calls; scalar variables only (the branches of calc_hills_force for vector, unit-vector and quaternion values compile against placeholders and are not under contract)',
             'two variables, at most two hills in the range',
             'extraction rewrites the class-typed conditional `values ? (*values)[i] : colvar_values[i]` into the equivalent pointer-typed conditional (front-end limit); in calc_hills_force the copy `x(...)` becomes a const reference'],
 'tasks': [
  {'id': 'calc_hills', 'properties': ['C05', 'C01'], 'slices': ['calc_hills', 'hill_energy', 'hill_value_get', 'hill_value_set', 'hill_weight', 'num_variables', 'variables'], 'harness': 'h_calc_hills', 'enforce': 'k_calc_hills',
   'unwind': 4, 'unwind_body': 4, 'bounded': '2 variables, exactly 2 hills (loops unwound), scalar type',
   'mutants': [('(sigma*sigma)', '(sigma)'), ('cvm::exp(-0.5*cv_sqdev)', 'cvm::exp(-1.0*cv_sqdev)'), ('energy += h->energy();', 'energy = h->energy();'), ('h->centers[i]', 'h->centers[0]'), ('h->sigmas[i]', 'h->sigmas[0]')]},
  {'id': 'calc_hills_force', 'properties': ['C05', 'C01'], 'slices': ['calc_hills_force', 'hill_energy', 'hill_value_get', 'hill_value_set', 'hill_weight', 'num_variables', 'variables'], 'harness': 'h_calc_hills_force', 'enforce': 'k_calc_hills_force',
   'unwind': 4, 'unwind_body': 4, 'bounded': '2 variables, exactly 2 hills (loops unwound), scalar type',
   'mutants': [('cvm::real const sigma = h->sigmas[i];', 'cvm::real const sigma = colvar_sigmas[i];', 'calc_hills_force', 0), ('(0.5 / (sigma*sigma))', '(1.0 / (sigma*sigma))', 'calc_hills_force', 0),
               ('if (h->value() == 0.0) continue;', '', 'calc_hills_force', 0), ('dist2_lgrad(x, center)', 'dist2_lgrad(center, x)', 'calc_hills_force', 0), ('h->weight() * h->value()', 'h->weight()', 'calc_hills_force', 0)]},
 ],
}

#include "contract.h"
long e_l[16]; long g_pos; int g_state; int g_match, g_match_ok, g_first_word; int g_nrs, g_rs_kind[6], g_rs_tag[6], g_ndiscard, g_nwords;
int g_throw, g_debug, g_vec_alloc; unsigned g_errors, g_error_bits; size_t g_alloc_bytes;
long long g_step_rel, g_step_abs; int g_sim_continuing, g_sim_running;
size_t nondet_size_t(void); int nondet_int(void); long nondet_long(void);
double k_floor(double x) { return x; } double k_sqrt(double x) { return x; } double k_pow(double x, double y) { return x; }
double k_boltzmann(void) { return 0.0; } double k_target_temperature(void) { return 0.0; } double k_dt(void) { return 1.0; } int k_same_step(void) { return 0; }
void h_hill_stream_error(void) { g_debug = 0; g_errors = 0; g_pos = nondet_long(); g_state = nondet_int(); k_hill_stream_error(nondet_size_t());
  if (e_l[2] == 6) __CPROVER_assert(0, "canary: stream at end-of-file with failbit on entry (partially written record)"); }
void h_read_objects_state(void) { g_debug = 0; g_errors = 0; g_pos = nondet_long(); g_state = 0; g_match = nondet_int(); g_match_ok = nondet_int(); g_first_word = 2;
  k_read_objects_state(); if (g_match == 1) __CPROVER_assert(0, "canary: block of the second bias of a type"); if (g_match == -1) __CPROVER_assert(0, "canary: unclaimed block"); }

def s(name, src, sig, **kw): d = {'name': name, 'src': src, 'sig': sig, 'inc': name + '.body.inc'}; d.update(kw); return d
UNIT = {
 'slices': [
  s('clear_keyword_registry', 'colvarparse.cpp', r'void colvarparse::clear_keyword_registry\(\)'),
  s('parse_config', 'colvarmodule.cpp', r'int colvarmodule::parse_config\(std::string &conf\)', until=r'\n  // Parse auto-generated configuration', until_close='return COLVARS_OK;'),
  s('coordnum_pairlist', 'colvarcomp_coordnums.cpp', r'int colvar::coordnum::init\(std::string const &conf\)', which=0,
    **{'from': r'get_keyval\(conf, "pairListFrequency", pairlist_freq, pairlist_freq\);', 'until': r'\n    if \(b_group2_center_only\) \{', 'until_close': 'k_alloc_pairlist();\n  return COLVARS_OK;'}),
 ],
 'assumed': ['parse stages (check_braces, parse_global_params, parse_colvars, parse_biases, check_keywords) are logging stubs; colvarmodule::parse_config is sliced up to the comment "Parse auto-generated configuration"; coordnum::init: only the pairListFrequency statements are sliced, the allocation that follows is a marker call'],
 'tasks': [
  {'id': 'clear_keyword_registry', 'properties': ['C09'], 'slices': ['clear_keyword_registry'], 'harness': 'h_clear_keyword_registry', 'enforce': 'k_clear_keyword_registry', 'unwind': 20,
   'mutants': [('allowed_keywords.clear();', ''), ('data_end_pos.clear();', '')]},
  {'id': 'parse_config', 'properties': ['C10'], 'slices': ['parse_config'], 'harness': 'h_parse_config', 'enforce': 'k_parse_config', 'replace': ['k_stage'], 'unwind': 20,
   'mutants': [('extra_conf.clear();', ''), ('if (catch_input_errors(parse_colvars(conf))) {\n    return get_error();\n  }', 'catch_input_errors(parse_colvars(conf));')]},
  {'id': 'coordnum_pairlist', 'properties': ['C10'], 'slices': ['coordnum_pairlist'], 'harness': 'h_coordnum_pairlist', 'enforce': 'k_coordnum_pairlist', 'replace': ['k_get_keyval_int', 'k_alloc_pairlist'], 'unwind': 20,
   'mutants': [('if ( ! (pairlist_freq > 0) ) {', 'if (pairlist_freq < 0) {')]},
 ],
}

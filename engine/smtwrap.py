#!/usr/bin/env python3
"""External SMT2 solver wrapper for cbmc --external-smt2-solver.

CBMC emits datatype selectors for C++ structs unquoted (struct.10.K_x::f),
which SMT-LIB parsers reject.  This rewrites '::' (and '$', '(' ')' inside such
names are not produced) outside |...| quoted symbols and string literals to
'..', then runs the solver named by $CVS_SMT_SOLVER (default cvc5) on the result.
"""
import os, subprocess, sys, tempfile
def fix(txt):
    out = []; i = 0; n = len(txt); q = False
    while i < n:
        c = txt[i]
        if c == '|':
            q = not q; out.append(c); i += 1
        elif not q and c == ':' and i + 1 < n and txt[i+1] == ':':
            out.append('..'); i += 2
        else:
            out.append(c); i += 1
    return ''.join(out)
def main():
    src = sys.argv[-1]
    txt = open(src, errors='replace').read()
    d = os.environ.get('TMPDIR', '/var/tmp')
    fd, path = tempfile.mkstemp(suffix='.smt2', dir=d)
    with os.fdopen(fd, 'w') as f: f.write(fix(txt))
    solver = os.environ.get('CVS_SMT_SOLVER', 'cvc5')
    if solver == 'cvc5': cmd = ['cvc5', '--lang=smt2', '--produce-models', path]
    elif solver == 'z3': cmd = ['z3', '-smt2', path]
    elif solver == 'z3-new': cmd = ['z3-new', '-smt2', path]
    else: cmd = solver.split() + [path]
    try:
        r = subprocess.run(cmd, stdout=subprocess.PIPE, stderr=subprocess.STDOUT)
        sys.stdout.write(r.stdout.decode(errors='replace'))
        rc = r.returncode
    finally:
        try: os.unlink(path)
        except OSError: pass
    sys.exit(rc)
main()

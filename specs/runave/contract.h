/* Contracts for colvar::calc_runave (C19), symbolic reals.  Textbook definitions over a window of L = runAveLength values
   (the current value x and the L-1 previous ones h_i):  mean = (x + sum h_i) / L ;  variance = (d2(x, mean) + sum d2(h_i, mean)) / (L-1),
   d2 the variable's own squared distance.  For the mean to cover exactly L values the window must hold exactly the L-1 previous values. */
#ifndef RUNAVE_CONTRACT_H
#define RUNAVE_CONTRACT_H
#include <stddef.h>
#include "../common/term.h"
extern int e_i[16]; extern int g_node[16];
extern int g_throw, g_debug; extern unsigned g_errors, g_error_bits;
#define CID_SELF_DIST2 (CID_USER + 3)
#define O(x) __CPROVER_old(x)
#define IS_X(n) P_SAME(n, g_node[0])
#define IS_H0(n) P_SAME(n, g_node[1])
#define IS_H1(n) P_SAME(n, g_node[2])
#define IS_MEAN(n) P_SAME(n, g_node[4])
#define L_ONE(n) P_LEAF(n, 1.0)
#define L_ZERO(n) P_LEAF(n, 0.0)
#define L_LEN(n) P_LEAF(n, (double) L)
#define L_LEN1(n) P_LEAF(n, (double) (L - 1))
#define T_INVL(n) P_BIN3(n, T_DIV, L_ONE, L_LEN)
#define T_INVL1(n) P_BIN3(n, T_DIV, L_ONE, L_LEN1)
#define SUM2(n) P_BIN3(n, T_ADD, IS_X, IS_H0)
#define SUM3(n) P_BIN2(n, T_ADD, SUM2, IS_H1)
#define D_X(n) P_CALL2_5(n, CID_SELF_DIST2, IS_X, IS_MEAN)
#define D_H0(n) P_CALL2_5(n, CID_SELF_DIST2, IS_H0, IS_MEAN)
#define D_H1(n) P_CALL2_5(n, CID_SELF_DIST2, IS_H1, IS_MEAN)
#define V1(n) P_BIN4(n, T_ADD, L_ZERO, D_X)
#define V2(n) P_BIN3(n, T_ADD, V1, D_H0)
#define V3(n) P_BIN2(n, T_ADD, V2, D_H1)
int k_runave_compute(size_t L)
__CPROVER_requires((L == 2 || L == 3) && g_tn == 0)
__CPROVER_assigns(__CPROVER_object_whole(e_i), __CPROVER_object_whole(g_node), TERM_FRAME)
__CPROVER_ensures(L == 2 ==> (TVALID(g_node[4]) && g_top(g_node[4]) == T_MUL && SUM2(g_ta(g_node[4])) && T_INVL(g_tb(g_node[4]))))
__CPROVER_ensures(L == 3 ==> (TVALID(g_node[4]) && g_top(g_node[4]) == T_MUL && SUM3(g_ta(g_node[4])) && T_INVL(g_tb(g_node[4]))))
__CPROVER_ensures(L == 2 ==> (TVALID(g_node[5]) && g_top(g_node[5]) == T_MUL && V2(g_ta(g_node[5])) && T_INVL1(g_tb(g_node[5]))))
__CPROVER_ensures(L == 3 ==> (TVALID(g_node[5]) && g_top(g_node[5]) == T_MUL && V3(g_ta(g_node[5])) && T_INVL1(g_tb(g_node[5]))))
;
/* the window is told to keep runave_length - 1 previous values */
extern int g_npush; extern size_t g_push_len;
void k_history_add_value(size_t history_length, size_t size_before) __CPROVER_requires(g_npush < 4) __CPROVER_assigns(g_npush, g_push_len) __CPROVER_ensures(g_npush == O(g_npush) + 1 && g_push_len == history_length);
int k_runave_push(size_t L, size_t size_before)
__CPROVER_requires(L >= 2 && L <= 1000000 && size_before <= L && g_npush == 0)
__CPROVER_assigns(__CPROVER_object_whole(e_i), g_npush, g_push_len)
__CPROVER_ensures(g_npush == 1 && g_push_len == L - 1)
;
#endif

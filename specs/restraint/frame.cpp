// Frame TU for restraint biases (C06, C03, C19, C01).  Bodies sliced verbatim from src/colvarbias_restraint.cpp.
#include <vector>
#include <cvm_stub.h>
#include <cvs_echo.h>
#include <colvar_sym.h>

enum features_biases
#include "features_biases.body.inc"
;
enum features_colvar
#include "features_colvar.body.inc"
;
#include "echo.h"
extern "C" { extern int g_f_cv_periodic; }
extern "C" { extern int g_ret; }

struct RestraintF {
  bool en_[f_cvb_ntot];
  bool is_enabled(int f = f_cvb_active) const { return en_[f]; }
  std::vector<colvar *> colvars;                               //@real colvarbias.h
  std::vector<colvarvalue> colvar_forces;                      //@real colvarbias.h
  cvm::real bias_energy;                                       //@real colvarbias.h
  std::vector<colvarvalue> colvar_centers;                     //@real colvarbias_restraint.h
  cvm::real force_k;                                           //@real colvarbias_restraint.h
  bool b_chg_centers;                                          //@real colvarbias_restraint.h
  bool b_chg_force_k;                                          //@real colvarbias_restraint.h
  bool b_decoupling;                                           //@real colvarbias_restraint.h
  int target_nstages;                                          //@real colvarbias_restraint.h
  int stage;                                                   //@real colvarbias_restraint.h
  std::vector<cvm::real> lambda_schedule;                      //@real colvarbias_restraint.h
  cvm::step_number target_nsteps;                              //@real colvarbias_restraint.h
  cvm::step_number first_step;                                 //@real colvarbias_restraint.h
  cvm::real acc_work;                                          //@real colvarbias_restraint.h
  std::vector<colvarvalue> target_centers;                     //@real colvarbias_restraint.h
  std::vector<colvarvalue> initial_centers;                    //@real colvarbias_restraint.h
  std::vector<colvarvalue> centers_incr;                       //@real colvarbias_restraint.h
  std::vector<colvarvalue> lower_walls;                        //@real colvarbias_restraint.h
  std::vector<colvarvalue> upper_walls;                        //@real colvarbias_restraint.h
  cvm::real lower_wall_k;                                      //@real colvarbias_restraint.h
  cvm::real upper_wall_k;                                      //@real colvarbias_restraint.h
  inline size_t num_variables() const
#include "num_variables.body.inc"
  inline colvar *variables(int i) const
#include "variables.body.inc"
};

// ---- harmonic ----
struct K_h_pot : RestraintF { size_t i; cvm::real body() const
#include "harmonic_restraint_potential.body.inc"
};
struct K_h_force : RestraintF { size_t i; colvarvalue const body() const
#include "harmonic_restraint_force.body.inc"
};
struct K_h_dk : RestraintF { size_t i; cvm::real body() const
#include "harmonic_d_restraint_potential_dk.body.inc"
};
// ---- walls ----
struct K_w_dist : RestraintF { size_t i; cvm::real body() const
#include "walls_colvar_distance.body.inc"
};
extern "C" double k_walls_colvar_distance_stub(size_t i);
// callers of colvar_distance see a leaf carrying the value the stand-in returns
struct WallsC : RestraintF { cvm::real colvar_distance(size_t i) const { double d = k_walls_colvar_distance_stub(i); cvm::real r(d); return r; } };
struct K_w_pot : WallsC { size_t i; cvm::real body() const
#include "walls_restraint_potential.body.inc"
};
struct K_w_force : WallsC { size_t i; colvarvalue const body() const
#include "walls_restraint_force.body.inc"
};
struct K_w_dk : WallsC { size_t i; cvm::real body() const
#include "walls_d_restraint_potential_dk.body.inc"
};
// ---- linear ----
struct K_l_pot : RestraintF { size_t i; cvm::real body() const
#include "linear_restraint_potential.body.inc"
};
struct K_l_force : RestraintF { size_t i; colvarvalue const body() const
#include "linear_restraint_force.body.inc"
};
struct K_l_dk : RestraintF { size_t i; cvm::real body() const
#include "linear_d_restraint_potential_dk.body.inc"
};
// ---- base class update: energy and forces of all variables ----
#define CID_RPOT (CID_USER + 5)
#define CID_RFORCE (CID_USER + 6)
extern "C" void k_bias_update();
struct K_r_update : RestraintF {
  struct colvarbias { static int update() { k_bias_update(); return COLVARS_OK; } };
  cvm::real restraint_potential(size_t i) const { return sreal_call(CID_RPOT, (int) i); }
  colvarvalue const restraint_force(size_t i) const { colvarvalue r(sreal_call(CID_RFORCE, (int) i)); return r; }
  int body()
#include "restraint_update.body.inc"
};
struct K_uc : RestraintF { int body(cvm::real lambda)
#include "update_centers.body.inc"
};
// ---- moving centres ----
extern "C" int k_update_centers(int lambda_node);
struct K_cm_update : RestraintF {
  int update_centers(cvm::real lambda) { return k_update_centers(lambda.nid()); }
  int body()
#include "centers_moving_update.body.inc"
};
struct K_cm_work : RestraintF { int body()
#include "centers_moving_update_acc_work.body.inc"
};

// one variable (tag 0) at index i of a 2-element list; the other slot belongs to tag 1
#define SETUP1(f) \
  colvar cvs[2]; colvar *cvp[2]; colvarvalue cen[2], lwv[2], uwv[2], cfv[2], inc[2]; \
  for (int k = 0; k < 2; k++) { cvs[k].tag = (k == (int) i) ? 0 : 1; cvs[k].width = cvm::real((k == (int) i) ? width : 1.0); cvp[k] = &cvs[k]; } \
  cen[i] = colvarvalue(center); \
  CVS_VIEW(f.colvars, cvp, 2); CVS_VIEW(f.colvar_centers, cen, 2); CVS_VIEW(f.colvar_forces, cfv, 2); CVS_VIEW(f.centers_incr, inc, 2); \
  f.force_k = cvm::real(force_k); f.i = i; g_f_cv_periodic = f_cv_periodic; \
  for (int k = 0; k < f_cvb_ntot; k++) f.en_[k] = false; \
  e_force_k = force_k; e_width = width; e_center = center; e_i = (int) i;
#define RET_REAL(x) do { cvm::real r_ = (x); g_ret = r_.nid(); return r_.v; } while (0)
#define RET_CVV(x) do { colvarvalue r_ = (x); g_ret = r_.real_value.nid(); return r_.real_value.v; } while (0)

extern "C" double k_harmonic_restraint_potential(size_t i, double force_k, double width, double center) {
  K_h_pot f; SETUP1(f); RET_REAL(f.body()); }
extern "C" double k_harmonic_restraint_force(size_t i, double force_k, double width, double center) {
  K_h_force f; SETUP1(f); RET_CVV(f.body()); }
extern "C" double k_harmonic_d_restraint_potential_dk(size_t i, double force_k, double width, double center) {
  K_h_dk f; SETUP1(f); RET_REAL(f.body()); }

#define SETUPW(f) \
  double center = 0.0; SETUP1(f); lwv[i] = colvarvalue(lw); uwv[i] = colvarvalue(uw); \
  CVS_VIEW(f.lower_walls, lwv, has_lower ? 2 : 0); CVS_VIEW(f.upper_walls, uwv, has_upper ? 2 : 0); \
  f.lower_wall_k = cvm::real(lk); f.upper_wall_k = cvm::real(uk); f.en_[f_cvb_bypass_ext_lagrangian] = bypass; \
  e_lw = lw; e_uw = uw; e_lk = lk; e_uk = uk; e_has_lower = has_lower; e_has_upper = has_upper; e_bypass = bypass;

extern "C" double k_walls_colvar_distance(size_t i, double lw, double uw, int has_lower, int has_upper, bool bypass) {
  double force_k = 1.0, width = 1.0, lk = 1.0, uk = 1.0;
  K_w_dist f; SETUPW(f); RET_REAL(f.body()); }
extern "C" double k_walls_restraint_potential(size_t i, double force_k, double width, double lk, double uk) {
  double lw = 0.0, uw = 0.0; int has_lower = 1, has_upper = 1; bool bypass = false;
  K_w_pot f; SETUPW(f); RET_REAL(f.body()); }
extern "C" double k_walls_restraint_force(size_t i, double force_k, double width, double lk, double uk) {
  double lw = 0.0, uw = 0.0; int has_lower = 1, has_upper = 1; bool bypass = false;
  K_w_force f; SETUPW(f); RET_CVV(f.body()); }
extern "C" double k_walls_d_restraint_potential_dk(size_t i, double force_k, double width, double lk, double uk) {
  double lw = 0.0, uw = 0.0; int has_lower = 1, has_upper = 1; bool bypass = false;
  K_w_dk f; SETUPW(f); RET_REAL(f.body()); }

extern "C" double k_linear_restraint_potential(size_t i, double force_k, double width, double center) {
  K_l_pot f; SETUP1(f); RET_REAL(f.body()); }
extern "C" double k_linear_restraint_force(size_t i, double force_k, double width, double center) {
  K_l_force f; SETUP1(f); RET_CVV(f.body()); }
extern "C" double k_linear_d_restraint_potential_dk(size_t i, double force_k, double width, double center) {
  K_l_dk f; SETUP1(f); RET_REAL(f.body()); }
extern "C" { extern int g_un[12]; }
// g_un: 0 energy in, 1 energy out, 2,3 forces out
extern "C" int k_restraint_update() {
  K_r_update f; colvar cvs[2]; colvar *cvp[2]; colvarvalue cfv[2];
  for (int k = 0; k < 2; k++) { cvs[k].tag = k; cvp[k] = &cvs[k]; double b_ = nondet_double(); cfv[k] = colvarvalue(b_); }
  CVS_VIEW(f.colvars, cvp, 2); CVS_VIEW(f.colvar_forces, cfv, 2);
  for (int k = 0; k < f_cvb_ntot; k++) f.en_[k] = false;
  double c_ = nondet_double(); f.bias_energy = cvm::real(c_); g_un[0] = f.bias_energy.id;
  int r = f.body();
  g_un[1] = f.bias_energy.nid(); g_un[2] = cfv[0].real_value.nid(); g_un[3] = cfv[1].real_value.nid();
  return r;
}
// g_un: 4 lambda, 5,6 initial, 7,8 target, 9,10 old centres; out: g_uo 0,1 increments, 2,3 new centres
extern "C" { extern int g_uo[4]; }
extern "C" int k_update_centers_body() {
  K_uc f; colvar cvs[2]; colvar *cvp[2]; colvarvalue ini[2], tgt[2], cen[2], inc[2];
  for (int k = 0; k < 2; k++) { cvs[k].tag = k; cvp[k] = &cvs[k];
    double a_ = nondet_double(), b_ = nondet_double(), c_ = nondet_double(); ini[k] = colvarvalue(a_); tgt[k] = colvarvalue(b_); cen[k] = colvarvalue(c_);
    g_un[5 + k] = ini[k].real_value.id; g_un[7 + k] = tgt[k].real_value.id; g_un[9 + k] = cen[k].real_value.id; }
  CVS_VIEW(f.colvars, cvp, 2); CVS_VIEW(f.initial_centers, ini, 2); CVS_VIEW(f.target_centers, tgt, 2); CVS_VIEW(f.colvar_centers, cen, 2); CVS_VIEW(f.centers_incr, inc, 2);
  for (int k = 0; k < f_cvb_ntot; k++) f.en_[k] = false;
  double l_ = nondet_double(); cvm::real lambda(l_); g_un[4] = lambda.id;
  int r = f.body(lambda);
  g_uo[0] = inc[0].real_value.nid(); g_uo[1] = inc[1].real_value.nid(); g_uo[2] = cen[0].real_value.nid(); g_uo[3] = cen[1].real_value.nid();
  return r;
}
// moving centres: stage in/out; centers_incr (2 variables) in/out as values
extern "C" int k_centers_moving_update(int *stage, int target_nstages, CVS_STEP_T target_nsteps, CVS_STEP_T first_step, bool b_chg_centers, double *incr) {
  K_cm_update f; colvar cvs[2]; colvar *cvp[2]; colvarvalue inc[2];
  for (int k = 0; k < 2; k++) { cvs[k].tag = k; cvp[k] = &cvs[k]; inc[k] = colvarvalue(incr[k]); }
  CVS_VIEW(f.colvars, cvp, 2); CVS_VIEW(f.centers_incr, inc, 2);
  f.stage = *stage; f.target_nstages = target_nstages; f.target_nsteps = target_nsteps; f.first_step = first_step; f.b_chg_centers = b_chg_centers;
  e_stage = *stage; e_target_nstages = target_nstages; e_target_nsteps = target_nsteps; e_first_step = first_step; e_chg = b_chg_centers;
  e_step_abs = g_step_abs; e_step_rel = g_step_rel; e_running = g_sim_running;
  int r = f.body();
  *stage = f.stage; incr[0] = inc[0].real_value.v; incr[1] = inc[1].real_value.v;
  return r;
}
extern "C" { extern int g_cf_node[2], g_incr_node[2], g_acc_in, g_acc_out; }
extern "C" int k_centers_moving_update_acc_work(CVS_STEP_T target_nsteps, CVS_STEP_T first_step, bool b_chg_centers, bool out_work) {
  K_cm_work f; colvar cvs[2]; colvar *cvp[2]; colvarvalue inc[2], cfv[2];
  // forces, increments and the accumulator are opaque symbolic values (fresh leaves)
  for (int k = 0; k < 2; k++) { cvs[k].tag = k; cvp[k] = &cvs[k]; double a_ = nondet_double(), b_ = nondet_double(); inc[k] = colvarvalue(a_); cfv[k] = colvarvalue(b_);
    g_cf_node[k] = cfv[k].real_value.id; g_incr_node[k] = inc[k].real_value.id; }
  CVS_VIEW(f.colvars, cvp, 2); CVS_VIEW(f.centers_incr, inc, 2); CVS_VIEW(f.colvar_forces, cfv, 2);
  for (int k = 0; k < f_cvb_ntot; k++) f.en_[k] = false;
  f.en_[f_cvb_output_acc_work] = out_work;
  double c_ = nondet_double(); f.acc_work = cvm::real(c_); g_acc_in = f.acc_work.id;
  f.target_nsteps = target_nsteps; f.first_step = first_step; f.b_chg_centers = b_chg_centers;
  e_target_nsteps = target_nsteps; e_first_step = first_step; e_chg = b_chg_centers; e_step_abs = g_step_abs; e_step_rel = g_step_rel; e_running = g_sim_running;
  int r = f.body();
  g_acc_out = f.acc_work.nid();
  return r;
}

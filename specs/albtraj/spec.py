A = 'colvarbias_alb.cpp'
def s(name, src, sig, **kw): d = {'name': name, 'src': src, 'sig': sig, 'inc': name + '.body.inc'}; d.update(kw); return d
UNIT = {
 'slices': [
  s('alb_label', A, r'std::ostream & colvarbias_alb::write_traj_label\(std::ostream &os\)'),
  s('alb_traj', A, r'std::ostream & colvarbias_alb::write_traj\(std::ostream &os\)', subst=[('static_cast<cvm::real>(colvar_centers[i])', 'cvs_real_of(colvar_centers[i])')]),
 ],
 'assumed': ['the output stream is a token recorder: a label literal is recorded by its kind (E_, ForceConst_, Grad_, x0_), a value by the identity of the member it comes from; widths, precisions and names are not recorded',
             'one variable; extraction rewrites static_cast<cvm::real>(colvar_centers[i]) into a stub accessor (no conversion operators in the front end)'],
 'tasks': [
  {'id': 'alb_columns', 'properties': ['C19'], 'slices': ['alb_label', 'alb_traj'], 'harness': 'h_alb_columns', 'enforce': 'k_alb_columns', 'replace': ['k_tok'], 'unwind': 4,
   'bounded': 'one variable (loops over variables unwound)',
   'mutants': [('if (b_output_coupling)\n    for (size_t i = 0; i < current_coupling.size(); i++) {\n      os << " "', 'if (b_output_energy)\n    for (size_t i = 0; i < current_coupling.size(); i++) {\n      os << " "', 'alb_traj', 0)]},
 ],
}

// Native replay for value<->bin conversions: real colvar_grid<double> with one dimension's lower boundary and width set.
#include "replay_util.h"
#include "colvargrid.h"
#include "colvarproxy.h"
#include <cmath>
int main(int argc, char **argv) {
  if (argc < 3) return 2; std::string task(argv[1]); replay_vals v; if (!v.load(argv[2])) return 2;
  colvarproxy *proxy = new colvarproxy(); proxy->colvars = new colvarmodule(proxy);
  double value = v.d("e_value"), lower = v.d("e_lower"), width = v.d("e_width"); int i = int(v.i("e_i")), nxi = int(v.i("e_nxi")); bool per = v.i("e_peri") != 0;
  if (i < 0 || i > 3) return 3;
  colvar_grid<double> g; g.nd = 4; g.nx.assign(4, nxi > 0 ? nxi : 1); g.nxc.assign(4, 1); g.periodic.assign(4, false); g.periodic[i] = per;
  g.lower_boundaries.assign(4, colvarvalue(0.0)); g.upper_boundaries.assign(4, colvarvalue(1.0)); g.widths.assign(4, 1.0);
  g.lower_boundaries[i] = colvarvalue(lower); g.widths[i] = width;
  long double q = ((long double) value - (long double) lower) / (long double) width;
  std::ostringstream in; in.precision(17); in << task << "(value=" << value << ", lower=" << lower << ", width=" << width << ")";
  if (task == "value_to_bin_scalar") {
    int b = g.value_to_bin_scalar(colvarvalue(value), i); double qd = (value - lower) / width;
    if (!((double) b <= qd && qd < (double) b + 1.0)) REPLAY_FAIL(in.str() << " = " << b << " but the quotient is " << qd << ": the value is not in bin [" << b << ", " << b + 1 << ")");
    REPLAY_PASS(in.str() << " = " << b);
  }
  if (task == "value_to_bin_scalar_bound") {
    int b = g.value_to_bin_scalar_bound(colvarvalue(value), i);
    if (b < 0 || b >= nxi) REPLAY_FAIL(in.str() << " = " << b << " outside [0, " << nxi << ")");
    double qd = (value - lower) / width; if (qd >= 0.0 && qd < (double) nxi && !((double) b <= qd && qd < (double) b + 1.0)) REPLAY_FAIL(in.str() << " = " << b << " but the in-range quotient is " << qd);
    REPLAY_PASS(in.str() << " = " << b);
  }
  if (task == "bin_to_value_scalar") {
    int ib = int(v.i("e_ibin")); double r = g.bin_to_value_scalar(ib, i).real_value; double ref = lower + width * (0.5 + ib);
    if (r != ref && !(std::isnan(r) && std::isnan(ref))) REPLAY_FAIL(in.str() << " bin " << ib << ": centre " << r << ", expected " << ref); REPLAY_PASS(in.str());
  }
  std::cout << "REPLAY: no native oracle for " << task << "\n"; return 3;
}

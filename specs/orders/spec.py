def s(name, src, sig, **kw): d = {'name': name, 'src': src, 'sig': sig, 'inc': name + '.body.inc'}; d.update(kw); return d
UNIT = {
 'slices': [
  s('features_atomgroup', 'colvardeps.h', r'enum features_atomgroup'),
  s('write_replica_state_file', 'colvarbias_meta.cpp', r'int colvarbias_meta::write_replica_state_file\(\)', subst=[('cvm::proxy', 'cvs_io_proxy()'), ('if (rep_state_os) {', 'if (!!rep_state_os) {')]),
  s('parse_module_config', 'colvarproxy.cpp', r'int colvarproxy::parse_module_config\(\)'),
  s('atom_group_dtor', 'colvaratoms.cpp', r'cvm::atom_group::~atom_group\(\)', subst=[('delete fitting_group;', 'k_delete_fitting();'), ('delete rot_deriv;', 'k_delete_rot();'), ('cvm::main()', 'cvs_main2_p'), ('nullptr', '0')]),
 ],
 'assumed': ['the proxy file operations, write_state, read_config_string/file, delete of the fitting group / rotation derivative and (un)registration are logging stubs; strings are bounded (12 characters)'],
 'tasks': [
  {'id': 'write_replica_state_file', 'properties': ['C11'], 'slices': ['write_replica_state_file'], 'harness': 'h_write_replica_state_file', 'enforce': 'k_write_replica_state_file',
   'replace': ['k_io', 'k_stream_ok', 'k_write_state_ok'], 'unwind': 20,
   'mutants': [('error_code |= proxy->close_output_stream(tmp_state_file);\n\n  error_code |= proxy->rename_file(tmp_state_file, replica_state_file);', 'error_code |= proxy->rename_file(tmp_state_file, replica_state_file);\n\n  error_code |= proxy->close_output_stream(tmp_state_file);'),
               ('error_code |= proxy->remove_file(tmp_state_file);', '')]},
  {'id': 'parse_module_config', 'properties': ['C20'], 'slices': ['parse_module_config'], 'harness': 'h_parse_module_config', 'enforce': 'k_parse_module_config',
   'replace': ['k_read_config'], 'unwind': 20, 'unwind_body': 4, 'bounded': 'at most 2 queued configurations (queue loop unwound)',
   'mutants': [('    config_queue->pop_front();', '    if (error_code != COLVARS_OK) return error_code;\n    config_queue->pop_front();'), ('p.first == "configfile"', 'p.first == "config"')]},
  {'id': 'atom_group_dtor', 'properties': ['C13'], 'slices': ['atom_group_dtor'], 'harness': 'h_atom_group_dtor', 'enforce': 'k_atom_group_dtor',
   'replace': ['k_delete_fitting', 'k_delete_rot', 'k_clear_atom_group', 'k_unregister'], 'unwind': 20,
   'mutants': [('if (fitting_group) {', 'if (is_enabled(f_ag_fitting_group)) {'), ('is_enabled(f_ag_scalable) && !b_dummy', 'is_enabled(f_ag_scalable)')]},
 ],
}

#include "contract.h"
#include <stdlib.h>
int e_i[8];
int g_throw, g_debug, g_vec_alloc; unsigned g_errors, g_error_bits; size_t g_alloc_bytes;
long long g_step_rel, g_step_abs; int g_sim_continuing, g_sim_running;
int nondet_int(void);
double k_floor(double x) { return x; } double k_sqrt(double x) { return x; } double k_pow(double x, double y) { return x; }
double k_boltzmann(void) { return 0.0; } double k_target_temperature(void) { return 0.0; } double k_dt(void) { return 1.0; } int k_same_step(void) { return 0; }
#define SC_H(SUF) \
void h_cmd_arg_shift_##SUF(void) { k_cmd_arg_shift_##SUF(); __CPROVER_assert(0, "canary: cmd_arg_shift returns"); } \
void h_get_cmd_arg_##SUF(void) { unsigned char **objv; unsigned char *r = k_get_cmd_arg_##SUF(nondet_int(), nondet_int(), objv); \
  if (r) __CPROVER_assert(0, "canary: argument present"); if (!r) __CPROVER_assert(0, "canary: argument absent"); } \
void h_check_cmd_nargs_##SUF(void) { g_debug = 0; int r = k_check_cmd_nargs_##SUF(nondet_int(), nondet_int(), nondet_int()); \
  if (r == 0) __CPROVER_assert(0, "canary: accepted"); if (r != 0) __CPROVER_assert(0, "canary: rejected"); } \
/* lemma: after an accepted argument-count check every mandatory argument is a word that was passed */ \
void h_lemma_mandatory_##SUF(void) { int objc = nondet_int(), mn = nondet_int(), mx = nondet_int(), i = nondet_int(); \
  __CPROVER_assume(0 <= objc && objc <= 64 && 0 <= mn && mn <= mx && mx <= OBJC_MAX && 0 <= i && i < mn); \
  unsigned char **objv = malloc((size_t)objc * sizeof(unsigned char *)); __CPROVER_assume(objv != NULL); \
  unsigned char word = 0; if (objc > 0) { int w = nondet_int(); __CPROVER_assume(0 <= w && w < objc); objv[w] = &word; } \
  if (k_check_cmd_nargs_##SUF(objc, mn, mx) == 0) { \
    unsigned char *a = k_get_cmd_arg_##SUF(i, objc, objv); \
    __CPROVER_assert(a == objv[k_cmd_arg_shift_##SUF() + i], "lemma: a mandatory argument is the word at shift+i, inside objv[0..objc)"); \
    __CPROVER_assert(0, "canary: lemma reachable"); } }
SC_H(module) SC_H(colvar) SC_H(bias)

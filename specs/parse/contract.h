/* Contracts for configuration-text helpers (C09), strings of length <= 6 (bounded):
   getline: CRLF and LF lines deliver the same text (a trailing CR is removed, nothing else), an empty line clears the output;
   check_braces: OK iff the numbers of '{' and '}' from start_pos on are equal; to_lower_cppstr: ASCII letters folded, rest kept. */
#ifndef PARSE_CONTRACT_H
#define PARSE_CONTRACT_H
#include <stddef.h>
#define SMAX 6
extern char e_s[16]; extern size_t e_n[4];
extern int g_throw, g_debug; extern unsigned g_errors, g_error_bits;
extern int g_line_ok;
int k_stream_line_ok(void) __CPROVER_assigns() __CPROVER_ensures(__CPROVER_return_value == g_line_ok);
#define O(x) __CPROVER_old(x)
#define P_FRAME __CPROVER_object_whole(e_s), __CPROVER_object_whole(e_n)
#define STR_OK(p, n) ((n) <= SMAX && __CPROVER_is_fresh(p, SMAX + 1))
#define ALL6(P) (P(0) && P(1) && P(2) && P(3) && P(4) && P(5))
#define HAS_CR (nin > 0 && in[nin - 1] == '\r')
#define LINE_EQ_IN(k) ((k) >= *nline || line[k] == in[k])
#define LINE_KEPT(k) ((k) >= O(*nline) || line[k] == O(line[k]))
int k_getline(char *in, size_t nin, char *line, size_t *nline)
__CPROVER_requires(STR_OK(in, nin) && __CPROVER_is_fresh(line, SMAX + 1) && __CPROVER_is_fresh(nline, sizeof(size_t)) && *nline <= SMAX && (g_line_ok == 0 || g_line_ok == 1))
__CPROVER_assigns(P_FRAME, __CPROVER_object_whole(line), *nline)
__CPROVER_ensures(g_line_ok ==> (*nline == (HAS_CR ? nin - 1 : nin) && ALL6(LINE_EQ_IN)))
__CPROVER_ensures(!g_line_ok ==> (*nline == O(*nline) && ALL6(LINE_KEPT)))
;
#define OPEN_AT(k) (((k) >= start_pos && (k) < n && conf[k] == '{') ? 1 : 0)
#define CLOSE_AT(k) (((k) >= start_pos && (k) < n && conf[k] == '}') ? 1 : 0)
#define NOPEN (OPEN_AT(0) + OPEN_AT(1) + OPEN_AT(2) + OPEN_AT(3) + OPEN_AT(4) + OPEN_AT(5))
#define NCLOSE (CLOSE_AT(0) + CLOSE_AT(1) + CLOSE_AT(2) + CLOSE_AT(3) + CLOSE_AT(4) + CLOSE_AT(5))
int k_check_braces(char *conf, size_t n, size_t start_pos)
__CPROVER_requires(STR_OK(conf, n) && start_pos <= n)
__CPROVER_assigns(P_FRAME)
__CPROVER_ensures((__CPROVER_return_value == 0) == (NOPEN == NCLOSE))
__CPROVER_ensures(__CPROVER_return_value == 0 || __CPROVER_return_value == (1 << 2))
;
#define LOW(c) (((c) >= 'A' && (c) <= 'Z') ? (c) + 32 : (c))
#define LOWER_AT(k) ((k) >= n || out[k] == LOW(in[k]))
int k_to_lower_cppstr(char *in, size_t n, char *out, size_t *nout)
__CPROVER_requires(STR_OK(in, n) && __CPROVER_is_fresh(out, SMAX + 1) && __CPROVER_is_fresh(nout, sizeof(size_t)))
__CPROVER_assigns(P_FRAME, __CPROVER_object_whole(out), *nout)
__CPROVER_ensures(*nout == n && ALL6(LOWER_AT))
;
#endif

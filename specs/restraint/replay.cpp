// Native replay for the harmonic and harmonic-walls restraints (C06, C01): real module + stub proxy, one distance variable between two atoms
// on the x axis.  Parameters (force constant, width, centre, walls, wall constants) come from the counterexample after being mapped into a
// usable range (with symbolic reals the verifier's numbers do not steer the arithmetic; any parameter set exposes a wrong closed form).
// For several positions the bias energy is compared with the documented closed form and the force on the second atom with minus its
// derivative (analytic and by central finite differences of the reported energy).
#include "replay_util.h"
#include <cmath>
#include <vector>
#include <unistd.h>
#include "colvarmodule.h"
#include "colvarproxy.h"
#include "colvarbias.h"
#include "colvar.h"
#include "colvarproxy_stub.h"
#include "colvarproxy_stub.cpp"
static double usable(double x, double lo, double hi, double dflt) { if (!(x == x) || std::fabs(x) > 1.0e6) return dflt; double a = std::fabs(x); double r = lo + std::fmod(a, hi - lo); return (r > lo) ? r : dflt; }
struct sample { double E, F; };
static colvarproxy_stub *make(std::string const &conf) {
  colvarproxy_stub *proxy = new colvarproxy_stub(); proxy->set_unit_system("real", false); proxy->colvars->setup_input(); proxy->colvars->setup_output();
  for (int ai = 0; ai < 2; ai++) proxy->init_atom(ai + 1);
  if (proxy->colvars->read_config_string(conf)) { delete proxy; return NULL; }
  return proxy;
}
static sample eval(colvarproxy_stub *proxy, double x, long step) {
  std::vector<cvm::atom_pos> &pos = *(proxy->modify_atom_positions()); pos[0] = cvm::atom_pos(0.0, 0.0, 0.0); pos[1] = cvm::atom_pos(x, 0.0, 0.0);
  std::vector<cvm::rvector> &f = *(proxy->modify_atom_applied_forces()); f[0] = cvm::rvector(0.0, 0.0, 0.0); f[1] = cvm::rvector(0.0, 0.0, 0.0);
  proxy->colvars->it = step; proxy->colvars->calc();
  sample s; s.E = proxy->colvars->biases[0]->get_energy(); s.F = (*(proxy->modify_atom_applied_forces()))[1].x; return s;
}
// moving centre of a harmonic restraint on a periodic variable (dihedral): the centre goes from 170 to 190 degrees in 10 steps, i.e. through the
// +-180 seam; the variable stays at 175.  The accumulated work written to the trajectory must equal sum_t F(t) * dc with dc the 2-degree increment.
class run_proxy_r : public colvarproxy_stub { public: run_proxy_r() : colvarproxy_stub() { b_simulation_running = true; } };
static int moving_periodic_centre() {
  char dir[] = "./cvmcXXXXXX"; if (!mkdtemp(dir)) return 2; if (chdir(dir)) return 2;
  run_proxy_r *p = new run_proxy_r(); p->set_unit_system("real", false); p->set_output_prefix("mc"); p->colvars->setup_input(); p->colvars->setup_output(); for (int a = 0; a < 4; a++) p->init_atom(a + 1);
  double const k = 0.01;
  if (p->colvars->read_config_string("colvarsTrajFrequency 1\ncolvarsRestartFrequency 0\ncolvar {\n  name phi\n  dihedral {\n    group1 { atomNumbers 1 }\n    group2 { atomNumbers 2 }\n    group3 { atomNumbers 3 }\n    group4 { atomNumbers 4 }\n  }\n}\n"
     "harmonic {\n  name h\n  colvars phi\n  forceConstant 0.01\n  centers 170.0\n  targetCenters 190.0\n  targetNumSteps 10\n  outputCenters on\n  outputAccumulatedWork on\n}\n")) { std::cout << "REPLAY: configuration rejected\n"; delete p; return 3; }
  double const a = 175.0 * 3.14159265358979323846 / 180.0;
  for (int s = 0; s <= 10; s++) { std::vector<cvm::atom_pos> &pos = *(p->modify_atom_positions());
    pos[0] = cvm::atom_pos(1, 0, 0); pos[1] = cvm::atom_pos(0, 0, 0); pos[2] = cvm::atom_pos(0, 0, 1); pos[3] = cvm::atom_pos(std::cos(a), std::sin(a), 1); p->colvars->it = s; p->colvars->calc(); }
  p->post_run(); delete p;
  std::ifstream is("mc.colvars.traj"); if (!is) { std::cout << "REPLAY: no trajectory\n"; return 3; }
  std::string line; int bad = 0, n = 0; std::ostringstream first; double W = 0.0;
  while (std::getline(is, line)) { if (line.size() == 0 || line[0] == '#') continue; std::istringstream ls(line); long st; double x, c, w; if (!(ls >> st >> x >> c >> w)) continue; n++;
    // centre at step st is 170 + 2 st (mod 360); restraint force on the variable F = -k (x - c) over the shortest image; work accumulated on steps 1..10
    if (st >= 1) { double cc = 170.0 + 2.0 * st; double d = 175.0 - cc; d -= 360.0 * std::floor(d / 360.0 + 0.5); W += -k * d * 2.0; }
    if (std::fabs(w - W) > 1e-6 * (1.0 + std::fabs(W))) { bad++; if (first.str().empty()) first << "step " << st << " (centre " << c << "): written accumulated work " << w << ", sum of force times centre increment " << W; } }
  if (n == 0) { std::cout << "REPLAY: empty trajectory\n"; return 3; }
  if (bad) REPLAY_FAIL("harmonic restraint on a dihedral with the centre moving 170 -> 190 degrees in 10 steps: " << bad << " of " << n << " lines report an accumulated work different from sum F dc; " << first.str());
  REPLAY_PASS("accumulated work of a centre moving through the +-180 seam equals sum F dc on " << n << " lines");
}
// harmonic restraint on a PERIODIC variable (dihedral, period 360): centre near the -180/180 seam, positions on both sides of it.  The energy must use
// the shortest-image difference, and the force applied on the variable must be minus its derivative.
static int harmonic_periodic(double k, double w, double shift) {
  double const c = -180.0 + shift * 0.2;        // centre within 10 degrees of the seam
  std::ostringstream conf; conf.precision(17);
  conf << "colvarsTrajFrequency 0\ncolvarsRestartFrequency 0\ncolvar {\n  name phi\n  width " << w << "\n  outputAppliedForce on\n  dihedral {\n    group1 { atomNumbers 1 }\n    group2 { atomNumbers 2 }\n    group3 { atomNumbers 3 }\n    group4 { atomNumbers 4 }\n  }\n}\n"
       << "harmonic {\n  name h\n  colvars phi\n  forceConstant " << k << "\n  centers " << c << "\n}\n";
  colvarproxy_stub *proxy = new colvarproxy_stub(); proxy->set_unit_system("real", false); proxy->colvars->setup_input(); proxy->colvars->setup_output();
  for (int ai = 0; ai < 4; ai++) proxy->init_atom(ai + 1);
  if (proxy->colvars->read_config_string(conf.str())) { std::cout << "REPLAY: configuration rejected\n" << conf.str(); delete proxy; return 3; }
  double const angles[4] = {170.0, -175.0, 178.0, -160.0}; int bad = 0; std::ostringstream first;
  for (int n = 0; n < 4; n++) {
    double const a = angles[n] * 3.14159265358979323846 / 180.0;
    std::vector<cvm::atom_pos> &pos = *(proxy->modify_atom_positions());
    pos[0] = cvm::atom_pos(1.0, 0.0, 0.0); pos[1] = cvm::atom_pos(0.0, 0.0, 0.0); pos[2] = cvm::atom_pos(0.0, 0.0, 1.0); pos[3] = cvm::atom_pos(std::cos(a), std::sin(a), 1.0);
    proxy->colvars->it = n; proxy->colvars->calc();
    colvar *cv = colvarmodule::colvar_by_name("phi"); double const x = cv->value().real_value;
    double d = x - c; d -= 360.0 * std::floor(d / 360.0 + 0.5);
    double const E = 0.5 * k * d * d / (w * w), F = -k * d / (w * w);
    double const Er = proxy->colvars->biases[0]->get_energy(), Fr = cv->applied_force().real_value;
    if (std::fabs(Er - E) > 1e-9 * (1.0 + std::fabs(E)) || std::fabs(Fr - F) > 1e-9 * (1.0 + std::fabs(F))) { bad++;
      if (first.str().empty()) first << "dihedral " << x << ", centre " << c << " (shortest difference " << d << "): energy " << Er << ", closed form over the shortest image " << E << "; force on the variable " << Fr << ", expected " << F; }
  }
  delete proxy;
  if (bad) REPLAY_FAIL("harmonic restraint on a periodic variable, forceConstant " << k << ", width " << w << ": " << bad << " of 4 positions deviate; " << first.str());
  REPLAY_PASS("harmonic restraint on a dihedral across the +-180 seam: energy and force follow the shortest-image difference at 4 positions");
}
int main(int argc, char **argv) {
  if (argc < 3) return 2; std::string task(argv[1]); replay_vals v; if (!v.load(argv[2])) return 2;
  double const k = usable(v.d("e_force_k"), 0.5, 9.5, 2.5), w = usable(v.d("e_width"), 0.3, 2.3, 0.7);
  bool const walls = task.find("walls") == 0;
  if (task == "update_centers_body") return moving_periodic_centre();
  if (!walls && task.find("harmonic") != 0) { std::cout << "REPLAY: no native driver for task " << task << "\n"; return 3; }
  if (!walls) return harmonic_periodic(k, w, usable(v.d("e_center"), 0.0, 50.0, 13.0));
  std::ostringstream conf; conf.precision(17);
  conf << "colvarsTrajFrequency 0\ncolvarsRestartFrequency 0\ncolvar {\n  name d\n  width " << w << "\n  distance {\n    group1 { atomNumbers 1 }\n    group2 { atomNumbers 2 }\n  }\n}\n";
  double c = 0.0, lw = 0.0, uw = 0.0, kl = 0.0, ku = 0.0;
  if (!walls) { c = usable(v.d("e_center"), 4.0, 9.0, 5.3); conf << "harmonic {\n  name h\n  colvars d\n  forceConstant " << k << "\n  centers " << c << "\n}\n"; }
  else { lw = usable(v.d("e_lw"), 3.0, 5.0, 4.1); uw = lw + usable(v.d("e_uw"), 1.0, 4.0, 2.2); kl = usable(v.d("e_lk") * k, 0.5, 9.5, 1.7); ku = usable(v.d("e_uk") * k, 0.5, 9.5, 3.9);
    conf << "harmonicWalls {\n  name h\n  colvars d\n  lowerWalls " << lw << "\n  upperWalls " << uw << "\n  lowerWallConstant " << kl << "\n  upperWallConstant " << ku << "\n}\n"; }
  colvarproxy_stub *proxy = make(conf.str()); if (!proxy) { std::cout << "REPLAY: configuration rejected\n" << conf.str(); return 3; }
  std::vector<double> xs;
  if (!walls) { xs.push_back(c - 1.7 * w); xs.push_back(c + 0.4 * w); xs.push_back(c + 2.3 * w); }
  else { xs.push_back(lw - 1.3 * w); xs.push_back(lw - 0.2 * w); xs.push_back(0.5 * (lw + uw)); xs.push_back(uw + 0.6 * w); xs.push_back(uw + 1.9 * w); }
  int bad = 0; std::ostringstream first; long step = 0;
  for (size_t n = 0; n < xs.size(); n++) {
    double const x = xs[n]; if (!(x > 0.2)) continue;
    double E, F;
    if (!walls) { E = 0.5 * k * (x - c) * (x - c) / (w * w); F = -k * (x - c) / (w * w); }
    else if (x < lw) { E = 0.5 * kl * (x - lw) * (x - lw) / (w * w); F = -kl * (x - lw) / (w * w); }
    else if (x > uw) { E = 0.5 * ku * (x - uw) * (x - uw) / (w * w); F = -ku * (x - uw) / (w * w); }
    else { E = 0.0; F = 0.0; }
    sample s = eval(proxy, x, step++); double const h = 1.0e-5; sample sp = eval(proxy, x + h, step++), sm = eval(proxy, x - h, step++);
    double const fd = -(sp.E - sm.E) / (2.0 * h);
    bool const bE = std::fabs(s.E - E) > 1e-9 * (1.0 + std::fabs(E)), bF = std::fabs(s.F - F) > 1e-9 * (1.0 + std::fabs(F)), bD = std::fabs(s.F - fd) > 1e-4 * (1.0 + std::fabs(fd));
    if (bE || bF || bD) { bad++; if (first.str().empty()) first << "at d = " << x << ": energy " << s.E << " (closed form " << E << "), force on atom 2 " << s.F << " (closed form " << F << ", minus finite-difference derivative of the reported energy " << fd << ")"; }
  }
  delete proxy;
  if (bad) REPLAY_FAIL((walls ? "harmonicWalls" : "harmonic") << " restraint with " << (walls ? "" : "forceConstant ") << (walls ? "" : "") << "parameters {" << conf.str().substr(conf.str().find(walls ? "harmonicWalls" : "harmonic {")) << "}: " << bad << " of " << xs.size() << " positions deviate; " << first.str());
  REPLAY_PASS("energy equals the documented closed form and the atomic force is minus its derivative at " << xs.size() << " positions");
}

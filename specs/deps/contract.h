/* Contracts for colvardeps::disable / decr_ref_count (C13): no capability is switched off while something needs it;
   switching one off releases each of its prerequisites exactly once. */
#ifndef DEPS_CONTRACT_H
#define DEPS_CONTRACT_H
#include <stddef.h>
#define NF 4
extern int e_d[40];
extern int g_throw, g_debug; extern unsigned g_errors, g_error_bits;
extern int g_self_calls[NF], g_child_calls[2 * NF], g_nfree, g_ndisable, g_disable_fid;
#define F_TYPE_DYNAMIC 1
int k_decr_self(int fid) __CPROVER_requires(0 <= fid && fid < NF && g_self_calls[fid] < 100)
  __CPROVER_assigns(g_self_calls[fid]) __CPROVER_ensures(g_self_calls[fid] == __CPROVER_old(g_self_calls[fid]) + 1);
int k_decr_child(int child, int fid) __CPROVER_requires(0 <= fid && fid < NF && 0 <= child && child < 2 && g_child_calls[child * NF + fid] < 100)
  __CPROVER_assigns(g_child_calls[child * NF + fid]) __CPROVER_ensures(g_child_calls[child * NF + fid] == __CPROVER_old(g_child_calls[child * NF + fid]) + 1);
void k_free_children_deps(void) __CPROVER_requires(g_nfree < 100) __CPROVER_assigns(g_nfree) __CPROVER_ensures(g_nfree == __CPROVER_old(g_nfree) + 1);
int k_disable_stub(int fid) __CPROVER_requires(g_ndisable < 100) __CPROVER_assigns(g_ndisable, g_disable_fid) __CPROVER_ensures(g_ndisable == __CPROVER_old(g_ndisable) + 1 && g_disable_fid == fid);

#define EN(k) st[4 * (k)]
#define RC(k) st[4 * (k) + 1]
#define TY(k) st[4 * (k) + 2]
#define O(x) __CPROVER_old(x)
#define CNT2(arr, n, k) (((n) > 0 && (arr)[0] == (k)) + ((n) > 1 && (arr)[1] == (k)))
#define IDS_OK(arr, n) (((n) <= 0 || (0 <= (arr)[0] && (arr)[0] < NF)) && ((n) <= 1 || (0 <= (arr)[1] && (arr)[1] < NF)))
#define NOCALLS (g_self_calls[0] == 0 && g_self_calls[1] == 0 && g_self_calls[2] == 0 && g_self_calls[3] == 0 && g_nfree == 0 && g_ndisable == 0 \
  && g_child_calls[0] == 0 && g_child_calls[1] == 0 && g_child_calls[2] == 0 && g_child_calls[3] == 0 && g_child_calls[4] == 0 && g_child_calls[5] == 0 && g_child_calls[6] == 0 && g_child_calls[7] == 0)
#define UNCHANGED_STATES (EN(0) == O(EN(0)) && EN(1) == O(EN(1)) && EN(2) == O(EN(2)) && EN(3) == O(EN(3)) && RC(0) == O(RC(0)) && RC(1) == O(RC(1)) && RC(2) == O(RC(2)) && RC(3) == O(RC(3)))
#define OTHERS_UNCHANGED(fid) (((fid) == 0 || (EN(0) == O(EN(0)) && RC(0) == O(RC(0)))) && ((fid) == 1 || (EN(1) == O(EN(1)) && RC(1) == O(RC(1)))) \
  && ((fid) == 2 || (EN(2) == O(EN(2)) && RC(2) == O(RC(2)))) && ((fid) == 3 || (EN(3) == O(EN(3)) && RC(3) == O(RC(3)))))
#define B01(x) ((x) == 0 || (x) == 1)
#define STATES_OK (B01(EN(0)) && B01(EN(1)) && B01(EN(2)) && B01(EN(3)) && TY(0) >= 0 && TY(0) <= 3 && TY(1) >= 0 && TY(1) <= 3 && TY(2) >= 0 && TY(2) <= 3 && TY(3) >= 0 && TY(3) <= 3 \
  && RC(0) > -1000 && RC(0) < 1000 && RC(1) > -1000 && RC(1) < 1000 && RC(2) > -1000 && RC(2) < 1000 && RC(3) > -1000 && RC(3) < 1000)
#define DOES (O(EN(fid)) != 0 && O(RC(fid)) <= 1)

int k_disable(int fid, int *st, int *rs, size_t nrs, int *ar, size_t *nar, int *rc, size_t nrc, size_t nch)
__CPROVER_requires(0 <= fid && fid < NF && __CPROVER_is_fresh(st, 4 * NF * sizeof(int)) && __CPROVER_is_fresh(rs, 2 * sizeof(int)) && __CPROVER_is_fresh(ar, 2 * sizeof(int))
                   && __CPROVER_is_fresh(nar, sizeof(size_t)) && __CPROVER_is_fresh(rc, 2 * sizeof(int)) && nrs <= 2 && *nar <= 2 && nrc <= 2 && nch <= 2)
__CPROVER_requires(IDS_OK(rs, nrs) && IDS_OK(ar, *nar) && IDS_OK(rc, nrc) && NOCALLS && STATES_OK)
__CPROVER_assigns(__CPROVER_object_whole(e_d), __CPROVER_object_whole(st), *nar, __CPROVER_object_whole(g_self_calls), __CPROVER_object_whole(g_child_calls), g_nfree, g_errors, g_error_bits)
/* already off: nothing happens */
__CPROVER_ensures(O(EN(fid)) == 0 ==> (__CPROVER_return_value == 0 && NOCALLS && UNCHANGED_STATES && *nar == O(*nar) && g_errors == O(g_errors)))
/* still needed by more than one requirer: refused, nothing changes */
__CPROVER_ensures((O(EN(fid)) != 0 && O(RC(fid)) > 1) ==> (__CPROVER_return_value != 0 && g_errors == O(g_errors) + 1 && NOCALLS && UNCHANGED_STATES && *nar == O(*nar)))
/* otherwise: switched off, reference count zero, other features' flags untouched here */
__CPROVER_ensures(DOES ==> (__CPROVER_return_value == 0 && EN(fid) == 0 && RC(fid) == 0 && OTHERS_UNCHANGED(fid) && *nar == 0))
/* each self prerequisite and each remembered alternate is released exactly once */
__CPROVER_ensures(DOES ==> (g_self_calls[0] == CNT2(rs, nrs, 0) + (O(*nar) > 0 && O(ar[0]) == 0) + (O(*nar) > 1 && O(ar[1]) == 0)))
__CPROVER_ensures(DOES ==> (g_self_calls[1] == CNT2(rs, nrs, 1) + (O(*nar) > 0 && O(ar[0]) == 1) + (O(*nar) > 1 && O(ar[1]) == 1)))
__CPROVER_ensures(DOES ==> (g_self_calls[2] == CNT2(rs, nrs, 2) + (O(*nar) > 0 && O(ar[0]) == 2) + (O(*nar) > 1 && O(ar[1]) == 2)))
__CPROVER_ensures(DOES ==> (g_self_calls[3] == CNT2(rs, nrs, 3) + (O(*nar) > 0 && O(ar[0]) == 3) + (O(*nar) > 1 && O(ar[1]) == 3)))
/* children's prerequisites are released once per (child, requirement) iff this object is active */
__CPROVER_ensures((DOES && O(EN(0)) != 0) ==> (g_child_calls[0 * NF + 0] == (nch > 0) * CNT2(rc, nrc, 0) && g_child_calls[0 * NF + 1] == (nch > 0) * CNT2(rc, nrc, 1)
   && g_child_calls[0 * NF + 2] == (nch > 0) * CNT2(rc, nrc, 2) && g_child_calls[0 * NF + 3] == (nch > 0) * CNT2(rc, nrc, 3)
   && g_child_calls[1 * NF + 0] == (nch > 1) * CNT2(rc, nrc, 0) && g_child_calls[1 * NF + 1] == (nch > 1) * CNT2(rc, nrc, 1)
   && g_child_calls[1 * NF + 2] == (nch > 1) * CNT2(rc, nrc, 2) && g_child_calls[1 * NF + 3] == (nch > 1) * CNT2(rc, nrc, 3)))
__CPROVER_ensures((DOES && O(EN(0)) == 0) ==> (g_child_calls[0] == 0 && g_child_calls[1] == 0 && g_child_calls[2] == 0 && g_child_calls[3] == 0
   && g_child_calls[4] == 0 && g_child_calls[5] == 0 && g_child_calls[6] == 0 && g_child_calls[7] == 0))
/* putting the whole object to sleep (feature 0) releases all children's prerequisites */
__CPROVER_ensures(DOES ==> g_nfree == (fid == 0))
;

/* decr_ref_count: a count that is already zero is an error and nothing changes; otherwise it drops by one and a
   dynamic feature whose count reaches zero is switched off */
int k_decr_ref_count(int fid, int *st)
__CPROVER_requires(0 <= fid && fid < NF && __CPROVER_is_fresh(st, 4 * NF * sizeof(int)) && NOCALLS && STATES_OK)
__CPROVER_assigns(__CPROVER_object_whole(e_d), __CPROVER_object_whole(st), g_ndisable, g_disable_fid, g_errors, g_error_bits)
__CPROVER_ensures(O(RC(fid)) <= 0 ==> (__CPROVER_return_value != 0 && g_errors == O(g_errors) + 1 && UNCHANGED_STATES && g_ndisable == 0))
__CPROVER_ensures(O(RC(fid)) > 0 ==> (__CPROVER_return_value == 0 && RC(fid) == O(RC(fid)) - 1 && OTHERS_UNCHANGED(fid) && EN(fid) == O(EN(fid)) && g_errors == O(g_errors)))
__CPROVER_ensures(O(RC(fid)) > 0 ==> (g_ndisable == (O(RC(fid)) == 1 && TY(fid) == F_TYPE_DYNAMIC)))
__CPROVER_ensures(g_ndisable == 1 ==> g_disable_fid == fid)
;
/* A capability that the object switched on for itself (top level: enabled with no reference held on it) must survive a dependent that takes a
   reference and releases it again: deleting a bias must not switch off a variable that was active before the bias existed. */
int k_toplevel_survives(int fid, int *st)
__CPROVER_requires(0 <= fid && fid < NF && __CPROVER_is_fresh(st, 4 * NF * sizeof(int)) && NOCALLS && STATES_OK && EN(fid) == 1 && RC(fid) == 0 && TY(fid) == F_TYPE_DYNAMIC)
__CPROVER_assigns(__CPROVER_object_whole(e_d), __CPROVER_object_whole(st), g_ndisable, g_disable_fid, g_errors, g_error_bits)
__CPROVER_ensures(__CPROVER_return_value == 0 && g_errors == O(g_errors))
__CPROVER_ensures(g_ndisable == 0)
;
#endif

#include "contract.h"
long long e_l[16]; int g_nawake, g_aw_kind[6], g_aw_tag[6], g_aw_on[6]; int g_active_tag[2]; size_t g_nactive; int g_state[6];
int g_throw, g_debug, g_vec_alloc; unsigned g_errors, g_error_bits; size_t g_alloc_bytes;
long long g_step_rel, g_step_abs; int g_sim_continuing, g_sim_running;
int nondet_int(void); long long nondet_ll(void);
double k_floor(double x) { return x; } double k_sqrt(double x) { return x; } double k_pow(double x, double y) { return x; }
double k_boltzmann(void) { return 0.0; } double k_target_temperature(void) { return 0.0; } double k_dt(void) { return 1.0; } int k_same_step(void) { return 0; }
_Bool nondet_bool(void);
void h_calc_colvars_head(void) { g_step_abs = nondet_ll(); g_debug = 0; int b = nondet_int(), v0 = nondet_int(); _Bool ba = nondet_bool(); k_calc_colvars_head(b, v0, 1, nondet_bool(), nondet_bool(), ba, nondet_bool());
  if (b == 3 && g_aw_on[0] == 1) __CPROVER_assert(0, "canary: awake step reachable"); if (b == 3 && g_aw_on[0] == 0 && !ba) __CPROVER_assert(0, "canary: sleeping step of a bias never woken up reachable"); }

// Frame TU for call-order / guard properties (C11 state-file replacement order, C20 config queue, C13 atom-group teardown).
// Bodies sliced verbatim from src/colvarbias_meta.cpp, src/colvarproxy.cpp, src/colvaratoms.cpp.
#define CVS_SMAX 12
#include <vector>
#include <string>
#include <list>
#include <cvm_stub.h>
#include <cvs_echo.h>
#define NULL 0
extern "C" { extern int e_i[16]; }
extern "C" int k_io(int kind); extern "C" int k_stream_ok(); extern "C" int k_write_state_ok();
extern "C" int k_read_config(int kind, int tag); extern "C" void k_delete_fitting(); extern "C" void k_delete_rot(); extern "C" void k_clear_atom_group(); extern "C" void k_unregister();
enum features_atomgroup
#include "features_atomgroup.body.inc"
;
namespace std { struct ostream { bool good_; bool operator!() const { return !good_; } }; }   // truth test through operator! (conversion operators crash the front end)
struct io_proxy_t {
  std::ostream os_;
  int remove_file(std::string const &) { return k_io(1); }
  std::ostream &output_stream(std::string const &, char const *) { k_io(2); os_.good_ = k_stream_ok() != 0; return os_; }
  int close_output_stream(std::string const &) { return k_io(4); }
  int rename_file(std::string const &, std::string const &) { return k_io(5); }
  void clear_atom_group(int) { k_clear_atom_group(); }
};
extern "C" { extern void *g_io_p, *g_main2_p; }
static io_proxy_t *cvs_io_proxy() { return (io_proxy_t *) g_io_p; }
#define colvarproxy io_proxy_t

struct K_wrsf {
  std::string name, replica_state_file;
  bool write_state(std::ostream &) { k_io(3); return k_write_state_ok() != 0; }
  int body()
#include "write_replica_state_file.body.inc"
};

struct module_stub { int read_config_string(std::string const &s) { return k_read_config(1, s.b_[0]); } int read_config_file(char const *s) { return k_read_config(2, s[0]); } };
struct K_pmc {
  void *config_queue_;          //@real colvarproxy.h
  module_stub *colvars;         // real: colvarmodule *colvars;
  int body()
#include "parse_module_config.body.inc"
};

struct fit_stub { int dummy; };
struct rot_stub { int dummy; };
struct main2_t { io_proxy_t *proxy; void unregister_named_atom_group(void *) { k_unregister(); } };
#define cvs_main2_p ((main2_t *) g_main2_p)
struct K_agd {
  bool en_[f_ag_ntot]; bool is_enabled(int f = f_ag_active) const { return en_[f]; }
  bool b_dummy;                 //@real colvaratoms.h
  int index;                    //@real colvaratoms.h
  fit_stub *fitting_group;      // real: atom_group *fitting_group;
  rot_stub *rot_deriv;          // real: rotation_derivative<...> *rot_deriv;
  void body()
#include "atom_group_dtor.body.inc"
};
extern "C" int k_write_replica_state_file() { io_proxy_t io; g_io_p = &io; K_wrsf f; return f.body(); }
extern "C" int k_parse_module_config(size_t n, int kind0, int kind1) {
  K_pmc f; module_stub m; f.colvars = &m; std::pair<std::string, std::string> q[2]; std::list<std::pair<std::string, std::string> > lst;
  int kinds[2]; kinds[0] = kind0; kinds[1] = kind1;
  for (int k = 0; k < 2; k++) {
    if (kinds[k] == 1) q[k].first = std::string("config"); else if (kinds[k] == 2) q[k].first = std::string("configfile"); else q[k].first = std::string("bogus");
    if (k == 0) q[k].second = std::string("a"); else q[k].second = std::string("b"); }
  lst.p_ = q; lst.n_ = n; f.config_queue_ = &lst; e_i[0] = (int) n; e_i[1] = kind0; e_i[2] = kind1;
  int r = f.body(); e_i[3] = (int) lst.n_;
  return r;
}
extern "C" int k_atom_group_dtor(bool scalable, bool dummy, bool has_fit, bool fit_feature, bool has_rot) {
  io_proxy_t io; main2_t m2; m2.proxy = &io; g_main2_p = &m2; K_agd f; for (int k = 0; k < f_ag_ntot; k++) f.en_[k] = false; f.en_[f_ag_scalable] = scalable; f.en_[f_ag_fitting_group] = fit_feature; f.b_dummy = dummy; f.index = 3;
  fit_stub fs; rot_stub rs; f.fitting_group = has_fit ? &fs : 0; f.rot_deriv = has_rot ? &rs : 0;
  e_i[0] = scalable; e_i[1] = dummy; e_i[2] = has_fit; e_i[3] = fit_feature; e_i[4] = has_rot;
  f.body();
  return (f.fitting_group == 0) + 2 * (f.rot_deriv == 0);
}

/* Contracts for the geodesic metric on unit quaternions (C18), symbolic reals.
   c = q0*Q0 + q1*Q1 + q2*Q2 + q3*Q3 (4-d inner product), w = acos(clamp(c, -1, 1)).
   dist2 = w*w when c > 0, else (PI-w)*(PI-w): the shorter geodesic, q and -q being the same rotation.
   dist2_grad component k = f * g_k,  g_k = (-1)*sin(w)*Q_k + c*(q_k - c*Q_k)/sin(w)  (the gradient of w on the sphere),
   f = 2*w when c > 0 and  -2*(PI-w)  otherwise: d(w^2) = 2w dw and d((PI-w)^2) = -2(PI-w) dw -- the SAME case split as dist2.
   When |sin w| < 1e-14 the gradient is the null vector. */
#ifndef QUAT_CONTRACT_H
#define QUAT_CONTRACT_H
#include <stddef.h>
#include "../common/term.h"
extern int g_node[16]; extern double e_d[8];
extern int g_throw, g_debug; extern unsigned g_errors, g_error_bits;
extern int g_wc, g_ww, g_ws;   /* ghost witnesses: nodes claimed to be c, w, fabs(sin w) */
#define N(k) g_node[k]
#define PI_ 3.14159265358979323846
/* Pattern predicates are C functions (their arguments are evaluated once): nested macro patterns duplicate their argument text at
   every level, which makes the symbolic execution of deep patterns over symbolic node indices very slow. */
static int t_op(int n) { return TVALID(n) ? g_top(n) : -1; }
static int t_a(int n) { return TVALID(n) ? g_ta(n) : -2; }
static int t_b(int n) { return TVALID(n) ? g_tb(n) : -2; }
static double t_v(int n) { return TVALID(n) ? g_tv[n] : 0.0; }
static _Bool is_leaf(int n, double x) { return P_LEAF(n, x); }
static _Bool is_pr(int n, int k) { return t_op(n) == T_MUL && t_a(n) == N(k) && t_b(n) == N(4 + k); }
/* c = ((q0*Q0 + q1*Q1) + q2*Q2) + q3*Q3 */
static _Bool is_cos(int n) { int s2 = t_a(n), s1 = t_a(s2);
  return t_op(n) == T_ADD && is_pr(t_b(n), 3) && t_op(s2) == T_ADD && is_pr(t_b(s2), 2) && t_op(s1) == T_ADD && is_pr(t_a(s1), 0) && is_pr(t_b(s1), 1); }
/* acos argument: c clamped to [-1, 1] */
static _Bool is_clamp(int m, int c) { return (t_v(c) > 1.0) ? is_leaf(m, 1.0) : ((t_v(c) < -1.0) ? is_leaf(m, -1.0) : m == c); }
static _Bool is_omega(int n, int c) { return t_op(n) == T_CALL + CID_ACOS && is_clamp(t_a(n), c); }
static _Bool is_pimw(int n, int w) { return t_op(n) == T_SUB && is_leaf(t_a(n), PI_) && t_b(n) == w; }
#define FIN8 (in[0] >= -2.0 && in[0] <= 2.0 && in[1] >= -2.0 && in[1] <= 2.0 && in[2] >= -2.0 && in[2] <= 2.0 && in[3] >= -2.0 && in[3] <= 2.0 \
  && in[4] >= -2.0 && in[4] <= 2.0 && in[5] >= -2.0 && in[5] <= 2.0 && in[6] >= -2.0 && in[6] <= 2.0 && in[7] >= -2.0 && in[7] <= 2.0)
#define QFRAME __CPROVER_object_whole(g_node), __CPROVER_object_whole(e_d), TERM_FRAME
static _Bool wit_ok(void) { return is_cos(g_wc) && is_omega(g_ww, g_wc); }
#define WIT_OK wit_ok()
/* existence: the inner product, the angle and |sin| are computed somewhere among the first nodes after the 8 inputs */
static int find_cos(void) { return is_cos(14) ? 14 : is_cos(13) ? 13 : is_cos(12) ? 12 : is_cos(15) ? 15 : is_cos(16) ? 16 : is_cos(17) ? 17 : is_cos(11) ? 11 : is_cos(10) ? 10 : -1; }
static int find_omega(int c) { return is_omega(17, c) ? 17 : is_omega(16, c) ? 16 : is_omega(15, c) ? 15 : is_omega(18, c) ? 18 : is_omega(19, c) ? 19 : is_omega(20, c) ? 20 : is_omega(21, c) ? 21 : -1; }
static _Bool d2_same(void) { return t_a(N(8)) == g_ww && t_b(N(8)) == g_ww; }
static _Bool d2_opp(void) { return is_pimw(t_a(N(8)), g_ww) && is_pimw(t_b(N(8)), g_ww); }
static _Bool d2_shape(void) { int a = t_a(N(8)); return t_op(a) == T_CALL + CID_ACOS || (is_pimw(a, t_b(a)) && t_op(t_b(a)) == T_CALL + CID_ACOS); }
void k_q_dist2(double *in)
__CPROVER_requires(__CPROVER_is_fresh(in, 8 * sizeof(double)) && FIN8 && g_tn == 0)
__CPROVER_assigns(QFRAME)
/* the result is a product of one of the two forms */
__CPROVER_ensures(t_op(N(8)) == T_MUL)
__CPROVER_ensures((WIT_OK && t_v(g_wc) > 0.0) ==> d2_same())
__CPROVER_ensures((WIT_OK && !(t_v(g_wc) > 0.0)) ==> d2_opp())
/* and its operands are an arc cosine, or PI minus an arc cosine */
__CPROVER_ensures(d2_shape())
__CPROVER_ensures(find_cos() >= 0 && find_omega(find_cos()) >= 0)
;
/* gradient component k of w: ADD( MUL(MUL(-1, s), Q_k), DIV( MUL(c, SUB(q_k, MUL(c, Q_k))), s ) ),  s = sin(w) */
static _Bool is_sinw(int n) { return t_op(n) == T_CALL + CID_SIN && t_a(n) == g_ww; }
static _Bool is_t1(int n, int k) { int m = t_a(n); return t_op(n) == T_MUL && t_b(n) == N(4 + k) && t_op(m) == T_MUL && is_leaf(t_a(m), -1.0) && is_sinw(t_b(m)); }
static _Bool is_cq(int n, int k) { return t_op(n) == T_MUL && t_a(n) == g_wc && t_b(n) == N(4 + k); }
static _Bool is_perp(int n, int k) { return t_op(n) == T_SUB && t_a(n) == N(k) && is_cq(t_b(n), k); }
static _Bool is_t2(int n, int k) { int m = t_a(n); return t_op(n) == T_DIV && is_sinw(t_b(n)) && t_op(m) == T_MUL && t_a(m) == g_wc && is_perp(t_b(m), k); }
static _Bool is_g1(int n, int k) { return t_op(n) == T_ADD && is_t1(t_a(n), k) && is_t2(t_b(n), k); }
static _Bool is_fpos(int n) { return t_op(n) == T_MUL && is_leaf(t_a(n), 2.0) && t_b(n) == g_ww; }
static _Bool is_fneg(int n) { return t_op(n) == T_MUL && is_leaf(t_a(n), -2.0) && is_pimw(t_b(n), g_ww); }
static _Bool comp_ok(int k) { int r = N(9 + k); return t_op(r) == T_MUL && is_g1(t_b(r), k) && ((t_v(g_wc) > 0.0) ? is_fpos(t_a(r)) : is_fneg(t_a(r))); }
static _Bool is_fabs_s(int n) { return t_op(n) == T_CALL + CID_FABS && is_sinw(t_a(n)); }
#define IS_FABS_S(n) is_fabs_s(n)
static int find_fabs(void) { return is_fabs_s(19) ? 19 : is_fabs_s(18) ? 18 : is_fabs_s(17) ? 17 : is_fabs_s(20) ? 20 : is_fabs_s(21) ? 21 : is_fabs_s(22) ? 22 : is_fabs_s(23) ? 23 : -1; }
static _Bool nullv(void) { return is_leaf(N(9), 0.0) && is_leaf(N(10), 0.0) && is_leaf(N(11), 0.0) && is_leaf(N(12), 0.0); }
void k_q_dist2_grad(double *in)
__CPROVER_requires(__CPROVER_is_fresh(in, 8 * sizeof(double)) && FIN8 && g_tn == 0)
__CPROVER_assigns(QFRAME)
__CPROVER_ensures((WIT_OK && is_fabs_s(g_ws) && t_v(g_ws) < 1.0E-14) ==> nullv())
__CPROVER_ensures((WIT_OK && is_fabs_s(g_ws) && !(t_v(g_ws) < 1.0E-14)) ==> (comp_ok(0) && comp_ok(1) && comp_ok(2) && comp_ok(3)))
/* with the angle's own witness: |sin w| of THAT w is what is tested */
__CPROVER_ensures(find_cos() >= 0 && find_omega(find_cos()) >= 0 && (g_ww == find_omega(find_cos()) ==> find_fabs() >= 0))
;
#endif

/* Contract for the per-step branch of colvar::calc_acf (C19), symbolic reals.
   On a step that advances (relative step > previous), for the configured type (velocity / coordinate / 2nd Legendre):
   the accumulation routine of that type is called once on the current window, then one value is pushed into that window with capacity
   length+offset, then the window pointer advances.  For the AUTO-correlation (partner = this variable) both the value correlated and the value
   stored are this variable's.  For a correlation WITH ANOTHER VARIABLE (corrFuncWithColvar) the textbook definition C(tau) = < a(t) b(t -/+ tau) >
   needs one series from each variable: the value correlated against the window and the value stored into the window belong to the two DIFFERENT
   variables. */
#ifndef ACF_CONTRACT_H
#define ACF_CONTRACT_H
#include <stddef.h>
#include "../common/term.h"
extern int e_l[8];
extern int g_throw, g_debug; extern unsigned g_errors, g_error_bits; extern long long g_step_rel, g_step_abs;
#define CID_VEL (CID_USER + 1)
extern int g_nev, g_ev_kind[6], g_ev_list[6], g_ev_node[6]; extern long long g_ev_len[6];
void k_acf_ev(int kind, int list_id, int node, long long len) __CPROVER_requires(0 <= g_nev && g_nev < 6)
  __CPROVER_assigns(g_nev, g_ev_kind[g_nev], g_ev_list[g_nev], g_ev_node[g_nev], g_ev_len[g_nev])
  __CPROVER_ensures(g_nev == __CPROVER_old(g_nev) + 1 && g_ev_kind[g_nev - 1] == kind && g_ev_list[g_nev - 1] == list_id && g_ev_node[g_nev - 1] == node && g_ev_len[g_nev - 1] == len);
static int t_op(int n) { return TVALID(n) ? g_top(n) : -1; }
static int t_a(int n) { return TVALID(n) ? g_ta(n) : -2; }
/* node n is the value (coordinate types) or velocity (velocity type) of variable `tag` */
static _Bool is_series(int n, int type, int tag) { return t_op(n) == T_CALL + (type == 1 ? CID_VEL : CID_VALUE) && t_a(n) == tag; }
static int series_tag(int n) { return t_a(n); }
static _Bool shape_ok(int type, size_t len, size_t off) { int lst = (type == 1) ? 202 : 101, hist = (type == 1) ? 8 : 7;
  return g_nev == 3 && g_ev_kind[0] == type && g_ev_list[0] == lst && g_ev_kind[1] == 4 && g_ev_list[1] == lst && g_ev_len[1] == (long long) (len + off) && g_ev_kind[2] == 5 && g_ev_list[2] == hist
      && (is_series(g_ev_node[0], type, 0) || is_series(g_ev_node[0], type, 1)) && (is_series(g_ev_node[1], type, 0) || is_series(g_ev_node[1], type, 1)); }
void k_acf_step(int type, _Bool partner_is_self, size_t len, size_t off, long long prev)
__CPROVER_requires(type >= 0 && type <= 3 && g_tn == 0 && g_nev == 0 && len <= 100000 && off <= 100000 && prev >= -1 && g_step_rel >= 0)
__CPROVER_assigns(__CPROVER_object_whole(e_l), TERM_FRAME, g_nev, __CPROVER_object_whole(g_ev_kind), __CPROVER_object_whole(g_ev_list), __CPROVER_object_whole(g_ev_node), __CPROVER_object_whole(g_ev_len))
__CPROVER_ensures((!(g_step_rel > prev) || type == 0) ==> g_nev == 0)
__CPROVER_ensures((g_step_rel > prev && type != 0) ==> shape_ok(type, len, off))
/* auto-correlation: both series are this variable's */
__CPROVER_ensures((g_step_rel > prev && type != 0 && partner_is_self) ==> (series_tag(g_ev_node[0]) == 0 && series_tag(g_ev_node[1]) == 0))
/* correlation with another variable: one series from each */
__CPROVER_ensures((g_step_rel > prev && type != 0 && !partner_is_self) ==> (series_tag(g_ev_node[0]) != series_tag(g_ev_node[1])))
;
#endif

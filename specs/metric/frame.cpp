// Frame TU for colvar::cvc::dist2 / dist2_lgrad / dist2_rgrad / wrap (C18).  Bodies sliced verbatim from src/colvarcomp.cpp.
#include <vector>
#include <cvm_stub.h>
#include <cvs_echo.h>
#include <colvarvalue_sym.h>
enum features_cvc
#include "features_cvc.body.inc"
;
extern "C" { extern double e_d[8]; extern int g_ret; }
struct CvcF {
  bool periodic_;
  bool is_enabled(int f = f_cvc_active) const { return f == f_cvc_periodic ? periodic_ : true; }
  cvm::real period;         // real: cvm::real period = 0.0;
  cvm::real wrap_center;    // real: cvm::real wrap_center = 0.0;
};
struct K_d2 : CvcF { colvarvalue x1, x2; cvm::real body() const
#include "dist2.body.inc"
};
struct K_lg : CvcF { colvarvalue x1, x2; colvarvalue body() const
#include "dist2_lgrad.body.inc"
};
struct cvc_ns { };
struct K_rg : CvcF { colvarvalue x1, x2;
  struct cvc_t { K_rg const *self; };
  colvarvalue dist2_lgrad(colvarvalue const &a, colvarvalue const &b) const { colvarvalue r(sreal_call(CID_USER + 5, a.real_value.nid(), b.real_value.nid())); return r; }
  colvarvalue body() const
#include "dist2_rgrad.body.inc"
};
struct K_wr : CvcF { mutable colvarvalue x_unwrapped; void body() const
#include "wrap.body.inc"
};
#define LOADM(f) f.periodic_ = periodic; f.period = cvm::real(period); f.wrap_center = cvm::real(center); e_d[0] = x1; e_d[1] = x2; e_d[2] = period; e_d[3] = center; e_d[4] = periodic ? 1.0 : 0.0;
extern "C" double k_cvc_dist2(double x1, double x2, double period, bool periodic) { double center = 0.0;
  K_d2 f; LOADM(f); f.x1 = colvarvalue(x1); f.x2 = colvarvalue(x2); cvm::real r = f.body(); g_ret = r.nid(); return r.v; }
extern "C" double k_cvc_dist2_lgrad(double x1, double x2, double period, bool periodic) { double center = 0.0;
  K_lg f; LOADM(f); f.x1 = colvarvalue(x1); f.x2 = colvarvalue(x2); colvarvalue r = f.body(); g_ret = r.real_value.nid(); return r.real_value.v; }
extern "C" double k_cvc_dist2_rgrad(double x1, double x2, double period, bool periodic) { double center = 0.0;
  K_rg f; LOADM(f); f.x1 = colvarvalue(x1); f.x2 = colvarvalue(x2); colvarvalue r = f.body(); g_ret = r.real_value.nid(); return r.real_value.v; }
extern "C" double k_cvc_wrap(double x1, double center, double period, bool periodic) { double x2 = 0.0;
  K_wr f; LOADM(f); f.x_unwrapped = colvarvalue(x1); f.body(); g_ret = f.x_unwrapped.real_value.nid(); return f.x_unwrapped.real_value.v; }

G = 'colvargrid.h'
def s(name, src, sig, **kw): d = {'name': name, 'src': src, 'sig': sig, 'inc': name + '.body.inc'}; d.update(kw); return d
def lp(fn, lid, rel):
    return {'function': fn, 'loop_id': lid, 'assigns': 'i, __CPROVER_object_whole(g_data)', 'locals': {'i': 'i#%d' % lid if lid else 'i'},
            'invariants': 'i <= g_n && ((g_k < g_n && g_k < i) ==> (%s)) && ((g_k < g_n && g_k >= i) ==> g_data[g_k] == g_old_k)' % rel, 'decreases': 'g_n - i'}
UNIT = {
 'slices': [
  s('multiplicity', G, r'inline size_t multiplicity\(\) const'),
  s('copy_grid', G, r'void copy_grid\(colvar_grid<T> const &other_grid\)'),
  s('delta_grid', G, r'void delta_grid\(colvar_grid<T> const &other_grid\)'),
  s('add_grid', G, r'void add_grid\(colvar_grid<T> const &other_grid,\s*cvm::real scale_factor = 1.0\)'),
 ],
 'assumed': ['add_grid is only called with grids of equal length (the function checks the multiplicity only)', 'T = size_t; the scale_factor != 1 branch of add_grid is covered for safety only (its loop keeps the frame and length invariant)'],
 'tasks': [
  {'id': 'copy_grid', 'properties': ['C14'], 'slices': ['copy_grid', 'multiplicity'], 'harness': 'h_copy_grid', 'enforce': 'k_copy_grid', 'unwind': 20,
   'nloops': {'K_copy::body': 1}, 'loops': [lp('K_copy::body', 0, 'g_data[g_k] == g_other[g_k]')],
   'mutants': [('data[i] = other_grid.data[i];', 'data[i] = other_grid.data[0];'), ('i < data.size()', 'i + 1 < data.size()'), ('other_grid.data.size() != this->data.size()', 'other_grid.data.size() < this->data.size()')]},
  {'id': 'delta_grid', 'properties': ['C14'], 'slices': ['delta_grid', 'multiplicity'], 'harness': 'h_delta_grid', 'enforce': 'k_delta_grid', 'unwind': 20,
   'nloops': {'K_delta::body': 1}, 'loops': [lp('K_delta::body', 0, 'g_data[g_k] == g_other[g_k] - g_old_k')],
   'mutants': [('other_grid.data[i] - data[i]', 'data[i] - other_grid.data[i]'), ('other_grid.multiplicity() != this->multiplicity()', 'false')]},
  {'id': 'add_grid', 'properties': ['C14'], 'slices': ['add_grid', 'multiplicity'], 'harness': 'h_add_grid', 'enforce': 'k_add_grid', 'unwind': 20,
   'nloops': {'K_add::body': 2},
   'loops': [dict(lp('K_add::body', 0, '1'), invariants='i <= g_n', locals={'i': 'i#0'}), dict(lp('K_add::body', 1, 'g_data[g_k] == g_old_k + g_other[g_k]'), locals={'i': 'i#1'})],
   'mutants': [('data[i] += other_grid.data[i];', 'data[i] = other_grid.data[i];'), ('data[i] += other_grid.data[i];', 'data[i] += other_grid.data[i] + 1;')]},
 ],
}

// Frame TU for parameter-validation sites (C10).  Statement ranges sliced verbatim from src/colvar.cpp (colvar::parse_analysis)
// and src/colvarbias_meta.cpp (colvarbias_meta::init, update_bias).
#define CVS_SMAX 6
#include <vector>
#include <string>
#include <cvm_stub.h>
#include <cvs_echo.h>
enum features_biases
#include "features_biases.body.inc"
;
enum features_colvar
#include "features_colvar.body.inc"
;
extern "C" { extern long long e_l[8]; extern size_t g_rof; }
extern "C" int k_get_keyval_size(size_t *v); extern "C" int k_get_keyval_bool(bool *v); extern "C" void k_enable(int f); extern "C" void k_hill_branch(); extern "C" int k_can_accumulate();
struct ParseF {
  bool get_keyval(std::string const &, char const *, size_t &v, size_t const &def = 0) { return k_get_keyval_size(&v) != 0; }
  bool get_keyval(std::string const &, char const *, bool &v, bool const &def = false) { return k_get_keyval_bool(&v) != 0; }
  bool get_keyval(std::string const &, char const *, std::string &, std::string const &) { return false; }
  int enable(int f) { k_enable(f); return 0; }
  static size_t cvs_rof() { return g_rof; }
};
#define restart_out_freq cvs_rof()
struct colvarmodule_rof : colvarmodule { static size_t cvs_rof() { return g_rof; } };
#undef cvm
#define cvm colvarmodule_rof
struct K_runave : ParseF {
  std::string conf; bool b_runave;
  size_t         runave_length;     //@real colvar.h
  size_t         runave_stride;     //@real colvar.h
  std::string runave_outfile;
  void body()
#include "parse_runave.body.inc"
};
struct K_acf : ParseF {
  std::string conf;
  size_t                 acf_length;   //@real colvar.h
  size_t                 acf_offset;   //@real colvar.h
  size_t                 acf_stride;   //@real colvar.h
  void body()
#include "parse_acf.body.inc"
};
#undef cvm
#define cvm colvarmodule
#undef restart_out_freq
struct K_meta_init : ParseF {
  std::string conf;
  size_t    new_hill_freq;          //@real colvarbias_meta.h
  size_t     grids_freq;            //@real colvarbias_meta.h
  void body()
#include "meta_init_hillfreq.body.inc"
};
struct K_meta_upd {
  bool en_[f_cvb_ntot];
  bool is_enabled(int f = f_cvb_active) const { return en_[f]; }
  bool can_accumulate_data() { return k_can_accumulate() != 0; }
  size_t    new_hill_freq;          //@real colvarbias_meta.h
  int body()
#include "meta_update_bias_guard.body.inc"
};
extern "C" int k_parse_runave(size_t *stride, size_t *length) { K_runave f; f.b_runave = false; f.runave_stride = *stride; f.runave_length = *length; f.body(); *stride = f.runave_stride; *length = f.runave_length; e_l[0] = (long long) *stride; return 0; }
extern "C" int k_parse_acf(size_t *stride) { K_acf f; f.acf_stride = *stride; f.body(); *stride = f.acf_stride; e_l[0] = (long long) *stride; return 0; }
extern "C" int k_meta_init_hillfreq(size_t *freq, size_t *gfreq) { K_meta_init f; f.new_hill_freq = *freq; f.grids_freq = *gfreq; f.body(); *freq = f.new_hill_freq; *gfreq = f.grids_freq; e_l[0] = (long long) *freq; return 0; }
extern "C" int k_meta_update_bias_guard(size_t freq, bool hist) { K_meta_upd f; for (int k = 0; k < f_cvb_ntot; k++) f.en_[k] = false; f.en_[f_cvb_history_dependent] = hist; f.new_hill_freq = freq; e_l[0] = (long long) freq; e_l[1] = hist; return f.body(); }
extern "C" int k_meta_update_bias_sched(size_t freq, bool hist) { return k_meta_update_bias_guard(freq, hist); }
extern "C" { extern int g_fid[4]; }
extern "C" void cvs_set_fids() { g_fid[0] = f_cvb_history_dependent; g_fid[1] = f_cv_runave; }

// Stub of class colvar as seen by biases: every query/mutator forwards to a contract-specified, call-logging C
// function (specs/common/colvar_contract.h).  Scalar colvarvalue stand-in.
#ifndef CVS_COLVAR_STUB_H
#define CVS_COLVAR_STUB_H
#include <colvarvalue_scalar.h>
extern "C" void k_add_bias_force(int cv_tag, double f);
extern "C" void k_add_bias_force_actual_value(int cv_tag, double f);
extern "C" double k_cv_value(int cv_tag);
extern "C" double k_cv_actual_value(int cv_tag);
extern "C" double k_cv_dist2(int cv_tag, double x1, double x2);
extern "C" double k_cv_dist2_lgrad(int cv_tag, double x1, double x2);
extern "C" double k_cv_wrap(int cv_tag, double x);
extern "C" int k_cv_is_enabled(int cv_tag, int f);
extern "C" double k_cvv_dist2(double x1, double x2);        // colvarvalue's own (non-periodic) metric
extern "C" double k_cvv_dist2_grad(double x1, double x2);
extern "C" double k_mul(double a, double b);
// products involving a colvarvalue are uninterpreted and logged (operand provenance, no floating-point reasoning)
inline colvarvalue operator*(cvm::real const &a, colvarvalue const &x) { double r = k_mul(a, x.real_value); colvarvalue v(r); return v; }
inline colvarvalue operator*(colvarvalue const &x, cvm::real const &a) { double r = k_mul(x.real_value, a); colvarvalue v(r); return v; }
inline cvm::real operator*(colvarvalue const &x, colvarvalue const &y) { return k_mul(x.real_value, y.real_value); }
struct colvar {
  int tag;
  cvm::real width;
  bool is_enabled(int f) const { return k_cv_is_enabled(tag, f) != 0; }
  void add_bias_force(colvarvalue const &force) { k_add_bias_force(tag, force.real_value); }
  void add_bias_force_actual_value(colvarvalue const &force) { k_add_bias_force_actual_value(tag, force.real_value); }
  colvarvalue value() const { double v = k_cv_value(tag); colvarvalue r(v); return r; }
  colvarvalue actual_value() const { double v = k_cv_actual_value(tag); colvarvalue r(v); return r; }
  cvm::real dist2(colvarvalue const &x1, colvarvalue const &x2) const { return k_cv_dist2(tag, x1.real_value, x2.real_value); }
  colvarvalue dist2_lgrad(colvarvalue const &x1, colvarvalue const &x2) const { double v = k_cv_dist2_lgrad(tag, x1.real_value, x2.real_value); colvarvalue r(v); return r; }
  void wrap(colvarvalue &x) const { x.real_value = k_cv_wrap(tag, x.real_value); }
};
#endif

/* Contracts for the analytic hills of metadynamics (C05, C01), symbolic reals.
   calc_hills: every hill in [first, last) gets the value  exp(-1/2 * sum_k d_k^2(x_k, c_k) / (s_k * s_k))  with d_k^2 the k-th variable's
   own squared distance, c_k and s_k the centre and width STORED WITH THAT HILL, or exactly 0 when the exponent argument exceeds 23;
   the energy grows by  W * sW * value  of each hill, in order.
   calc_hills_force (scalar variable i): force_i grows, for every hill whose value is not 0, by
   ((W * sW) * value) * (1/2 / (s_i * s_i)) * grad_x d_i^2(x_i, c_i)   -- the derivative of the energy above with the hill's own width;
   the forces on the other variables and the hills are untouched. */
#ifndef HILLS_CONTRACT_H
#define HILLS_CONTRACT_H
#include <stddef.h>
#include "../common/term.h"
extern int g_node[40]; extern long long e_l[8];
extern int g_throw, g_debug; extern unsigned g_errors, g_error_bits;
extern int g_ws[2];
#define O(x) __CPROVER_old(x)
#define N(k) g_node[k]
#define B(h) (10 * (h))
/* pattern predicates as C functions (arguments evaluated once; nested macros duplicate their argument text) */
static int t_op(int n) { return TVALID(n) ? g_top(n) : -1; }
static int t_a(int n) { return TVALID(n) ? g_ta(n) : -2; }
static int t_b(int n) { return TVALID(n) ? g_tb(n) : -2; }
static int t_c(int n) { return TVALID(n) ? g_tc(n) : -2; }
static double t_v(int n) { return TVALID(n) ? g_tv[n] : 0.0; }
static _Bool is_leaf(int n, double x) { return P_LEAF(n, x); }
static int xn(_Bool use_values, int k) { return use_values ? N(22 + k) : N(20 + k); }
static int v_out(int h) { return N(B(h) + 7); }
static _Bool is_d2(int n, int h, int k, _Bool uv) { return t_op(n) == T_CALL + CID_DIST2 && t_a(n) == k && t_b(n) == xn(uv, k) && t_c(n) == N(B(h) + 3 + k); }
static _Bool is_lg(int n, int h, int k, _Bool uv) { return t_op(n) == T_CALL + CID_DIST2_LGRAD && t_a(n) == k && t_b(n) == xn(uv, k) && t_c(n) == N(B(h) + 3 + k); }
static _Bool is_ss(int n, int h, int k) { return t_op(n) == T_MUL && t_a(n) == N(B(h) + 5 + k) && t_b(n) == N(B(h) + 5 + k); }
static _Bool is_q(int n, int h, int k, _Bool uv) { return t_op(n) == T_DIV && is_d2(t_a(n), h, k, uv) && is_ss(t_b(n), h, k); }
/* S = (0 + Q_0) + Q_1 */
static _Bool is_s(int n, int h, _Bool uv) { int m = t_a(n); return t_op(n) == T_ADD && is_q(t_b(n), h, 1, uv) && t_op(m) == T_ADD && is_leaf(t_a(m), 0.0) && is_q(t_b(m), h, 0, uv); }
static int s_of(int n) { return t_b(t_a(n)); }
static _Bool is_expv(int n, int h, _Bool uv) { int m = t_a(n); return t_op(n) == T_CALL + CID_EXP && t_op(m) == T_MUL && is_leaf(t_a(m), -0.5) && is_s(t_b(m), h, uv); }
static _Bool is_w(int n, int h) { return t_op(n) == T_MUL && t_a(n) == N(B(h)) && t_b(n) == N(B(h) + 1); }
static _Bool is_en(int n, int h) { return t_op(n) == T_MUL && t_b(n) == v_out(h) && is_w(t_a(n), h); }
static _Bool hill_ok(int h, _Bool uv) { int v = v_out(h);
  return ((is_expv(v, h, uv) && !(t_v(s_of(v)) > 23.0)) || is_leaf(v, 0.0))
    && ((is_s(g_ws[h], h, uv) && t_v(g_ws[h]) > 23.0) ==> is_leaf(v, 0.0)) && ((is_s(g_ws[h], h, uv) && !(t_v(g_ws[h]) > 23.0)) ==> is_expv(v, h, uv)); }
static _Bool energy2(void) { int r = N(27), m = t_a(r); return t_op(r) == T_ADD && is_en(t_b(r), 1) && t_op(m) == T_ADD && t_a(m) == N(26) && is_en(t_b(m), 0); }
void k_calc_hills(size_t nh, _Bool use_values)
__CPROVER_requires(nh == 2 && g_tn == 0)
__CPROVER_assigns(__CPROVER_object_whole(g_node), __CPROVER_object_whole(e_l), TERM_FRAME)
__CPROVER_ensures(hill_ok(0, use_values))
__CPROVER_ensures(hill_ok(1, use_values))
__CPROVER_ensures(energy2())
;
/* force term of hill h on variable i */
static _Bool is_pref(int n, int h, int i) { return t_op(n) == T_DIV && is_leaf(t_a(n), 0.5) && is_ss(t_b(n), h, i); }
static _Bool is_wv(int n, int h) { return t_op(n) == T_MUL && is_w(t_a(n), h) && t_b(n) == N(B(h) + 2); }
static _Bool is_wvp(int n, int h, int i) { return t_op(n) == T_MUL && is_wv(t_a(n), h) && is_pref(t_b(n), h, i); }
static _Bool is_f(int n, int h, int i, _Bool uv) { return t_op(n) == T_MUL && is_wvp(t_a(n), h, i) && is_lg(t_b(n), h, i, uv); }
static _Bool act(int h) { return t_v(N(B(h) + 2)) != 0.0; }
static _Bool force_ok(int i, _Bool uv) { int r = N(27), m = t_a(r);
  if (!act(0) && !act(1)) return r == N(26);
  if (act(0) && !act(1)) return t_op(r) == T_ADD && m == N(26) && is_f(t_b(r), 0, i, uv);
  if (!act(0) && act(1)) return t_op(r) == T_ADD && m == N(26) && is_f(t_b(r), 1, i, uv);
  return t_op(r) == T_ADD && is_f(t_b(r), 1, i, uv) && t_op(m) == T_ADD && t_a(m) == N(26) && is_f(t_b(m), 0, i, uv); }
void k_calc_hills_force(size_t i, size_t nh, _Bool use_values, int vtype)
__CPROVER_requires(nh == 2 && i == 1 && g_tn == 0 && vtype == 1)
__CPROVER_assigns(__CPROVER_object_whole(g_node), __CPROVER_object_whole(e_l), TERM_FRAME)
__CPROVER_ensures(N(29) == N(28))
__CPROVER_ensures(force_ok((int) i, use_values))
;
#endif

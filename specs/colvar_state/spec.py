def s(name, src, sig, **kw): d = {'name': name, 'src': src, 'sig': sig, 'inc': name + '.body.inc'}; d.update(kw); return d
UNIT = {
 'slices': [s('features_colvar', 'colvardeps.h', r'enum features_colvar'),
            s('write_traj_label', 'colvar.cpp', r'std::ostream & colvar::write_traj_label\(std::ostream & os\)'),
            s('write_traj', 'colvar.cpp', r'std::ostream & colvar::write_traj\(std::ostream &os\)'),
            s('get_state_params', 'colvar.cpp', r'std::string const colvar::get_state_params\(\) const')],
 'assumed': ['std::ostringstream is a token recorder: keyword literals are classified by exact text, colvarvalue operands by the identity of the member written; number formatting is not modelled'],
 'tasks': [
  {'id': 'write_traj_label', 'properties': ['C19'], 'slices': ['write_traj_label'], 'harness': 'h_write_traj_label', 'enforce': 'k_write_traj_label', 'replace': ['k_tok'], 'unwind': 70,
   'mutants': [('if (is_enabled(f_cv_output_total_force)) {\n    os << " ft_"', 'if (is_enabled(f_cv_output_applied_force)) {\n    os << " ft_"'), ('       << " Ek_"\n       << cvm::wrap_string(this->name, this_cv_width-3);', ';')]},
  {'id': 'write_traj', 'properties': ['C19'], 'slices': ['write_traj'], 'harness': 'h_write_traj', 'enforce': 'k_write_traj', 'replace': ['k_tok'], 'unwind': 70,
   'mutants': [('<< ft_reported;', '<< x_reported;'), ('       << potential_energy\n       << " "\n       << kinetic_energy;', '       << potential_energy;'), ('if (is_enabled(f_cv_extended_Lagrangian) && !is_enabled(f_cv_external)) {\n      os << " "\n         << std::setprecision(cvm::cv_prec) << std::setw(cvm::cv_width)\n         << v_fdiff;\n    }', '')]},
  {'id': 'get_state_params', 'properties': ['C17', 'C03'], 'slices': ['get_state_params'], 'harness': 'h_get_state_params', 'enforce': 'k_get_state_params', 'replace': ['k_tok'], 'unwind': 70,
   'mutants': [('<< x_reported << "\\n"\n       << "  extended_v "', '<< x_ext << "\\n"\n       << "  extended_v "'), ('       << v_reported << "\\n";\n  }\n\n  return', '       << v_ext << "\\n";\n  }\n\n  return'), ('if (is_enabled(f_cv_output_velocity)) {', 'if (false) {')]},
 ],
}

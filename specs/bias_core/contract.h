/* Contracts for colvarbias base-class functions. */
#ifndef BIAS_CORE_CONTRACT_H
#define BIAS_CORE_CONTRACT_H
#include <stddef.h>
extern int e_en[32]; extern size_t e_n; extern double e_cf[4]; extern int e_tsf;
extern int g_throw, g_debug; extern unsigned g_errors, g_error_bits;
extern long long g_step_rel, g_step_abs; extern int g_sim_continuing, g_sim_running;
/* feature ids (checked against the sliced enum by static assertions in contract.c's C++ twin: see frame.cpp) */
#define F_STEP_ZERO_DATA 2
#define F_APPLY_FORCE 3
#define F_BYPASS_EXT 4
#define F_SCALE_FORCE 14
#define NFEAT 17

#include "../common/colvar_contract.h"
extern double g_sf; extern int g_sf_ok;
int k_sf_current_bin_scalar(int i) __CPROVER_assigns() __CPROVER_ensures(1);
int k_sf_index_ok(int *bin, size_t n) __CPROVER_assigns() __CPROVER_ensures(__CPROVER_return_value == g_sf_ok);
double k_sf_value(int *bin, size_t n) __CPROVER_assigns() __CPROVER_ensures(__CPROVER_return_value == g_sf);

/* can_accumulate_data: data may be accumulated iff this is not the (repeated) first step of a run segment
   -- relative step > 0 -- and the engine is not re-evaluating a continuing step, or step-zero data is requested */
int k_can_accumulate_data(_Bool *en)
__CPROVER_requires(__CPROVER_is_fresh(en, NFEAT * sizeof(_Bool)))
__CPROVER_assigns(__CPROVER_object_whole(e_en))
__CPROVER_ensures((__CPROVER_return_value != 0) == (((g_step_rel > 0) && !g_sim_continuing) || en[F_STEP_ZERO_DATA]))
;

/* communicate_forces (n <= 3 variables, scalar values): nothing is sent unless the bias applies forces; otherwise each
   variable receives exactly one call -- on the actual-value entry iff the bias bypasses the extended Lagrangian --
   whose operand is time_step_factor * colvar_forces[i] * factor (impulse-style multiple time step), factor being the
   scaling-grid value only when force scaling is on and the bin is in range; previous forces are recorded. */
#define FACTOR ((en[F_SCALE_FORCE] && g_sf_ok) ? 1.0 * g_sf : 1.0)
/* the operand v sent for variable k is (time_step_factor * colvar_forces[k]) * factor: products 2k and 2k+1 of the log */
#define EXPECT(k, v) (IS_MUL(2 * (k), g_mul_r[2 * (k)], (double)tsf, cf[k]) && IS_MUL(2 * (k) + 1, v, g_mul_r[2 * (k)], FACTOR))
#define SENT(k) ((k) >= n || (en[F_BYPASS_EXT] ? (g_seen_fba[k] == 1 && g_seen_fb[k] == 0 && EXPECT(k, g_val_fba[k])) \
                                                : (g_seen_fb[k] == 1 && g_seen_fba[k] == 0 && EXPECT(k, g_val_fb[k]))))
int k_communicate_forces(_Bool *en, size_t n, double *cf, double *pcf, int tsf)
__CPROVER_requires(__CPROVER_is_fresh(en, NFEAT * sizeof(_Bool)) && n <= 3 && __CPROVER_is_fresh(cf, 3 * sizeof(double)) && __CPROVER_is_fresh(pcf, 3 * sizeof(double)))
__CPROVER_requires(g_ncalls_fb == 0 && g_ncalls_fba == 0 && g_seen_fb[0] == 0 && g_seen_fb[1] == 0 && g_seen_fb[2] == 0
                   && g_seen_fba[0] == 0 && g_seen_fba[1] == 0 && g_seen_fba[2] == 0 && g_nmul == 0)
__CPROVER_assigns(__CPROVER_object_whole(e_en), e_n, e_tsf, __CPROVER_object_whole(e_cf), __CPROVER_object_whole(pcf),
                  g_ncalls_fb, g_ncalls_fba, __CPROVER_object_whole(g_seen_fb), __CPROVER_object_whole(g_seen_fba),
                  __CPROVER_object_whole(g_val_fb), __CPROVER_object_whole(g_val_fba),
                  g_nmul, __CPROVER_object_whole(g_mul_a), __CPROVER_object_whole(g_mul_b), __CPROVER_object_whole(g_mul_r))
__CPROVER_ensures(__CPROVER_return_value == 0)
__CPROVER_ensures(!en[F_APPLY_FORCE] ==> (g_ncalls_fb == 0 && g_ncalls_fba == 0))
__CPROVER_ensures(en[F_APPLY_FORCE] ==> (g_ncalls_fb + g_ncalls_fba == (int)n && g_nmul == 2 * (int)n))
__CPROVER_ensures(en[F_APPLY_FORCE] ==> SENT(0))
__CPROVER_ensures(en[F_APPLY_FORCE] ==> SENT(1))
__CPROVER_ensures(en[F_APPLY_FORCE] ==> SENT(2))
__CPROVER_ensures((en[F_APPLY_FORCE] && 0 < n) ==> pcf[0] == cf[0])
__CPROVER_ensures((en[F_APPLY_FORCE] && 1 < n) ==> pcf[1] == cf[1])
__CPROVER_ensures((en[F_APPLY_FORCE] && 2 < n) ==> pcf[2] == cf[2])
;
#endif

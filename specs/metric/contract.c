#include "contract.h"
TERM_GHOST_DEFS
double e_d[8]; int g_ret;
int g_throw, g_debug, g_vec_alloc; unsigned g_errors, g_error_bits; size_t g_alloc_bytes;
long long g_step_rel, g_step_abs; int g_sim_continuing, g_sim_running;
double nondet_double(void); _Bool nondet_bool(void);
double k_floor(double x) { return x; } double k_sqrt(double x) { return x; } double k_pow(double x, double y) { return x; }
double k_boltzmann(void) { return 0.0; } double k_target_temperature(void) { return 0.0; } double k_dt(void) { return 1.0; } int k_same_step(void) { return 0; }
#define HM(NAME) void h_##NAME(void) { g_debug = 0; g_tn = 0; _Bool p = nondet_bool(); k_##NAME(nondet_double(), nondet_double(), nondet_double(), p); \
  if (p) __CPROVER_assert(0, "canary: periodic branch reachable"); if (!p) __CPROVER_assert(0, "canary: non-periodic branch reachable"); }
HM(cvc_dist2) HM(cvc_dist2_lgrad) HM(cvc_dist2_rgrad) HM(cvc_wrap)

/* Contracts for cvm::memory_stream (C11: binary state is read back as written; damaged state never crashes). */
#ifndef MEMSTREAM_CONTRACT_H
#define MEMSTREAM_CONTRACT_H
#include <stddef.h>
#include "../common/memcpy_contract.h"
extern size_t e_dl, e_rp, e_bufsz, e_add, e_max, e_tcap, e_vlen, e_isz; extern int e_st, e_ext; extern unsigned char e_buf[32], e_v[32];
extern int g_throw, g_debug, g_vec_alloc; extern unsigned g_errors, g_error_bits; extern size_t g_alloc_bytes;
#define GOOD 0
#define BAD 1
#define EOFB 2
#define FAIL 4
#define SZMAX ((size_t)1 << 40)
#define MS_GHOSTS e_dl, e_rp, e_bufsz, e_add, e_max, e_tcap, e_vlen, e_isz, e_st, e_ext, __CPROVER_object_whole(e_buf), __CPROVER_object_whole(e_v)
#define ST_OK(st) __CPROVER_is_fresh(st, 4 * sizeof(size_t))
#define STATE_OK(st) ((st)[2] <= 7)
/* write mode invariant: the data length is the size of the (internal) buffer, which the frame backs with bufsz bytes */
#define WF_W(st, bufsz) (STATE_OK(st) && (st)[0] == (st)[3] && (st)[1] <= (st)[0] && (st)[3] <= (bufsz) && (bufsz) <= SZMAX)
/* read mode invariant */
#define WF_R(st, bufsz) (STATE_OK(st) && (st)[1] <= (st)[0] && (st)[0] <= (bufsz) && (bufsz) <= SZMAX && (st)[3] == (st)[0])
#define O(x) __CPROVER_old(x)

/* expand_output_buffer: grows the buffer by add_bytes iff the new size stays within max_length_; otherwise
   badbit and no growth.  Returns "stream is good". */
int k_expand(size_t *st, unsigned char *buf, size_t bufsz, size_t maxlen, size_t add_bytes)
__CPROVER_requires(ST_OK(st) && __CPROVER_is_fresh(buf, bufsz) && STATE_OK(st) && st[3] <= bufsz && bufsz <= SZMAX && add_bytes <= SZMAX)
__CPROVER_requires(st[3] + add_bytes <= bufsz) /* modelling limit: the frame backs the buffer with enough room */
__CPROVER_assigns(MS_GHOSTS, __CPROVER_object_whole(st))
__CPROVER_ensures(st[0] == O(st[0]) && st[1] == O(st[1]))
__CPROVER_ensures((O(st[3]) + add_bytes <= maxlen) ==> (st[3] == O(st[3]) + add_bytes && st[2] == O(st[2])))
__CPROVER_ensures((O(st[3]) + add_bytes > maxlen) ==> (st[3] == O(st[3]) && st[2] == (O(st[2]) | BAD)))
__CPROVER_ensures(__CPROVER_return_value == (st[2] == GOOD))
;

/* has_remaining(c): exactly "c bytes are left", for every c (no wrap-around for huge c) */
int k_has_remaining(size_t *st, size_t c)
__CPROVER_requires(ST_OK(st) && STATE_OK(st) && st[1] <= st[0] && st[3] == 0)
__CPROVER_assigns(MS_GHOSTS, __CPROVER_object_whole(st))
__CPROVER_ensures(st[0] == O(st[0]) && st[1] == O(st[1]) && st[2] == O(st[2]))
__CPROVER_ensures((__CPROVER_return_value != 0) == (c <= O(st[0]) - O(st[1])))
;

#define MS_DECL(SUF, T) \
/* write_object<T>: bad stream or over the maximum: nothing is written; else the sizeof(T) bytes of t are appended */ \
void k_write_object_##SUF(size_t *st, unsigned char *buf, size_t bufsz, size_t maxlen, T const *t) \
__CPROVER_requires(ST_OK(st) && __CPROVER_is_fresh(buf, bufsz) && __CPROVER_is_fresh(t, sizeof(T)) && WF_W(st, bufsz)) \
__CPROVER_requires(st[3] + sizeof(T) <= bufsz) \
__CPROVER_assigns(MS_GHOSTS, __CPROVER_object_whole(st), __CPROVER_object_whole(buf)) \
__CPROVER_ensures(st[1] == O(st[1])) \
__CPROVER_ensures((O(st[2]) == GOOD && O(st[0]) + sizeof(T) <= maxlen) ==> \
   (st[2] == GOOD && st[0] == O(st[0]) + sizeof(T) && st[3] == st[0] && *(T *)(buf + O(st[0])) == *t)) \
__CPROVER_ensures(!(O(st[2]) == GOOD && O(st[0]) + sizeof(T) <= maxlen) ==> (st[2] != GOOD && st[0] == O(st[0]))) \
__CPROVER_ensures(g_mw < O(st[0]) ==> buf[g_mw < O(st[0]) ? g_mw : 0] == O(buf[g_mw < st[0] ? g_mw : 0])) \
; \
/* read_object<T>: enough bytes left: t is the sizeof(T) bytes at the read position, which advances, state good; \
   otherwise end-of-file is flagged and nothing else changes.  Never reads outside the data. */ \
void k_read_object_##SUF(size_t *st, unsigned char *buf, size_t bufsz, int ext, T *t) \
__CPROVER_requires(ST_OK(st) && __CPROVER_is_fresh(buf, bufsz) && __CPROVER_is_fresh(t, sizeof(T)) && WF_R(st, bufsz) && (ext == 0 || ext == 1)) \
__CPROVER_assigns(MS_GHOSTS, __CPROVER_object_whole(st), *t) \
__CPROVER_ensures(st[0] == O(st[0])) \
__CPROVER_ensures((sizeof(T) <= O(st[0]) - O(st[1])) ==> (st[2] == GOOD && st[1] == O(st[1]) + sizeof(T) && *t == *(T *)(buf + O(st[1])))) \
__CPROVER_ensures((sizeof(T) > O(st[0]) - O(st[1])) ==> (st[2] == (O(st[2]) | EOFB) && st[1] == O(st[1]) && *t == O(*t))) \
; \
/* write_vector<T>: 8-byte length prefix followed by the elements; position advances by exactly 8 + n*sizeof(T) */ \
void k_write_vector_##SUF(size_t *st, unsigned char *buf, size_t bufsz, size_t maxlen, T *v, size_t vlen) \
__CPROVER_requires(ST_OK(st) && __CPROVER_is_fresh(buf, bufsz) && vlen <= SZMAX / sizeof(T) && __CPROVER_is_fresh(v, vlen * sizeof(T)) && WF_W(st, bufsz)) \
__CPROVER_requires(st[3] + 8 + vlen * sizeof(T) <= bufsz) \
__CPROVER_assigns(MS_GHOSTS, __CPROVER_object_whole(st), __CPROVER_object_whole(buf)) \
__CPROVER_ensures(st[1] == O(st[1])) \
__CPROVER_ensures((O(st[2]) == GOOD && O(st[0]) + 8 + vlen * sizeof(T) <= maxlen) ==> \
   (st[2] == GOOD && st[0] == O(st[0]) + 8 + vlen * sizeof(T) && st[3] == st[0] && *(size_t *)(buf + O(st[0])) == vlen)) \
__CPROVER_ensures((O(st[2]) == GOOD && O(st[0]) + 8 + vlen * sizeof(T) <= maxlen && g_mw < vlen * sizeof(T)) ==> \
   buf[O(st[0]) + 8 + g_mw] == ((unsigned char *)v)[g_mw]) \
__CPROVER_ensures(!(O(st[2]) == GOOD && O(st[0]) + 8 + vlen * sizeof(T) <= maxlen) ==> (st[2] != GOOD && st[0] == O(st[0]))) \
; \
/* read_vector<T>: never throws (a damaged length is an error, not a crash), never reads outside the data; \
   succeeds iff the prefix and the n*sizeof(T) payload bytes it announces are all present */ \
T *k_read_vector_##SUF(size_t *st, unsigned char *buf, size_t bufsz, int ext, T *v, size_t *vlen, size_t vcap) \
__CPROVER_requires(ST_OK(st) && __CPROVER_is_fresh(buf, bufsz) && vcap <= SZMAX / sizeof(T) && __CPROVER_is_fresh(v, vcap * sizeof(T)) \
                   && __CPROVER_is_fresh(vlen, sizeof(size_t)) && *vlen <= vcap && WF_R(st, bufsz) && (ext == 0 || ext == 1) && g_throw == 0) \
__CPROVER_assigns(MS_GHOSTS, __CPROVER_object_whole(st), __CPROVER_object_whole(v), *vlen, g_throw, g_vec_alloc, g_alloc_bytes) \
__CPROVER_ensures(g_throw == 0) \
__CPROVER_ensures(st[0] == O(st[0])) \
__CPROVER_ensures((8 > O(st[0]) - O(st[1])) ==> (st[2] == (O(st[2]) | EOFB) && st[1] == O(st[1]) && *vlen == O(*vlen))) \
__CPROVER_ensures((8 <= O(st[0]) - O(st[1]) && *(size_t *)(buf + O(st[1])) <= (O(st[0]) - O(st[1]) - 8) / sizeof(T)) ==> \
   (st[2] == GOOD && *vlen == *(size_t *)(buf + O(st[1])) && st[1] == O(st[1]) + 8 + *vlen * sizeof(T))) \
__CPROVER_ensures((*vlen <= vcap) ==> __CPROVER_return_value == v) \
__CPROVER_ensures((*vlen > vcap) ==> __CPROVER_is_fresh(__CPROVER_return_value, *vlen * sizeof(T))) \
__CPROVER_ensures((8 <= O(st[0]) - O(st[1]) && *(size_t *)(buf + O(st[1])) <= (O(st[0]) - O(st[1]) - 8) / sizeof(T) \
                   && g_mw < *vlen * sizeof(T)) ==> ((unsigned char *)__CPROVER_return_value)[g_mw] == buf[O(st[1]) + 8 + g_mw]) \
__CPROVER_ensures((8 <= O(st[0]) - O(st[1]) && *(size_t *)(buf + O(st[1])) > (O(st[0]) - O(st[1]) - 8) / sizeof(T)) ==> \
   ((st[2] & FAIL) != 0 && *vlen == O(*vlen))) \
;

MS_DECL(u64, unsigned long)
MS_DECL(i32, int)
MS_DECL(u8, unsigned char)
#endif

// Frame TU for colvar_grid<T> value<->bin conversions (C15).  Bodies sliced verbatim from src/colvargrid.h.
#include <vector>
#include <cvm_stub.h>
#include <cvs_echo.h>
#include <colvarvalue_scalar.h>

extern "C" {
  extern double e_value, e_lower, e_width; extern int e_i, e_nxi, e_peri, e_ibin;
}

struct GridB {
  size_t nd = 0;                                   //@real colvargrid.h
  std::vector<int> nx;                             //@real colvargrid.h
  std::vector<colvarvalue> lower_boundaries;       //@real colvargrid.h
  std::vector<cvm::real> widths;                   //@real colvargrid.h
  std::vector<bool> periodic;                      //@real colvargrid.h
};

struct K_v2b : GridB {
  colvarvalue value; int i;
  int body() const
#include "value_to_bin_scalar.body.inc"
};
struct K_v2bb : GridB {
  colvarvalue value; int i;
  int body() const
#include "value_to_bin_scalar_bound.body.inc"
};
struct K_b2v : GridB {
  int i_bin; int i;
  colvarvalue body() const
#include "bin_to_value_scalar.body.inc"
};
struct K_v2bf : GridB {
  colvarvalue value; int i;
  cvm::real body() const
#include "value_to_bin_scalar_fraction.body.inc"
};

// one-dimensional slot i of a grid with i+1 dimensions: only element i of each vector matters
#define NDS 4
#define SETUPB(f) \
  colvarvalue lb[NDS]; double w[NDS]; int nxa[NDS]; bool pa[NDS]; \
  lb[i].real_value = lower; w[i] = width; nxa[i] = nxi; pa[i] = peri; \
  f.nd = NDS; CVS_VIEW(f.lower_boundaries, lb, NDS); CVS_VIEW(f.widths, w, NDS); CVS_VIEW(f.nx, nxa, NDS); \
  CVS_VIEW(f.periodic, pa, NDS); f.i = i; \
  e_lower = lower; e_width = width; e_i = i; e_nxi = nxi; e_peri = peri;

extern "C" int k_value_to_bin_scalar(double value, double lower, double width, int i, double q) {
  int nxi = 1; bool peri = false;
  K_v2b f; SETUPB(f); f.value = colvarvalue(value); e_value = value;
  return f.body();
}
extern "C" int k_value_to_bin_scalar_bound(double value, double lower, double width, int nxi, bool peri, int i, double q) {
  K_v2bb f; SETUPB(f); f.value = colvarvalue(value); e_value = value;
  return f.body();
}
extern "C" double k_bin_to_value_scalar(int i_bin, double lower, double width, int i) {
  int nxi = 1; bool peri = false;
  K_b2v f; SETUPB(f); f.i_bin = i_bin; e_ibin = i_bin;
  return f.body().real_value;
}
extern "C" double k_value_to_bin_scalar_fraction(double value, double lower, double width, int i, double q) {
  int nxi = 1; bool peri = false;
  K_v2bf f; SETUPB(f); f.value = colvarvalue(value); e_value = value;
  return f.body();
}

#include "contract.h"
double e_d[20];
int g_throw, g_debug, g_vec_alloc; unsigned g_errors, g_error_bits; size_t g_alloc_bytes;
long long g_step_rel, g_step_abs; int g_sim_continuing, g_sim_running;
double k_floor(double x) { return x; } double k_sqrt(double x) { return x; } double k_pow(double x, double y) { return x; }
double k_boltzmann(void) { return 0.0; } double k_target_temperature(void) { return 0.0; } double k_dt(void) { return 1.0; } int k_same_step(void) { return 0; }
void h_eigsrt(void) { double *d, *v; k_eigsrt(d, v); __CPROVER_assert(0, "canary: eigsrt returns"); }

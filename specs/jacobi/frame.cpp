// Frame TU for NR_Jacobi::eigsrt (C02: the fitted rotation uses the LEADING eigenvector).  Body sliced verbatim from src/nr_jacobi.cpp.
#include <vector>
#include <cvm_stub.h>
#include <cvs_echo.h>
#define n 4     // as in src/nr_jacobi.cpp: #define n 4
extern "C" { extern double e_d[20]; }
struct K_eigsrt { int body(cvm::real d[4], cvm::real v[4][4])
#include "eigsrt.body.inc"
};
extern "C" int k_eigsrt(double *d, double *v) {
  K_eigsrt f; double vv[4][4];
  for (int a = 0; a < 4; a++) { e_d[a] = d[a]; for (int b = 0; b < 4; b++) { vv[a][b] = v[4 * a + b]; e_d[4 + 4 * a + b] = v[4 * a + b]; } }
  int r = f.body(d, vv);
  for (int a = 0; a < 4; a++) for (int b = 0; b < 4; b++) v[4 * a + b] = vv[a][b];
  return r;
}

/* Contracts for colvarbias_abf::update (sample attribution and force hand-over) and calc_biasing_force (C04). */
#ifndef ABF_CONTRACT_H
#define ABF_CONTRACT_H
#include <stddef.h>
#include "../common/term.h"
extern int e_i[32]; extern int g_node[16];
extern int g_throw, g_debug; extern unsigned g_errors, g_error_bits;
extern long long g_step_rel, g_step_abs; extern int g_sim_continuing, g_sim_running;
extern int g_fid[8];     /* feature ids read from the sliced enums */
#define FB_APPLY g_fid[0]
#define FB_HISTORY g_fid[1]
#define FC_TF_CURR g_fid[2]
extern int g_curbin[2], g_cv_tfcurr[2], g_can_acc, g_same_step, g_ok_forcebin, g_ok_bin;
extern int g_nacc, g_acc_ix[2], g_ndiv, g_div_ix[2], g_nsys, g_nshare, g_ncbf, g_nidx, g_nvvs; extern double g_avg;
int k_current_bin_scalar(int i) __CPROVER_requires(0 <= i && i < 2) __CPROVER_assigns() __CPROVER_ensures(__CPROVER_return_value == g_curbin[i]);
int k_cv_enabled(int tag, int f) __CPROVER_requires(0 <= tag && tag < 2) __CPROVER_assigns() __CPROVER_ensures(__CPROVER_return_value == (f == FC_TF_CURR ? g_cv_tfcurr[tag] : 0));
int k_can_accumulate(void) __CPROVER_assigns() __CPROVER_ensures(__CPROVER_return_value == g_can_acc);
int k_same_step(void) __CPROVER_assigns() __CPROVER_ensures(__CPROVER_return_value == g_same_step);
/* index_ok is asked first about force_bin (if at all), then about bin: the answers are the ghosts g_ok_forcebin / g_ok_bin,
   told apart by the vector's contents (precondition: force_bin != bin element-wise is not required; see harness) */
extern int g_q_ix[4]; extern int g_q_ans[2];
int k_index_ok(int *ix, size_t n) __CPROVER_requires(n >= 1 && n <= 2 && __CPROVER_r_ok(ix, n * sizeof(int)) && 0 <= g_nidx && g_nidx < 2)
  __CPROVER_assigns(g_nidx, g_q_ix[2 * g_nidx], g_q_ix[2 * g_nidx + 1])
  __CPROVER_ensures(g_nidx == __CPROVER_old(g_nidx) + 1 && g_q_ix[2 * (g_nidx - 1)] == ix[0] && (n < 2 || g_q_ix[2 * (g_nidx - 1) + 1] == ix[1]) && __CPROVER_return_value == g_q_ans[g_nidx - 1]);
void k_acc_force(int *ix, size_t n) __CPROVER_requires(n >= 1 && n <= 2 && __CPROVER_r_ok(ix, n * sizeof(int)) && g_nacc < 5)
  __CPROVER_assigns(g_nacc, g_acc_ix[0], g_acc_ix[1]) __CPROVER_ensures(g_nacc == __CPROVER_old(g_nacc) + 1 && g_acc_ix[0] == ix[0] && (n < 2 || g_acc_ix[1] == ix[1]));
void k_update_div_neighbors_stub(int *ix, size_t n) __CPROVER_requires(n >= 1 && n <= 2 && __CPROVER_r_ok(ix, n * sizeof(int)) && g_ndiv < 5)
  __CPROVER_assigns(g_ndiv, g_div_ix[0], g_div_ix[1]) __CPROVER_ensures(g_ndiv == __CPROVER_old(g_ndiv) + 1 && g_div_ix[0] == ix[0] && (n < 2 || g_div_ix[1] == ix[1]));
void k_update_system_force(void) __CPROVER_requires(g_nsys < 5) __CPROVER_assigns(g_nsys) __CPROVER_ensures(g_nsys == __CPROVER_old(g_nsys) + 1);
void k_replica_share(void) __CPROVER_requires(g_nshare < 5) __CPROVER_assigns(g_nshare) __CPROVER_ensures(g_nshare == __CPROVER_old(g_nshare) + 1);
void k_calc_biasing_force_stub(void) __CPROVER_requires(g_ncbf < 5) __CPROVER_assigns(g_ncbf) __CPROVER_ensures(g_ncbf == __CPROVER_old(g_ncbf) + 1);
void k_vector_value_smoothed(void) __CPROVER_requires(g_nvvs < 5) __CPROVER_assigns(g_nvvs) __CPROVER_ensures(g_nvvs == __CPROVER_old(g_nvvs) + 1);
double k_average(void) __CPROVER_assigns() __CPROVER_ensures(__CPROVER_return_value == g_avg);

#define O(x) __CPROVER_old(x)
#define NFB 17
/* the bin each variable's force sample belongs to: the bin of the previous call, unless that variable's total force is
   of the current step */
#define FBIN(k) (g_cv_tfcurr[k] ? g_curbin[k] : O(force_bin[k]))
#define ACCUM_DUE (g_can_acc && en[FB_HISTORY] && (g_step_rel > 0 || g_same_step))
int k_abf_update(_Bool *en, size_t n, int *bin, int *force_bin, _Bool b_integrate)
__CPROVER_requires(__CPROVER_is_fresh(en, NFB * sizeof(_Bool)) && n >= 1 && n <= 2 && __CPROVER_is_fresh(bin, 2 * sizeof(int)) && __CPROVER_is_fresh(force_bin, 2 * sizeof(int)))
__CPROVER_requires(g_tn == 0 && g_nacc == 0 && g_ndiv == 0 && g_nsys == 0 && g_nshare == 0 && g_ncbf == 0 && g_nidx == 0 && g_step_rel >= 0 && g_step_rel <= 1000000000
  && (g_can_acc == 0 || g_can_acc == 1) && (g_same_step == 0 || g_same_step == 1) && (g_cv_tfcurr[0] == 0 || g_cv_tfcurr[0] == 1) && (g_cv_tfcurr[1] == 0 || g_cv_tfcurr[1] == 1)
  && (g_q_ans[0] == 0 || g_q_ans[0] == 1) && (g_q_ans[1] == 0 || g_q_ans[1] == 1))
__CPROVER_assigns(__CPROVER_object_whole(e_i), __CPROVER_object_whole(g_node), TERM_FRAME, __CPROVER_object_whole(bin), __CPROVER_object_whole(force_bin),
  g_nacc, __CPROVER_object_whole(g_acc_ix), g_ndiv, __CPROVER_object_whole(g_div_ix), g_nsys, g_nshare, g_ncbf, g_nidx, __CPROVER_object_whole(g_q_ix))
/* current bins are refreshed; afterwards force_bin holds the current bin for the next call */
__CPROVER_ensures(bin[0] == g_curbin[0] && (n < 2 || bin[1] == g_curbin[1]) && force_bin[0] == g_curbin[0] && (n < 2 || force_bin[1] == g_curbin[1]))
/* a sample is accumulated at most once, iff accumulation is due and the sample's bin is inside the grid, into that bin */
__CPROVER_ensures(!ACCUM_DUE ==> (g_nacc == 0 && g_nsys == 0 && g_ndiv == 0))
__CPROVER_ensures(ACCUM_DUE ==> (g_q_ix[0] == FBIN(0) && (n < 2 || g_q_ix[1] == FBIN(1))))
__CPROVER_ensures((ACCUM_DUE && !g_q_ans[0]) ==> (g_nacc == 0 && g_nsys == 0 && g_ndiv == 0))
__CPROVER_ensures((ACCUM_DUE && g_q_ans[0]) ==> (g_nacc == 1 && g_nsys == 1 && g_acc_ix[0] == FBIN(0) && (n < 2 || g_acc_ix[1] == FBIN(1)) && g_ndiv == (b_integrate ? 1 : 0)))
__CPROVER_ensures((ACCUM_DUE && g_q_ans[0] && b_integrate) ==> (g_div_ix[0] == FBIN(0) && (n < 2 || g_div_ix[1] == FBIN(1))))
/* the applied force is zero unless the bias applies forces and the current bin is inside the grid, in which case it is
   what calc_biasing_force delivers */
#define BIN_ANS (ACCUM_DUE ? g_q_ans[1] : g_q_ans[0])
__CPROVER_ensures(g_nshare == 0)
__CPROVER_ensures((!en[FB_APPLY] || !BIN_ANS) ==> (g_ncbf == 0 && P_LEAF(g_node[6], 0.0) && (n < 2 || P_LEAF(g_node[7], 0.0))))
__CPROVER_ensures((en[FB_APPLY] && BIN_ANS) ==> (g_ncbf == 1 && g_node[6] == g_node[4] && (n < 2 || g_node[7] == g_node[5])))
__CPROVER_ensures(en[FB_APPLY] ==> (g_q_ix[2 * (ACCUM_DUE ? 1 : 0)] == g_curbin[0] && (n < 2 || g_q_ix[2 * (ACCUM_DUE ? 1 : 0) + 1] == g_curbin[1])))
;

/* calc_biasing_force (plain ABF branch): the smoothed mean force of the bin, made zero-mean for a single periodic
   variable by subtracting the grid average BEFORE capping; capped values are +-maxForce */
#define IS_V0(n) P_SAME(n, g_node[0])
#define IS_V1(n) P_SAME(n, g_node[1])
#define IS_AVG(n) P_SAME(n, g_node[2])
#define IS_M0(n) P_SAME(n, g_node[8])
#define IS_M1(n) P_SAME(n, g_node[9])
#define L_M1(n) P_LEAF(n, -1.0)
#define X0(n) ((nv == 1 && periodic0) ? P_BIN2(n, T_SUB, IS_V0, IS_AVG) : IS_V0(n))
#define CAP0(n) (IS_M0(n) || P_BIN3(n, T_MUL, L_M1, IS_M0))
#define CAP1(n) (IS_M1(n) || P_BIN3(n, T_MUL, L_M1, IS_M1))
extern int g_wx;
int k_calc_biasing_force(_Bool *en, size_t nv, _Bool periodic0, _Bool cap_force)
__CPROVER_requires(__CPROVER_is_fresh(en, NFB * sizeof(_Bool)) && nv >= 1 && nv <= 2 && g_tn == 0 && g_nvvs == 0 && g_avg >= -1.0e100 && g_avg <= 1.0e100)
__CPROVER_assigns(__CPROVER_object_whole(e_i), __CPROVER_object_whole(g_node), TERM_FRAME, g_nvvs)
__CPROVER_ensures(__CPROVER_return_value == 0 && g_nvvs == 1)
__CPROVER_ensures(!cap_force ==> (X0(g_node[10]) && (nv < 2 || IS_V1(g_node[11]))))
__CPROVER_ensures(cap_force ==> ((X0(g_node[10]) || CAP0(g_node[10])) && (nv < 2 || IS_V1(g_node[11]) || CAP1(g_node[11]))))
/* a capped force keeps the sign of the uncapped one: +maxForce for a positive force, -maxForce otherwise (g_wx: ghost witness for the uncapped force of variable 0) */
#define NEGCAP0(n) P_BIN3(n, T_MUL, L_M1, IS_M0)
#define NEGCAP1(n) P_BIN3(n, T_MUL, L_M1, IS_M1)
__CPROVER_ensures((cap_force && X0(g_wx) && IS_M0(g_node[10]) && !X0(g_node[10])) ==> g_tv[g_wx] > 0.0)
__CPROVER_ensures((cap_force && X0(g_wx) && NEGCAP0(g_node[10])) ==> !(g_tv[g_wx] > 0.0))
__CPROVER_ensures((cap_force && nv == 2 && IS_M1(g_node[11]) && !IS_V1(g_node[11])) ==> g_tv[g_node[1]] > 0.0)
__CPROVER_ensures((cap_force && nv == 2 && NEGCAP1(g_node[11])) ==> !(g_tv[g_node[1]] > 0.0))
;
#endif

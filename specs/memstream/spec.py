H = 'colvars_memstream.h'
C = 'colvars_memstream.cpp'
def s(name, src, sig, inc=None): return {'name': name, 'src': src, 'sig': sig, 'inc': (inc or name) + '.body.inc'}
HELP = ['output_buffer', 'output_location', 'input_buffer', 'input_location', 'operator_bool', 'setstate', 'clear', 'incr_write_pos',
        'begin_reading', 'done_reading', 'incr_read_pos', 'has_remaining']
TASKS = [
  {'id': 'expand_output_buffer', 'properties': ['C11'], 'slices': ['expand_output_buffer'] + HELP, 'harness': 'h_expand', 'enforce': 'k_expand',
   'mutants': [('<= max_length_', '< max_length_', 'expand_output_buffer'), ('std::ios::badbit', 'std::ios::failbit', 'expand_output_buffer')]},
]
TASKS += [{'id': 'has_remaining', 'properties': ['C11'], 'slices': ['has_remaining'], 'harness': 'h_has_remaining', 'enforce': 'k_has_remaining',
           'mutants': [('c <= (data_length_ - read_pos_)', '(read_pos_ + c) <= data_length_', 'has_remaining'), ('c <= (data_length_ - read_pos_)', 'c < (data_length_ - read_pos_)', 'has_remaining')]}]
for suf in ['u64', 'i32', 'u8']:
    TASKS += [
     {'id': 'write_object_' + suf, 'properties': ['C11', 'C03'], 'slices': ['write_object'] + HELP, 'harness': 'h_write_object_' + suf, 'small_harness': 'hs_write_object_' + suf, 'replay_task': 'write_object',
      'enforce': 'k_write_object_' + suf, 'replace': ['k_expand', 'k_memcpy'],
      'mutants': [('incr_write_pos(new_data_size)', 'incr_write_pos(new_data_size + 1)', 'write_object')] if suf == 'u64' else []},
     {'id': 'read_object_' + suf, 'properties': ['C11', 'C03'], 'slices': ['read_object'] + HELP, 'harness': 'h_read_object_' + suf, 'small_harness': 'hs_read_object_' + suf, 'replay_task': 'read_object',
      'enforce': 'k_read_object_' + suf, 'replace': ['k_memcpy'],
      'mutants': [('c <= (data_length_ - read_pos_)', '(read_pos_ + c) <= data_length_ + 1', 'has_remaining'), ('incr_read_pos(sizeof(T));', '', 'read_object')] if suf == 'u64' else []},
     {'id': 'write_vector_' + suf, 'properties': ['C11', 'C03'], 'slices': ['write_vector'] + HELP, 'harness': 'h_write_vector_' + suf, 'small_harness': 'hs_write_vector_' + suf, 'replay_task': 'write_vector',
      'enforce': 'k_write_vector_' + suf, 'replace': ['k_expand', 'k_memcpy'],
      'mutants': [('sizeof(size_t) + sizeof(T) * vector_length', 'sizeof(T) * vector_length', 'write_vector')] if suf == 'u64' else []},
     {'id': 'read_vector_' + suf, 'properties': ['C11', 'C03'], 'slices': ['read_vector'] + HELP, 'harness': 'h_read_vector_' + suf, 'small_harness': 'hs_read_vector_' + suf, 'replay_task': 'read_vector',
      'enforce': 'k_read_vector_' + suf, 'replace': ['k_memcpy'],
      'mutants': [('c <= (data_length_ - read_pos_)', '(read_pos_ + c) <= data_length_', 'has_remaining'), ('setstate(std::ios::failbit);', '', 'read_vector')] if suf == 'u64' else []},
    ]
for suf in ['u64', 'i32', 'u8']:
    TASKS += [
     {'id': 'lemma_roundtrip_vector_' + suf, 'properties': ['C11', 'C03'], 'slices': [], 'harness': 'h_rt_vector_' + suf,
      'replace': ['k_write_vector_' + suf, 'k_read_vector_' + suf]},
     {'id': 'lemma_roundtrip_object_' + suf, 'properties': ['C11', 'C03'], 'slices': [], 'harness': 'h_rt_object_' + suf,
      'replace': ['k_write_object_' + suf, 'k_read_object_' + suf]},
    ]
UNIT = {
 'slices': [
  s('output_buffer', H, r'inline unsigned char \*output_buffer\(\)'),
  s('output_location', H, r'inline unsigned char \*output_location\(\)'),
  s('input_buffer', H, r'inline unsigned char const \*input_buffer\(\) const'),
  s('input_location', H, r'inline unsigned char const \*input_location\(\) const'),
  s('operator_bool', H, r'inline explicit operator bool\(\) const'),
  s('setstate', H, r'inline void setstate\(std::ios::iostate new_state\)'),
  s('clear', H, r'inline void clear\(\)'),
  s('incr_write_pos', H, r'inline void incr_write_pos\(size_t c\)'),
  s('begin_reading', H, r'inline void begin_reading\(\)'),
  s('done_reading', H, r'inline void done_reading\(\)'),
  s('incr_read_pos', H, r'inline void incr_read_pos\(size_t c\)'),
  s('has_remaining', H, r'inline bool has_remaining\(size_t c\)'),
  dict(s('expand_output_buffer', C, r'bool cvm::memory_stream::expand_output_buffer\(size_t add_bytes\)'),
       subst=[('auto &buffer = external_output_buffer_ ? *external_output_buffer_ : internal_buffer_;', 'std::vector<unsigned char> &buffer = *(external_output_buffer_ ? external_output_buffer_ : &internal_buffer_);'), ('bool(*this)', 'cvs_operator_bool()')]),
  s('write_object', H, r'template <typename T> void cvm::memory_stream::write_object\(T const &t\)'),
  s('write_vector', H, r'template <typename T> void cvm::memory_stream::write_vector\(std::vector<T> const &t\)'),
  s('read_object', H, r'template <typename T> void cvm::memory_stream::read_object\(T &t\)'),
  s('read_vector', H, r'template <typename T> void cvm::memory_stream::read_vector\(std::vector<T> &t\)'),
 ],
 'assumed': ['std::memcpy satisfies specs/common/memcpy_contract.h (defined only on valid ranges; bytes agree afterwards)',
             'std::vector<unsigned char>::resize preserves existing contents; the frame backs the buffer with enough capacity (no reallocation path)',
             'read_vector: growth of the destination vector allocates fresh storage (malloc model, never fails below max_size)'],
 'tasks': TASKS,
}

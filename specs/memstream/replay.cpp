// Native replay for cvm::memory_stream against the real class from /repo's working tree.
// Runs the operation in a forked child: an abort/segfault of the child is the "host crash" of property C11.
#include "replay_util.h"
#include <iomanip>
#include <vector>
#include "colvarmodule.h"
#include "colvars_memstream.h"
#include <sys/wait.h>
#include <unistd.h>
#include <vector>

struct colvars_verif_access {
  static bool has_remaining(cvm::memory_stream &s, size_t c) { return s.has_remaining(c); }
};

static int run_has_remaining(replay_vals const &v) {
  size_t const dl = v.u("e_dl"), rp = v.u("e_rp"), c = v.u("e_add");
  static unsigned char dummy[1];
  cvm::memory_stream is(dl, dummy); is.seekg(rp);   // has_remaining only compares lengths, the buffer is not touched
  bool const r = colvars_verif_access::has_remaining(is, c);
  bool const ref = (rp <= dl) && (c <= dl - rp);
  std::ostringstream in; in << "has_remaining(" << c << ") with data_length=" << dl << " read_pos=" << rp;
  if (r != ref) REPLAY_FAIL(in.str() << " returned " << r << ", but " << (ref ? "" : "fewer than ") << c << " bytes are left");
  REPLAY_PASS(in.str());
}

template <typename T> static int run(std::string const &task, replay_vals const &v) {
  size_t const bufsz = v.u("e_bufsz"), dl = v.u("e_dl"), rp = v.u("e_rp"), maxlen = v.u("e_max"), vlen = v.u("e_vlen");
  int const st = int(v.i("e_st"));
  if (bufsz > 32 || dl > bufsz) { std::cout << "REPLAY: counterexample buffer too large to rebuild (" << bufsz << ")\n"; return 3; }
  std::vector<unsigned char> buf(bufsz);
  for (size_t k = 0; k < bufsz; k++) buf[k] = (unsigned char) v.arr_i("e_buf", int(k));
  std::ostringstream in; in << task << "<" << sizeof(T) << "-byte T> data_length=" << dl << " read_pos=" << rp << " state=" << st;
  if (task == "read_vector" || task == "read_object") {
    cvm::memory_stream is(dl, buf.data());
    is.seekg(rp); if (st) is.setstate(std::ios::iostate(st));
    if (task == "read_object") {
      T t = T(); T const t0 = t; is >> t;
      bool enough = sizeof(T) <= dl - rp;
      if (enough) { T ref; std::memcpy(&ref, buf.data() + rp, sizeof(T));
        if (!is || is.tellg() != rp + sizeof(T) || std::memcmp(&t, &ref, sizeof(T))) REPLAY_FAIL(in.str() << ": object not read back as stored"); }
      else if (bool(is) || is.tellg() != rp || std::memcmp(&t, &t0, sizeof(T))) REPLAY_FAIL(in.str() << ": short read not reported as end-of-file");
      REPLAY_PASS(in.str());
    }
    std::vector<T> t(v.u("e_vlen") <= 3 ? v.u("e_vlen") : 0);
    size_t pre = 0; bool has_pre = 8 <= dl - rp; if (has_pre) std::memcpy(&pre, buf.data() + rp, 8);
    in << " length-prefix=" << pre;
    is >> t;   // may throw std::length_error -> uncaught -> abort of this child
    if (has_pre && pre <= (dl - rp - 8) / sizeof(T)) {
      if (!is || t.size() != pre || is.tellg() != rp + 8 + pre * sizeof(T) || (pre && std::memcmp(t.data(), buf.data() + rp + 8, pre * sizeof(T))))
        REPLAY_FAIL(in.str() << ": vector not read back as stored");
    } else if (bool(is)) REPLAY_FAIL(in.str() << ": truncated/damaged vector accepted");
    REPLAY_PASS(in.str());
  }
  if (task == "write_vector" || task == "write_object") {
    // write mode: internal buffer holding dl bytes already; then read back what was appended
    cvm::memory_stream os(maxlen);
    for (size_t k = 0; k < dl; k++) os << buf[k];
    if (!os || os.length() != dl) { std::cout << "REPLAY: cannot rebuild the pre-state (max_length " << maxlen << ")\n"; return 3; }
    std::vector<T> src(task == "write_object" ? 1 : vlen);
    if (src.size() * sizeof(T) > 32) { std::cout << "REPLAY: vector too long to rebuild\n"; return 3; }
    for (size_t k = 0; k < src.size() * sizeof(T); k++) reinterpret_cast<unsigned char *>(src.data())[k] = (unsigned char) v.arr_i("e_v", int(k));
    size_t const need = (task == "write_object") ? sizeof(T) : 8 + vlen * sizeof(T);
    if (task == "write_object") os << src[0]; else os << src;
    in << " vlen=" << src.size() << " max_length=" << maxlen;
    if (dl + need > maxlen) { if (bool(os) || os.length() != dl) REPLAY_FAIL(in.str() << ": write beyond max_length not refused cleanly"); REPLAY_PASS(in.str()); }
    if (!os || os.length() != dl + need) REPLAY_FAIL(in.str() << ": stream length after write is " << os.length() << ", expected " << dl + need);
    cvm::memory_stream is(os.length(), os.input_buffer()); is.seekg(dl);
    if (task == "write_object") { T back; is >> back; if (!is || std::memcmp(&back, &src[0], sizeof(T))) REPLAY_FAIL(in.str() << ": object not read back as written"); }
    else { std::vector<T> back; is >> back; if (!is || back != src || is.tellg() != os.length()) REPLAY_FAIL(in.str() << ": vector not read back as written (good=" << bool(is) << ", size " << back.size() << ")"); }
    REPLAY_PASS(in.str());
  }
  std::cout << "REPLAY: no native oracle for task " << task << "\n"; return 3;
}

int main(int argc, char **argv) {
  if (argc < 3) return 2;
  std::string task(argv[1]); replay_vals v; if (!v.load(argv[2])) return 2;
  size_t isz = v.u("e_isz", 8);
  pid_t pid = fork();
  if (pid == 0) {
    int r = (task == "has_remaining") ? run_has_remaining(v) : (isz == 8) ? run<unsigned long>(task, v) : (isz == 4) ? run<int>(task, v) : run<unsigned char>(task, v);
    std::cout.flush(); _exit(r);
  }
  int status = 0; waitpid(pid, &status, 0);
  if (WIFSIGNALED(status)) { std::cout << "REPLAY: property violated on the real code: process terminated by signal " << WTERMSIG(status)
                                       << " (uncaught exception / memory fault) while executing " << task << std::endl; return 1; }
  return WEXITSTATUS(status);
}

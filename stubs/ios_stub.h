#ifndef CVS_IOS_STUB
#define CVS_IOS_STUB
namespace std { struct ios { typedef int iostate; static const int goodbit = 0; static const int badbit = 1; static const int eofbit = 2; static const int failbit = 4; }; }
#endif

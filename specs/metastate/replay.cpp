// Native replay for the hill-restoring statements of colvarbias_meta::read_state_data_template_ (C03, C05): real module + stub proxy.
// Metadynamics on one distance, newHillFrequency 2, once with grids off and once with grids on (keepHills on).  Run A: steps 0..12 uninterrupted.
// Run B: steps 0..7, state saved; a fresh instance loads it and runs 7..12.  The bias energy of every step of the resumed run must equal that
// of the uninterrupted run.
#include "replay_util.h"
#include <cmath>
#include <vector>
#include "colvarmodule.h"
#include "colvarproxy.h"
#include "colvarbias.h"
#include "colvarproxy_stub.h"
#include "colvarproxy_stub.cpp"
static bool g_edge = false;   // third scenario: grids on, keepHills off, the variable leaves the grid after the restart
static std::string conf(bool grids) {
  if (g_edge) return "colvarsTrajFrequency 0\ncolvarsRestartFrequency 0\ncolvar {\n  name d\n  lowerBoundary 0.0\n  upperBoundary 10.0\n  width 0.5\n  distance {\n    group1 { atomNumbers 1 }\n    group2 { atomNumbers 2 }\n  }\n}\n"
    "metadynamics {\n  name m\n  colvars d\n  hillWeight 1.0\n  hillWidth 2.0\n  newHillFrequency 2\n}\n";
  std::string c = "colvarsTrajFrequency 0\ncolvarsRestartFrequency 0\ncolvar {\n  name d\n  lowerBoundary 0.0\n  upperBoundary 20.0\n  width 0.5\n  distance {\n    group1 { atomNumbers 1 }\n    group2 { atomNumbers 2 }\n  }\n}\n"
    "metadynamics {\n  name m\n  colvars d\n  hillWeight 1.0\n  hillWidth 2.0\n  newHillFrequency 2\n";
  c += grids ? "  useGrids on\n  keepHills on\n}\n" : "  useGrids off\n}\n"; return c; }
static colvarproxy_stub *make(bool grids) { colvarproxy_stub *p = new colvarproxy_stub(); p->set_unit_system("real", false); p->colvars->setup_input(); p->colvars->setup_output(); for (int a = 0; a < 2; a++) p->init_atom(a + 1);
  if (p->colvars->read_config_string(conf(grids))) { delete p; return NULL; } return p; }
// positions on bin centres so that grid lookup and analytic sum agree
static double step(colvarproxy_stub *p, long s) { std::vector<cvm::atom_pos> &pos = *(p->modify_atom_positions()); pos[0] = cvm::atom_pos(0, 0, 0); pos[1] = cvm::atom_pos(g_edge ? 9.25 + 0.25 * (s % 5) : 5.25 + 0.5 * (s % 4), 0, 0); p->colvars->it = s; p->colvars->calc(); return p->colvars->biases[0]->get_energy(); }
static int run(bool grids, std::ostringstream &msg) {
  colvarproxy_stub *a = make(grids); if (!a) return -1; std::vector<double> ref; for (long s = 0; s <= 12; s++) ref.push_back(step(a, s)); delete a;
  colvarproxy_stub *b = make(grids); for (long s = 0; s <= 7; s++) step(b, s); std::ostringstream os; b->colvars->write_state(os); delete b;
  colvarproxy_stub *c = make(grids); c->colvars->it = c->colvars->it_restart = 7; std::istringstream is(os.str()); c->colvars->read_state(is);
  int bad = 0; for (long s = 7; s <= 12; s++) { double e = step(c, s); if (std::fabs(e - ref[s]) > 1e-6 * (1.0 + std::fabs(ref[s]))) { if (!bad) msg << (grids ? "grids on" : "grids off") << ": step " << s << " resumed bias energy " << e << ", uninterrupted " << ref[s] << "; "; bad++; } }
  delete c; return bad;
}
// a hill that is both not yet tabulated and near the grid boundary: gridsUpdateFrequency 10 > newHillFrequency 2, variable kept outside the grid at 10.75;
// every hill is deposited there with weight 1, so the bias energy must equal the number of hills deposited so far
static int pending_off_grid() {
  colvarproxy_stub *p = new colvarproxy_stub(); p->set_unit_system("real", false); p->colvars->setup_input(); p->colvars->setup_output(); for (int a = 0; a < 2; a++) p->init_atom(a + 1);
  if (p->colvars->read_config_string("colvarsTrajFrequency 0\ncolvarsRestartFrequency 0\ncolvar {\n  name d\n  lowerBoundary 0.0\n  upperBoundary 10.0\n  width 0.5\n  distance {\n    group1 { atomNumbers 1 }\n    group2 { atomNumbers 2 }\n  }\n}\n"
     "metadynamics {\n  name m\n  colvars d\n  hillWeight 1.0\n  hillWidth 2.0\n  newHillFrequency 2\n  gridsUpdateFrequency 10\n}\n")) { std::cout << "REPLAY: configuration rejected\n"; delete p; return 3; }
  int bad = 0, nh = 0; std::ostringstream first;
  for (long s = 0; s <= 12; s++) { std::vector<cvm::atom_pos> &pos = *(p->modify_atom_positions()); pos[0] = cvm::atom_pos(0, 0, 0); pos[1] = cvm::atom_pos(10.75, 0, 0);
    p->colvars->it = s; p->colvars->calc(); double const E = p->colvars->biases[0]->get_energy(); if (s > 0 && s % 2 == 0) nh++;
    if (std::fabs(E - nh) > 1e-6) { bad++; if (first.str().empty()) first << "step " << s << ": bias energy " << E << " with " << nh << " hills of weight 1 deposited at the variable's position"; } }
  delete p;
  if (bad) REPLAY_FAIL("metadynamics with gridsUpdateFrequency 10 > newHillFrequency 2 and the variable outside the grid: on " << bad << " of 13 steps the bias energy is not the sum of the deposited hills; " << first.str());
  REPLAY_PASS("every deposited hill is counted once outside the grid while it is still pending");
}
int main(int argc, char **argv) {
  if (argc < 3) return 2; if (std::string(argv[1]) == "add_hill_once") return pending_off_grid(); std::ostringstream msg; int b0 = run(false, msg), b1 = run(true, msg); g_edge = true; msg << "[default grids, variable leaving the grid] "; int b2 = run(true, msg);
  if (b0 < 0 || b1 < 0 || b2 < 0) { std::cout << "REPLAY: configuration rejected\n"; return 3; }
  if (b0 || b1 || b2) REPLAY_FAIL("metadynamics stopped at step 7 and resumed from its saved state: " << b0 << " (grids off), " << b1 << " (grids on, keepHills) and " << b2 << " (grids on, keepHills off, variable crossing the upper boundary) of 6 steps differ from the uninterrupted run; " << msg.str());
  REPLAY_PASS("resumed metadynamics runs (grids off; grids on with keepHills; default grids with the variable leaving the grid) reproduce the uninterrupted bias energy on steps 7..12");
}

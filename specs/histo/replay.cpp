// Native replay for colvarbias_histogram::update (C15, C03): real module + stub proxy, histogram of one distance.  Run A: 6 steps uninterrupted.
// Run B: 4 steps, state saved, a fresh instance resumes from that state at the saved step and runs to the same final step.  The total number
// of samples in the two final states must agree and equal the number of eligible steps (the repeated first step of a segment is not counted).
// (A histogram over a vector variable cannot be configured at this commit; conf_vec is kept for the day it can.)
#include "replay_util.h"
#include <cmath>
#include <vector>
#include "colvarmodule.h"
#include "colvarproxy.h"
#include "colvarbias.h"
#include "colvarproxy_stub.h"
#include "colvarproxy_stub.cpp"
static char const *conf_vec = "colvarsTrajFrequency 0\ncolvarsRestartFrequency 0\ncolvar {\n  name dp\n  distancePairs {\n    group1 { atomNumbers 1 2 }\n    group2 { atomNumbers 3 4 }\n  }\n}\n"
  "histogram {\n  name h\n  colvars dp\n  gatherVectorColvars on\n  grid {\n    width 1.0\n    lowerBoundary 0.0\n    upperBoundary 20.0\n  }\n}\n";
static char const *conf_sca = "colvarsTrajFrequency 0\ncolvarsRestartFrequency 0\ncolvar {\n  name d\n  lowerBoundary 0.0\n  upperBoundary 20.0\n  width 1.0\n  distance {\n    group1 { atomNumbers 1 2 }\n    group2 { atomNumbers 3 4 }\n  }\n}\n"
  "histogram {\n  name h\n  colvars d\n}\n";
static colvarproxy_stub *make(char const *conf) {
  colvarproxy_stub *proxy = new colvarproxy_stub(); proxy->set_unit_system("real", false); proxy->colvars->setup_input(); proxy->colvars->setup_output();
  for (int ai = 0; ai < 4; ai++) proxy->init_atom(ai + 1);
  if (proxy->colvars->read_config_string(conf)) { delete proxy; return NULL; }
  return proxy;
}
static void step(colvarproxy_stub *proxy, long s) {
  std::vector<cvm::atom_pos> &pos = *(proxy->modify_atom_positions());
  pos[0] = cvm::atom_pos(0.0, 0.0, 0.0); pos[1] = cvm::atom_pos(1.0, 0.0, 0.0); pos[2] = cvm::atom_pos(3.0 + 0.5 * s, 0.0, 0.0); pos[3] = cvm::atom_pos(6.0 + 0.5 * s, 1.0, 0.0);
  proxy->colvars->it = s; proxy->colvars->calc();
}
// total number of samples in the histogram, from the text state: the numbers of the "grid" block of the bias
static double total(colvarproxy_stub *proxy) {
  std::ostringstream os; proxy->colvars->write_state(os); std::string st = os.str(); size_t p = st.find("histogram"); if (p == std::string::npos) return -1.0;
  p = st.find("\ngrid", p); if (p == std::string::npos) return -1.0; p = st.find('\n', p + 1); if (p == std::string::npos) return -1.0;
  // skip the grid_parameters block if present
  size_t gp = st.find("grid_parameters", p); if (gp != std::string::npos && gp < p + 40) { p = st.find('}', gp); if (p == std::string::npos) return -1.0; p++; }
  std::istringstream is(st.substr(p)); double sum = 0.0, x; std::string tok; while (is >> tok) { if (tok == "}") break; char *e = NULL; x = std::strtod(tok.c_str(), &e); if (e && *e == 0) sum += x; else break; }
  return sum;
}
static int run(char const *conf, double &tot_a, double &tot_b) {
  colvarproxy_stub *a = make(conf); if (!a) return 3; for (long s = 0; s <= 5; s++) step(a, s); tot_a = total(a); delete a;
  colvarproxy_stub *b = make(conf); for (long s = 0; s <= 3; s++) step(b, s); std::ostringstream os; b->colvars->write_state(os); delete b;
  colvarproxy_stub *c = make(conf); c->colvars->it = c->colvars->it_restart = 3; std::istringstream is(os.str()); c->colvars->read_state(is);
  for (long s = 3; s <= 5; s++) step(c, s); tot_b = total(c); delete c; return 0;
}
int main(int argc, char **argv) {
  if (argc < 3) return 2;
  double sa = 0, sb = 0;
  if (run(conf_sca, sa, sb)) { std::cout << "REPLAY: configuration rejected\n"; return 3; }
  if (sa < 0 || sb < 0) { std::cout << "REPLAY: could not read the histogram from the state\n"; return 3; }
  // steps 0..5, the first step of a segment is not eligible: 5 samples
  if (std::fabs(sa - sb) > 1e-9 || std::fabs(sa - 5.0) > 1e-9)
    REPLAY_FAIL("histogram of a distance over steps 0..5: uninterrupted run holds " << sa << " samples (5 eligible steps), the run stopped at step 3 and resumed from its saved state holds " << sb);
  REPLAY_PASS("histogram: " << sa << " samples with and without a stop/resume at step 3");
}

G = 'colvargrid.h'
def s(name, src, sig, **kw): d = {'name': name, 'src': src, 'sig': sig, 'inc': name + '.body.inc'}; d.update(kw); return d
SEL = ('fact = weight > 0. ? 1. / weight : 0.;', 'fact = cvs_select(weight > 0., 1. / weight, cvm::real(0.));')
UNIT = {
 'cxxflags': ['-DCVS_SREAL'],
 'slices': [
  s('smooth_inverse_weight', G, r'inline cvm::real smooth_inverse_weight\(cvm::real weight\)'),
  s('value_output_smoothed', G, r'virtual inline cvm::real value_output_smoothed\(std::vector<int> const &ix, bool smoothed = true\)', subst=[SEL]),
  s('vector_value_smoothed', G, r'inline void vector_value_smoothed\(std::vector<int> const &ix, cvm::real \*grad, bool smoothed = true\)', subst=[SEL]),
 ],
 'assumed': ['symbolic reals; the count grid is a stand-in returning a ghost count; address(ix) is the 1-D stand-in ix[0]*mult (the real row-major address is under contract for memory safety in grid_index); the frame declares `samples` as a plain pointer (real: std::shared_ptr)',
             'extraction rewrites `fact = weight > 0. ? 1. / weight : 0.;` (mixed real/double conditional, front-end limit) into cvs_select with the same condition and values (both operands are evaluated; only the selected one is used)'],
 'tasks': [
  {'id': 'smooth_inverse_weight', 'properties': ['C04'], 'slices': ['smooth_inverse_weight'], 'harness': 'h_smooth_inverse_weight', 'enforce': 'k_smooth_inverse_weight', 'unwind': 4,
   'mutants': [('weight <= min_samples', 'weight < min_samples'), ('(weight - min_samples) / (weight * cvm::real(full_samples - min_samples))', '(weight - min_samples) / (cvm::real(full_samples - min_samples))'), ('fact = 1.0 / weight;', 'fact = 1.0;'), ('weight < full_samples', 'weight <= min_samples')]},
  {'id': 'vector_value_smoothed', 'properties': ['C04'], 'slices': ['vector_value_smoothed', 'smooth_inverse_weight'], 'harness': 'h_vector_value_smoothed', 'enforce': 'k_vector_value_smoothed', 'unwind': 4, 'unwind_body': 3,
   'bounded': 'multiplicity 2 (loop over components unwound)',
   'mutants': [('if (smoothed) {', 'if (!smoothed) {'), ('grad[imult] = fact * p[imult];', 'grad[imult] = fact * p[0];'), ('weight = cvm::real(samples->value(ix));', 'weight = 1.;')]},
  {'id': 'value_output_smoothed', 'properties': ['C04', 'C16'], 'slices': ['value_output_smoothed', 'smooth_inverse_weight'], 'harness': 'h_value_output_smoothed', 'enforce': 'k_value_output_smoothed', 'unwind': 4,
   'mutants': [('return fact * data[address(ix)];', 'return data[address(ix)];')]},
 ],
}

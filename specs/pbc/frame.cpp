// Frame TU for colvarproxy_system::position_distance (C02: minimum-image displacement).  Body sliced verbatim from src/colvarproxy_system.cpp.
#include <vector>
#include <cvm_stub.h>
#include <cvs_echo.h>
#define CID_ROUND (CID_USER + 7)
extern "C" { extern double e_d[32]; extern int g_node[8]; }
struct rvector_s { cvm::real x, y, z; };
inline rvector_s operator-(rvector_s const &a, rvector_s const &b) { rvector_s r; r.x = a.x - b.x; r.y = a.y - b.y; r.z = a.z - b.z; return r; }
inline cvm::real operator*(rvector_s const &a, rvector_s const &b) { return a.x * b.x + a.y * b.y + a.z * b.z; }   // inner product, as cvm::rvector
struct cvm_pbc : colvarmodule { typedef rvector_s rvector; typedef rvector_s atom_pos; };
#undef cvm
#define cvm cvm_pbc
// file-local helper of colvarproxy_system.cpp, int(floor(x+0.5)): an uninterpreted call here
static cvm::real round_to_integer(cvm::real x) { return sreal_call(CID_ROUND, x.nid()); }
struct K_pd {
  enum Boundaries_type
#include "Boundaries_type.body.inc"
  ;
  Boundaries_type boundaries_type;                               //@real colvarproxy_system.h
  cvm::rvector unit_cell_x, unit_cell_y, unit_cell_z;            //@real colvarproxy_system.h
  cvm::rvector reciprocal_cell_x, reciprocal_cell_y, reciprocal_cell_z;   //@real colvarproxy_system.h
  cvm::atom_pos pos1, pos2;
  cvm::rvector body() const
#include "position_distance.body.inc"
};
static void ld(rvector_s &v, double const *p) { v.x = cvm::real(p[0]); v.y = cvm::real(p[1]); v.z = cvm::real(p[2]); }
// in[0..2] pos1, [3..5] pos2, [6..8] unit_cell_x, [9..11] unit_cell_y, [12..14] unit_cell_z, [15..17] recip_x, [18..20] recip_y, [21..23] recip_z
extern "C" int k_position_distance(int btype, double *in) {
  g_tn = 0;   // concrete start of the term table (keeps node indices constant during symbolic execution)
  K_pd f; f.boundaries_type = (K_pd::Boundaries_type) btype;
  ld(f.pos1, in); ld(f.pos2, in + 3); ld(f.unit_cell_x, in + 6); ld(f.unit_cell_y, in + 9); ld(f.unit_cell_z, in + 12);
  ld(f.reciprocal_cell_x, in + 15); ld(f.reciprocal_cell_y, in + 18); ld(f.reciprocal_cell_z, in + 21);
  for (int k = 0; k < 24; k++) e_d[k] = in[k]; e_d[24] = btype;
  rvector_s r = f.body();
  g_node[0] = r.x.nid(); g_node[1] = r.y.nid(); g_node[2] = r.z.nid();
  return 0;
}

// Frame TU for colvar_grid<T> index functions (C15).  Bodies are sliced verbatim from src/colvargrid.h.
#include <vector>
#include <cvm_stub.h>
#include <cvs_echo.h>

extern "C" {
  extern size_t g_nd, g_k, g_k2;
  extern int *g_ix, *g_nx, *g_eb;
  extern bool *g_per;
  extern int g_old_k, g_old_k2;
  extern int e_ix[4], e_nx[4], e_per[4];
  extern size_t e_nd;
}

struct GridF {
  size_t nd = 0;                       //@real colvargrid.h
  std::vector<int> nx;                 //@real colvargrid.h
  std::vector<int> nxc;                //@real colvargrid.h
  std::vector<bool> periodic;          //@real colvargrid.h
};

struct K_index_ok : GridF {
  std::vector<int> ix;
  bool body() const
#include "index_ok.body.inc"
};

struct K_incr : GridF {
  mutable std::vector<int> ix;
  void body() const
#include "incr.body.inc"
};

struct K_wrap : GridF {
  mutable std::vector<int> ix;
  void body() const
#include "wrap.body.inc"
};

struct K_wrap_detect_edge : GridF {
  mutable std::vector<int> ix;
  bool body() const
#include "wrap_detect_edge.body.inc"
};

struct K_address : GridF {
  std::vector<int> ix;
  size_t body() const
#include "address.body.inc"
};

static void echo_in(int *ix, int *nx, bool *per, size_t nd) {
  e_nd = nd;
  CVS_ECHO4(e_ix, ix, nd); CVS_ECHO4(e_nx, nx, nd);
  if (per) { CVS_ECHO4(e_per, per, nd); }
}

#define SETUP(f) \
  f.nd = nd; CVS_VIEW(f.nx, nx, nd); CVS_VIEW(f.ix, ix, nd); \
  g_nd = nd; g_ix = ix; g_nx = nx; g_k = gk; g_k2 = gk2; \
  if (gk < nd) g_old_k = ix[gk]; if (gk2 < nd) g_old_k2 = ix[gk2];

extern "C" int k_index_ok(int *ix, int *nx, size_t nd, size_t gk) {
  size_t gk2 = gk;
  K_index_ok f; SETUP(f); echo_in(ix, nx, 0, nd);
  return f.body();
}

extern "C" int k_incr(int *ix, int *nx, size_t nd) {
  size_t gk = 0, gk2 = 0;
  K_incr f; SETUP(f); echo_in(ix, nx, 0, nd);
  f.body();
  return 0;
}

extern "C" int k_wrap(int *ix, int *nx, bool *per, size_t nd) {
  size_t gk = 0, gk2 = 0;
  K_wrap f; SETUP(f); CVS_VIEW(f.periodic, per, nd); g_per = per; echo_in(ix, nx, per, nd);
  f.body();
  return 0;
}

extern "C" int k_wrap_detect_edge(int *ix, int *nx, bool *per, size_t nd) {
  size_t gk = 0, gk2 = 0;
  K_wrap_detect_edge f; SETUP(f); CVS_VIEW(f.periodic, per, nd); g_per = per; echo_in(ix, nx, per, nd);
  return f.body();
}

extern "C" size_t k_address(int *ix, int *nx, int *nxc, size_t nd) {
  size_t gk = 0, gk2 = 0;
  K_address f; SETUP(f); CVS_VIEW(f.nxc, nxc, nd); echo_in(ix, nx, 0, nd);
  return f.body();
}

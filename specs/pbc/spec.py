def s(name, src, sig, **kw): d = {'name': name, 'src': src, 'sig': sig, 'inc': name + '.body.inc'}; d.update(kw); return d
UNIT = {
 'cxxflags': ['-DCVS_SREAL', '-DT_NT=112'], 'cflags': ['-DT_NT=112'],
 'slices': [
  s('Boundaries_type', 'colvarproxy_system.h', r'enum Boundaries_type'),
  s('position_distance', 'colvarproxy_system.cpp', r'cvm::rvector colvarproxy_system::position_distance\(cvm::atom_pos const &pos1,\s*cvm::atom_pos const &pos2\)\s*const', R5=[r'diff\.x', r'diff\.y', r'diff\.z']),
 ],
 'assumed': ['symbolic reals; cvm::rvector is a three-component stand-in; round_to_integer (file-local int(floor(x+0.5))) is an uninterpreted call; that the rounded shifts select the nearest image is real analysis and not decided'],
 'tasks': [
  {'id': 'position_distance', 'properties': ['C02'], 'slices': ['position_distance'], 'harness': 'h_position_distance', 'enforce': 'k_position_distance', 'unwind': 30, 'object_bits': 10,
   'mutants': [('z_shift*unit_cell_z.y', 'z_shift*unit_cell_y.z'), ('diff = (pos2 - pos1)', 'diff = (pos1 - pos2)'), ('round_to_integer(reciprocal_cell_y*diff)', 'round_to_integer(reciprocal_cell_x*diff)'), ('diff.z -= ', 'diff.z += ')]},
 ],
}

// Scalar colvarvalue over symbolic reals (CVS_SREAL mode): a model of a dependency, listed as trusted.
#ifndef CVS_COLVARVALUE_SYM_H
#define CVS_COLVARVALUE_SYM_H
#include <cvm_stub.h>
#ifdef CVS_CVV_TYPES
// placeholder payload of the non-scalar value types (branches for them compile, contracts require the scalar type)
struct cvs_nonscalar { int unused_; cvs_nonscalar &operator+=(cvs_nonscalar const &) { return *this; } };
inline cvs_nonscalar operator*(cvm::real const &, cvs_nonscalar const &b) { return b; }
#endif
struct colvarvalue {
#ifdef CVS_CVV_TYPES
  enum Type
#include "cvv_Type.body.inc"
  ;
  cvs_nonscalar rvector_value, quaternion_value, vector1d_value;
#endif
  int value_type;
  cvm::real real_value;
  colvarvalue() : value_type(1) {}
  colvarvalue(cvm::real const &x) : value_type(1) { real_value = x; }
  colvarvalue(double x) : value_type(1) { real_value = cvm::real(x); }
  operator cvm::real() const { return real_value; }
  colvarvalue &operator=(double x) { real_value = cvm::real(x); return *this; }
  colvarvalue &operator=(cvm::real const &x) { real_value = x; return *this; }
  void reset() { real_value = cvm::real(0.0); }
  void type(colvarvalue const &) {}
  void is_derivative() {}
  int type() const { return value_type; }
  colvarvalue(int t) : value_type(t) {}       // colvarvalue(Type): an unset value of that type
  void apply_constraints() {}
  void set_ones() { real_value = cvm::real(1.0); }      // scalar: 1.0
  cvm::real sum() const { return real_value; }          // scalar: the value itself
  void set_random() { real_value = sreal_call(CID_USER + 4, real_value.nid()); }
  colvarvalue &operator-=(cvm::real const &b) { real_value -= b; return *this; }
  colvarvalue &operator+=(cvm::real const &b) { real_value += b; return *this; }
  colvarvalue &operator+=(colvarvalue const &b) { real_value += b.real_value; return *this; }
  colvarvalue &operator-=(colvarvalue const &b) { real_value -= b.real_value; return *this; }
  colvarvalue &operator*=(cvm::real const &a) { real_value *= a; return *this; }
  colvarvalue &operator/=(cvm::real const &a) { real_value /= a; return *this; }
  // the type-based (not periodic-aware) metric of the real class: uninterpreted calls of their own
  cvm::real dist2(colvarvalue const &x2) const { return sreal_call(CID_CVV_DIST2, real_value.nid(), x2.real_value.nid()); }
  colvarvalue dist2_grad(colvarvalue const &x2) const { colvarvalue r(sreal_call(CID_CVV_DIST2_GRAD, real_value.nid(), x2.real_value.nid())); return r; }
  static colvarvalue const interpolate(colvarvalue const &x1, colvarvalue const &x2, cvm::real const lambda) {
    colvarvalue r(sreal_call(CID_INTERPOLATE, x1.real_value.nid(), x2.real_value.nid(), lambda.nid())); return r; }
};
inline colvarvalue operator*(cvm::real const &a, colvarvalue const &x) { colvarvalue r(a * x.real_value); return r; }
inline colvarvalue operator*(double a, colvarvalue const &x) { colvarvalue r(a * x.real_value); return r; }
inline colvarvalue operator*(colvarvalue const &x, cvm::real const &a) { colvarvalue r(x.real_value * a); return r; }
inline cvm::real operator*(colvarvalue const &x, colvarvalue const &y) { return x.real_value * y.real_value; }
inline colvarvalue operator+(colvarvalue const &x, colvarvalue const &y) { colvarvalue r(x.real_value + y.real_value); return r; }
inline colvarvalue operator-(colvarvalue const &x, colvarvalue const &y) { colvarvalue r(x.real_value - y.real_value); return r; }
inline colvarvalue operator/(colvarvalue const &x, cvm::real const &a) { colvarvalue r(x.real_value / a); return r; }
inline colvarvalue operator/(colvarvalue const &x, double a) { colvarvalue r(x.real_value / a); return r; }
inline bool operator<(colvarvalue const &x, double a) { return x.real_value.v < a; }
inline bool operator>(colvarvalue const &x, double a) { return x.real_value.v > a; }
inline bool operator<(colvarvalue const &x, int a) { return x.real_value.v < (double) a; }
inline bool operator>(colvarvalue const &x, int a) { return x.real_value.v > (double) a; }
inline colvarvalue operator*(colvarvalue const &x, double a) { colvarvalue r(x.real_value * a); return r; }
#endif

// Echo of wrapper inputs into ghost globals so that counterexample traces carry them.
#ifndef CVS_ECHO_H
#define CVS_ECHO_H
#define CVS_ECHO4(dst, src, n) do { if ((n) > 0) dst[0] = src[0]; if ((n) > 1) dst[1] = src[1]; \
  if ((n) > 2) dst[2] = src[2]; if ((n) > 3) dst[3] = src[3]; } while (0)
#define CVS_VIEW(v, ptr, len) do { (v).p_ = (ptr); (v).n_ = (len); (v).cap_ = (len); } while (0)
#endif

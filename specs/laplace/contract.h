/* Contract for integrate_potential::atimes (C16), symbolic reals, grids of 2 or 3 points per dimension.
   For EVERY grid point p (ghost index, row-major, last dimension fastest) the result is the sum over the directions, in order, of
        c_dir * ff_dir * stencil_dir(p),      ff_dir = 1 / (width_dir * width_dir)
   stencil_dir(p) = (A[p - e_dir] + A[p + e_dir]) - 2 A[p]  in the interior of that direction and, with wrap-around neighbours, everywhere
   when the direction is periodic;  A[p + e_dir] - A[p]  on the lower and  A[p - e_dir] - A[p]  on the upper non-periodic edge.
   c_dir (the edge-halving factor that keeps the matrix symmetric): in two dimensions 1/2 exactly where the point lies on a non-periodic edge of the other direction, 1 elsewhere;
   in three dimensions it is not constrained here. */
#ifndef LAPLACE_CONTRACT_H
#define LAPLACE_CONTRACT_H
#include <stddef.h>
#include "../common/term.h"
extern int g_a[27], g_la[27], g_w[3]; extern int e_l[8];
extern int g_throw, g_debug; extern unsigned g_errors, g_error_bits;
static int t_op(int n) { return TVALID(n) ? g_top(n) : -1; }
static int t_a(int n) { return TVALID(n) ? g_ta(n) : -2; }
static int t_b(int n) { return TVALID(n) ? g_tb(n) : -2; }
static _Bool is_leaf(int n, double x) { return P_LEAF(n, x); }
/* coordinate of point p along direction dir (nd dimensions of 3 points), and the index of the point moved by delta along dir with wrap-around */
extern int g_nx[3];   /* points per dimension (2 or 3) */
static int stride(int nd, int dir) { return dir == nd - 1 ? 1 : (dir == nd - 2 ? g_nx[nd - 1] : g_nx[nd - 1] * g_nx[nd - 2]); }
static int coord(int nd, int p, int dir) { return (p / stride(nd, dir)) % g_nx[dir]; }
static int moved(int nd, int p, int dir, int delta) { int n = g_nx[dir]; int c = coord(nd, p, dir); int c2 = (c + delta + n) % n; return p + (c2 - c) * stride(nd, dir); }
static _Bool is_ff(int n, int dir) { int m = t_b(n); return t_op(n) == T_DIV && is_leaf(t_a(n), 1.0) && t_op(m) == T_MUL && t_a(m) == g_w[dir] && t_b(m) == g_w[dir]; }
static _Bool is_coef(int n, int dir) { return is_ff(n, dir) || (t_op(n) == T_MUL && is_ff(t_b(n), dir)); }
static _Bool is_centered(int n, int nd, int p, int dir) { int s = t_a(n), m = t_b(n);
  return t_op(n) == T_SUB && t_op(s) == T_ADD && t_a(s) == g_a[moved(nd, p, dir, -1)] && t_b(s) == g_a[moved(nd, p, dir, 1)] && t_op(m) == T_MUL && is_leaf(t_a(m), 2.0) && t_b(m) == g_a[p]; }
static _Bool is_onesided(int n, int nd, int p, int dir, int delta) { return t_op(n) == T_SUB && t_a(n) == g_a[moved(nd, p, dir, delta)] && t_b(n) == g_a[p]; }
static _Bool is_term(int n, int nd, int p, int dir, _Bool per) { int c = coord(nd, p, dir); int st = t_b(n);
  return t_op(n) == T_MUL && is_coef(t_a(n), dir) && ((per || (c > 0 && c < g_nx[dir] - 1)) ? is_centered(st, nd, p, dir) : (c == 0 ? is_onesided(st, nd, p, dir, 1) : is_onesided(st, nd, p, dir, -1))); }
/* two dimensions: the edge-halving factor is pinned.  The term of direction dir is halved exactly at the points that lie on a non-periodic edge of the OTHER
   direction (this is what keeps the matrix symmetric: Long Chen's scheme, quoted in the code); elsewhere the factor is 1 (written or omitted). */
static _Bool is_coef2(int n, int dir, _Bool halved) { return halved ? (t_op(n) == T_MUL && is_leaf(t_a(n), 0.5) && t_a(n) != -1 && is_ff(t_b(n), dir))
                                                                   : (is_ff(n, dir) || (t_op(n) == T_MUL && is_leaf(t_a(n), 1.0) && is_ff(t_b(n), dir))); }
static _Bool on_open_edge(int p, int dir, _Bool per) { int c = coord(2, p, dir); return !per && (c == 0 || c == g_nx[dir] - 1); }
static _Bool point_ok(int nd, int p, _Bool p0, _Bool p1, _Bool p2) { int r = g_la[p];
  if (nd == 2) return t_op(r) == T_ADD && is_term(t_a(r), 2, p, 0, p0) && is_term(t_b(r), 2, p, 1, p1)
                   && is_coef2(t_a(t_a(r)), 0, on_open_edge(p, 1, p1)) && is_coef2(t_a(t_b(r)), 1, on_open_edge(p, 0, p0));
  int q = t_a(r); return t_op(r) == T_ADD && is_term(t_b(r), 3, p, 2, p2) && t_op(q) == T_ADD && is_term(t_a(q), 3, p, 0, p0) && is_term(t_b(q), 3, p, 1, p1); }
extern int g_p;   /* ghost point index: the postcondition holds for every p */
void k_atimes(int nd, int n0, int n1, int n2, _Bool p0, _Bool p1, _Bool p2)
__CPROVER_requires((nd == 2 || nd == 3) && g_tn == 0 && n0 == g_nx[0] && n1 == g_nx[1] && n2 == g_nx[2] && n0 >= 2 && n0 <= 3 && n1 >= 2 && n1 <= 3 && n2 >= 2 && n2 <= 3
                   && g_p >= 0 && g_p < (nd == 2 ? n0 * n1 : n0 * n1 * n2))
__CPROVER_assigns(__CPROVER_object_whole(g_a), __CPROVER_object_whole(g_la), __CPROVER_object_whole(g_w), __CPROVER_object_whole(e_l), TERM_FRAME)
__CPROVER_ensures(point_ok(nd, g_p, p0, p1, p2))
;
#endif

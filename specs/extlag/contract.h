/* Contract for colvar::update_extended_Lagrangian (C17), symbolic reals: force routing between the fictitious coordinate and
   the atoms, what is reported as total force, and the saved state used to undo a repeated step. */
#ifndef EXTLAG_CONTRACT_H
#define EXTLAG_CONTRACT_H
#include <stddef.h>
#include "../common/term.h"
extern int e_l[64]; extern int g_node[32]; extern int g_nsetvalue; extern int g_fid[12]; extern double g_dt;
extern int g_throw, g_debug; extern unsigned g_errors, g_error_bits;
extern long long g_step_rel, g_step_abs; extern int g_sim_continuing, g_sim_running;
#define CID_TF (CID_USER + 0)
#define CID_SELF_LGRAD (CID_USER + 2)
#define CID_SELF_DIST2 (CID_USER + 3)
#define F_EXTERNAL g_fid[0]
#define F_TF_CURR g_fid[1]
#define F_SUB_APPL g_fid[2]
#define F_LANGEVIN g_fid[3]
#define F_REFL_LO g_fid[4]
#define F_REFL_UP g_fid[5]
double k_dt(void) __CPROVER_assigns() __CPROVER_ensures(__CPROVER_return_value == g_dt);
void k_set_value(void) __CPROVER_requires(g_nsetvalue < 4) __CPROVER_assigns(g_nsetvalue) __CPROVER_ensures(g_nsetvalue == __CPROVER_old(g_nsetvalue) + 1);
#define O(x) __CPROVER_old(x)
#define N(k) g_node[k]
#define IS_X(n) P_SAME(n, N(0))
#define IS_XEXT(n) P_SAME(n, N(1))
#define IS_K(n) P_SAME(n, N(5))
#define IS_F_IN(n) P_SAME(n, N(3))
#define L_MHALF(n) P_LEAF(n, -0.5)
#define L_MONE(n) P_LEAF(n, -1.0)
#define L_TSF(n) P_LEAF(n, (double)tsf)
/* spring force on the extended coordinate: (-1/2 k) * d/dx_ext dist2(x_ext, x), the variable's own (periodic-aware) metric */
#define T_MHK(n) P_BIN5(n, T_MUL, L_MHALF, IS_K)
#define T_LG(n) P_CALL2_5(n, CID_SELF_LGRAD, IS_XEXT, IS_X)
#define T_FSYS(n) P_BIN4(n, T_MUL, T_MHK, T_LG)
/* bias force rescaled to the outer time step */
#define T_FEXT0(n) P_BIN4(n, T_DIV, IS_F_IN, L_TSF)
#define T_FEXT(n) P_BIN3(n, T_ADD, T_FEXT0, T_FSYS)
/* force on the atoms: minus the spring force, impulse-scaled */
#define T_MFSYS(n) P_BIN3(n, T_MUL, L_MONE, T_FSYS)
#define STEP_OK (prev_timestep <= -1 || g_step_rel - prev_timestep == 0 || g_step_rel - prev_timestep == tsf)
int k_update_extended_Lagrangian(_Bool *en, int tsf, long long prev_timestep)
__CPROVER_requires(__CPROVER_is_fresh(en, 64 * sizeof(_Bool)) && g_tn == 0 && tsf >= 1 && tsf <= 1000 && prev_timestep >= -1 && prev_timestep <= 1000000000 && g_step_rel >= 0 && g_step_rel <= 1000000000
                   && g_nsetvalue == 0 && g_dt >= 0.0 && g_dt <= 100.0 && !en[F_EXTERNAL])
__CPROVER_assigns(__CPROVER_object_whole(e_l), __CPROVER_object_whole(g_node), TERM_FRAME, g_nsetvalue, g_errors, g_error_bits)
/* wrong activation interval: error, nothing integrated */
__CPROVER_ensures(!STEP_OK ==> (g_errors == O(g_errors) + 1 && N(16) == N(3) && N(23) == N(1) && N(24) == N(2) && N(18) == N(7) && N(19) == N(8)))
/* otherwise: atoms feel (-1 * f_system) * tsf; bias force on the extended coordinate reported as fr = f/tsf */
__CPROVER_ensures(STEP_OK ==> (P_BIN1(N(16), T_MUL, T_MFSYS, L_TSF) && T_FEXT0(N(17))))
/* total force reported for the next step: the spring force alone when the applied force is to be subtracted, else spring + bias */
__CPROVER_ensures((STEP_OK && !en[F_TF_CURR] && en[F_SUB_APPL]) ==> T_FSYS(N(18)))
__CPROVER_ensures((STEP_OK && !en[F_TF_CURR] && !en[F_SUB_APPL]) ==> T_FEXT(N(18)))
__CPROVER_ensures((STEP_OK && en[F_TF_CURR]) ==> N(18) == N(7))
/* state saved for undoing a repeated step is the state before integration */
__CPROVER_ensures(STEP_OK ==> (N(19) == N(1) && N(20) == N(2)))
/* coupling energy 1/2 k dist2(x_ext, x) */
#define L_HALF(n) P_LEAF(n, 0.5)
#define T_HK(n) P_BIN3(n, T_MUL, L_HALF, IS_K)
#define T_D2(n) P_CALL2_3(n, CID_SELF_DIST2, IS_XEXT, IS_X)
__CPROVER_ensures(STEP_OK ==> P_BIN1(N(21), T_MUL, T_HK, T_D2))
;
#endif

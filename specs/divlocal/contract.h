/* Contract for integrate_potential::update_div_local with get_grad and wrap_detect_edge inlined verbatim (C16), symbolic reals.
   Gradient grid: 2 bins per dimension, row-major (last dimension fastest); scalar grid point ix0.
   The 2^nd gradient bins around the scalar point are ix0 - 1 + o, o in {0,1}^nd.  V(o, c) is component c of the gradient of that bin, taken
   with wrap-around in periodic dimensions, and the literal 0 when the bin lies outside a non-periodic dimension.
   divergence[address(ix0)] = ( sum_d  D_d / width_d ) * 2^(1-nd),   D_d = sum over the 2^(nd-1) pairs of bins differing only by o_d of  V(o_d=1, d) - V(o_d=0, d)
   (association as coded: ((p0 - m0) + p1) - m1 ...), every other element of divergence unchanged, the gradient grid asked with the object's own b_smoothed. */
#ifndef DIVLOCAL_CONTRACT_H
#define DIVLOCAL_CONTRACT_H
#include <stddef.h>
#include "../common/term.h"
extern int g_gv[8][3], g_w[3], g_div[4], g_div0[4]; extern int e_l[12]; extern int g_addr, g_sm_bad, g_ncalls;
extern int g_throw, g_debug; extern unsigned g_errors, g_error_bits;
static int t_op(int n) { return TVALID(n) ? g_top(n) : -1; }
static int t_a(int n) { return TVALID(n) ? g_ta(n) : -2; }
static int t_b(int n) { return TVALID(n) ? g_tb(n) : -2; }
static _Bool is_leaf(int n, double x) { return P_LEAF(n, x); }
extern int g_i[3]; extern _Bool g_per[3]; extern int g_nd;   /* mirrors of the arguments for the predicates */
/* one coordinate of the bin at offset o (0/1) from ix0-1 along d: -1 when outside a non-periodic dimension */
static int bin_coord(int d, int o) { int c = g_i[d] - 1 + o; if (g_per[d]) return (c + 2) % 2; return (c < 0 || c >= 2) ? -1 : c; }
/* is node n the value V(corner, comp)?  corner = bits (o0 o1 [o2]), first dimension most significant */
static _Bool is_V(int n, int corner, int comp) {
  int a = 0; _Bool edge = 0;
  for (int d = 0; d < 3; d++) if (d < g_nd) { int o = (corner >> (g_nd - 1 - d)) & 1; int c = bin_coord(d, o); if (c < 0) edge = 1; else a = a * 2 + c; }
  if (edge) return is_leaf(n, 0.0) && n != -1;
  return n == g_gv[a][comp];
}
static _Bool is_pair(int n, int comp, int p, int m) { return t_op(n) == T_SUB && is_V(t_a(n), p, comp) && is_V(t_b(n), m, comp); }
/* ((p0 - m0) + p1) - m1 */
static _Bool is_chain2(int n, int comp, int p0, int m0, int p1, int m1) { int s = t_a(n);
  return t_op(n) == T_SUB && is_V(t_b(n), m1, comp) && t_op(s) == T_ADD && is_V(t_b(s), p1, comp) && is_pair(t_a(s), comp, p0, m0); }
/* (((chain2) + p2) - m2) + p3) - m3 */
static _Bool is_chain4(int n, int comp, int p0, int m0, int p1, int m1, int p2, int m2, int p3, int m3) { int s3 = t_a(n); int d2 = t_a(s3); int s2 = t_a(d2);
  return t_op(n) == T_SUB && is_V(t_b(n), m3, comp) && t_op(s3) == T_ADD && is_V(t_b(s3), p3, comp) && t_op(d2) == T_SUB && is_V(t_b(d2), m2, comp)
      && t_op(s2) == T_ADD && is_V(t_b(s2), p2, comp) && is_chain2(t_a(s2), comp, p0, m0, p1, m1); }
static _Bool is_over_w(int n, int d) { return t_op(n) == T_DIV && t_b(n) == g_w[d]; }
static _Bool div_ok(void) { int r = g_div[g_addr]; int s = t_a(r);
  if (g_nd == 2) /* corners: 0 = g00, 1 = g01, 2 = g10, 3 = g11 */
    return t_op(r) == T_MUL && is_leaf(t_b(r), 0.5) && t_op(s) == T_ADD && is_over_w(t_a(s), 0) && is_chain2(t_a(t_a(s)), 0, 2, 0, 3, 1) && is_over_w(t_b(s), 1) && is_chain2(t_a(t_b(s)), 1, 1, 0, 3, 2);
  int q = t_a(s);
  return t_op(r) == T_MUL && is_leaf(t_b(r), 0.25) && t_op(s) == T_ADD && t_op(q) == T_ADD
      && is_over_w(t_a(q), 0) && is_chain4(t_a(t_a(q)), 0, 4, 0, 5, 1, 6, 2, 7, 3)
      && is_over_w(t_b(q), 1) && is_chain4(t_a(t_b(q)), 1, 2, 0, 3, 1, 6, 4, 7, 5)
      && is_over_w(t_b(s), 2) && is_chain4(t_a(t_b(s)), 2, 1, 0, 3, 2, 5, 4, 7, 6); }
static _Bool others_kept(void) { return (g_addr == 0 || g_div[0] == g_div0[0]) && (g_addr == 1 || g_div[1] == g_div0[1]) && (g_addr == 2 || g_div[2] == g_div0[2]) && (g_addr == 3 || g_div[3] == g_div0[3]); }
#define IN_SCALAR_GRID(i, p) ((i) >= 0 && (i) < ((p) ? 2 : 3))
void k_update_div_local_body(int nd, int i0, int i1, int i2, _Bool p0, _Bool p1, _Bool p2, _Bool sm)
__CPROVER_requires((nd == 2 || nd == 3) && g_tn == 0 && nd == g_nd && i0 == g_i[0] && i1 == g_i[1] && i2 == g_i[2] && p0 == g_per[0] && p1 == g_per[1] && p2 == g_per[2]
                   && IN_SCALAR_GRID(i0, p0) && IN_SCALAR_GRID(i1, p1) && IN_SCALAR_GRID(i2, p2) && g_addr >= 0 && g_addr < 4 && g_sm_bad == 0 && g_ncalls == 0)
__CPROVER_assigns(__CPROVER_object_whole(g_gv), __CPROVER_object_whole(g_w), __CPROVER_object_whole(g_div), __CPROVER_object_whole(g_div0), __CPROVER_object_whole(e_l), g_sm_bad, g_ncalls, TERM_FRAME)
__CPROVER_ensures(div_ok())
__CPROVER_ensures(others_kept())
__CPROVER_ensures(g_sm_bad == 0)
;
#endif

// Frame TU for integrate_potential::update_div_local, get_grad (src/colvargrid.cpp) and colvar_grid<T>::wrap_detect_edge (src/colvargrid.h): C16, divergence stencil.
#define CVS_VEC_COPY
#define CVS_VEC_MINCAP 3
#include <vector>
#include <cvm_stub.h>
#include <cvs_echo.h>
extern "C" { extern int g_gv[8][3], g_w[3], g_div[4], g_div0[4]; extern int e_l[12]; extern int g_addr, g_sm_bad, g_ncalls; }
struct G_grad {
  size_t nd = 0;                               //@real colvargrid.h
  std::vector<int> nx;                         //@real colvargrid.h
  std::vector<bool>        periodic;           //@real colvargrid.h
  bool sm_expected;
  bool wrap_detect_edge(std::vector<int> & ix) const
#include "wrap_detect_edge.body.inc"
  // stand-in for colvar_grid_gradient::vector_value_smoothed (under contract in unit abframp): the leaves of the addressed bin
  void vector_value_smoothed(std::vector<int> const &ix, cvm::real *grad, bool smoothed = true) {   // default as in the real declaration
    int a = 0;
    for (int d = 0; d < 3; d++) if (d < (int) nd) { CVS_ASSERT(ix[d] >= 0 && ix[d] < nx[d], "get_grad reads a bin inside the gradient grid"); a = a * 2 + ix[d]; }
    if (smoothed != sm_expected) g_sm_bad = g_sm_bad + 1;
    g_ncalls = g_ncalls + 1;
    for (int c = 0; c < 3; c++) if (c < (int) nd) { grad[c].v = nondet_double(); grad[c].id = g_gv[a][c]; }
  }
};
struct K_dl {
  size_t nd = 0;                               //@real colvargrid.h
  std::vector<cvm::real> widths;               //@real colvargrid.h
  bool b_smoothed;                             //@real colvargrid.h
  std::vector<cvm::real> divergence;           //@real colvargrid.h
  G_grad *gradients;                           // real: std::shared_ptr<colvar_grid_gradient> gradients;
  size_t address(std::vector<int> const &ix) const { return (size_t) g_addr; }
  void get_grad(cvm::real * g, std::vector<int> &ix)
#include "get_grad.body.inc"
  void body(const std::vector<int> &ix0)
#include "update_div_local.body.inc"
};
extern "C" void k_update_div_local_body(int nd, int i0, int i1, int i2, bool p0, bool p1, bool p2, bool sm) {
  g_tn = 0; K_dl f; G_grad g; f.nd = (size_t) nd; g.nd = (size_t) nd; f.gradients = &g; f.b_smoothed = sm; g.sm_expected = sm;
  int nxv[3]; nxv[0] = 2; nxv[1] = 2; nxv[2] = 2; bool per[3]; per[0] = p0; per[1] = p1; per[2] = p2; int ixv[3]; ixv[0] = i0; ixv[1] = i1; ixv[2] = i2;
  e_l[0] = nd; e_l[1] = i0; e_l[2] = i1; e_l[3] = i2; e_l[4] = p0; e_l[5] = p1; e_l[6] = p2; e_l[7] = sm;
  cvm::real wv[3]; cvm::real dv[4];
  for (int k = 0; k < 3; k++) { double x = nondet_double(); wv[k] = cvm::real(x); g_w[k] = wv[k].id; }
  for (int a = 0; a < 8; a++) for (int c = 0; c < 3; c++) { double x = nondet_double(); g_gv[a][c] = sreal::leaf(x); }
  for (int k = 0; k < 4; k++) { double x = nondet_double(); dv[k] = cvm::real(x); g_div0[k] = dv[k].id; }
  CVS_VIEW(g.nx, nxv, nd); CVS_VIEW(g.periodic, per, nd); CVS_VIEW(f.widths, wv, nd); CVS_VIEW(f.divergence, dv, 4);
  std::vector<int> ix0; CVS_VIEW(ix0, ixv, nd);
  f.body(ix0);
  for (int k = 0; k < 4; k++) g_div[k] = dv[k].nid();
}

// Frame TU for integrate_potential::integrate, 1-D branch (C16: the PMF is the cumulative sum of the bin-averaged gradients times the bin
// width, mean removed for a periodic variable).  Body sliced verbatim from src/colvargrid.cpp.
#include <vector>
#include <cvm_stub.h>
#include <cvs_echo.h>
#define CID_AVG (CID_USER + 1)
#define CID_VAL (CID_USER + 2)
extern "C" { extern int g_node[16]; extern int e_l[8]; }
struct grad_stub { int n_;
  cvm::real average() { return sreal_call(CID_AVG, 0); }
  bool index_ok(std::vector<int> const &ix) const { return ix[0] >= 0 && ix[0] < n_; }
  cvm::real value_output_smoothed(std::vector<int> const &ix, bool smoothed) { return sreal_call(CID_VAL, ix[0], smoothed ? 1 : 0); }
};
struct K_int {
  size_t nd = 0;                               //@real colvargrid.h
  std::vector<int> nx;                         //@real colvargrid.h
  std::vector<cvm::real> widths;               //@real colvargrid.h
  std::vector<bool> periodic;                  //@real colvargrid.h
  std::vector<cvm::real> data;                 // real: std::vector<T> data; of colvar_grid<cvm::real>
  bool b_smoothed;                             //@real colvargrid.h
  grad_stub *gradients;                        // real: std::shared_ptr<colvar_grid_gradient> gradients;
  std::vector<cvm::real> divergence;           //@real colvargrid.h
  std::vector<int> new_index() const { std::vector<int> ix(1); ix[0] = 0; return ix; }
  bool index_ok(std::vector<int> const &ix) const { return ix[0] >= 0 && ix[0] < nx[0]; }
  void incr(std::vector<int> &ix) const { ix[0] = ix[0] + 1; if (ix[0] >= nx[0]) ix[0] = nx[0]; }
  void set_value(std::vector<int> const &ix, cvm::real const &t) { data[(size_t) ix[0]] = t; }
  void nr_linbcg_sym(std::vector<cvm::real> const &, std::vector<cvm::real> &, cvm::real const &, int, int &, cvm::real &) {}
  int body(const int itmax, const cvm::real &tol, cvm::real &err, bool verbose)
#include "integrate.body.inc"
};
// node slots: 0 width, 1..4 data[0..3] after the call, 5..8 data[0..3] before
extern "C" int k_integrate_1d(int ng, bool per, bool smoothed) {
  g_tn = 0; K_int f; grad_stub g; g.n_ = ng; f.gradients = &g; f.nd = 1; f.b_smoothed = smoothed;
  int nxv[1]; nxv[0] = per ? ng : ng + 1; bool pv[1]; pv[0] = per; cvm::real wv[1]; cvm::real dv[4];
  { double x = nondet_double(); wv[0] = cvm::real(x); g_node[0] = wv[0].id; }
  for (int k = 0; k < 4; k++) { double x = nondet_double(); dv[k] = cvm::real(x); g_node[5 + k] = dv[k].id; }
  CVS_VIEW(f.nx, nxv, 1); CVS_VIEW(f.periodic, pv, 1); CVS_VIEW(f.widths, wv, 1); CVS_VIEW(f.data, dv, nxv[0]);
  e_l[0] = ng; e_l[1] = per; e_l[2] = smoothed;
  cvm::real tol(1.0e-6), err; int r = f.body(100, tol, err, false);
  for (int k = 0; k < 4; k++) g_node[1 + k] = dv[k].nid();
  return r;
}

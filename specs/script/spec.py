S = 'colvarscript.h'
def s(name, src, sig, **kw): d = {'name': name, 'src': src, 'sig': sig, 'inc': name + '.body.inc'}; d.update(kw); return d
TASKS = []
for suf in ['module', 'colvar', 'bias']:
    TASKS += [
     {'id': 'cmd_arg_shift_' + suf, 'properties': ['C20'], 'slices': ['cmd_arg_shift'], 'harness': 'h_cmd_arg_shift_' + suf, 'enforce': 'k_cmd_arg_shift_' + suf,
      'mutants': [('shift = 2;', 'shift = 1;'), ('shift = 4;\n  } else if (T == use_bias)', 'shift = 3;\n  } else if (T == use_bias)')] if suf != 'bias' else [('shift = 4;\n  }\n  return', 'shift = 2;\n  }\n  return')]},
     {'id': 'get_cmd_arg_' + suf, 'properties': ['C20'], 'slices': ['get_cmd_arg', 'cmd_arg_shift'], 'harness': 'h_get_cmd_arg_' + suf, 'enforce': 'k_get_cmd_arg_' + suf,
      'mutants': [('(shift+iarg < objc)', '(shift+iarg <= objc)'), ('objv[shift+iarg]', 'objv[iarg]')] if suf == 'colvar' else []},
     {'id': 'check_cmd_nargs_' + suf, 'properties': ['C20'], 'slices': ['check_cmd_nargs', 'cmd_arg_shift'], 'harness': 'h_check_cmd_nargs_' + suf, 'enforce': 'k_check_cmd_nargs_' + suf,
      'mutants': [('objc < shift+n_args_min', 'objc <= shift+n_args_min'), ('objc > shift+n_args_max', 'objc > shift+n_args_max+1')] if suf == 'module' else []},
     {'id': 'lemma_mandatory_' + suf, 'properties': ['C20'], 'slices': [], 'harness': 'h_lemma_mandatory_' + suf,
      'replace': ['k_check_cmd_nargs_' + suf, 'k_get_cmd_arg_' + suf, 'k_cmd_arg_shift_' + suf]},
    ]
UNIT = {
 'slices': [
  s('Object_type', S, r'enum Object_type'),
  s('cmd_arg_shift', S, r'template<colvarscript::Object_type T>\s*int colvarscript::cmd_arg_shift\(\)'),
  s('get_cmd_arg', S, r'template<colvarscript::Object_type T>\s*unsigned char \*colvarscript::get_cmd_arg\(int iarg,\s*int objc,\s*unsigned char \*const objv\[\]\)', subst=[('cmd_arg_shift<T>()', 'cmd_arg_shift()')]),
  s('check_cmd_nargs', S, r'template<colvarscript::Object_type T>\s*int colvarscript::check_cmd_nargs\(char const \*cmd,\s*int objc,\s*int n_args_min,\s*int n_args_max\)', subst=[('cmd_arg_shift<T>()', 'cmd_arg_shift()')]),
 ],
 'assumed': ['the three template instantiations are represented by three frames with T a class-scope constant; add_error_msg counts messages (its string argument is dropped by rule R1)'],
 'tasks': TASKS,
}

#include "contract.h"
int e_i[8]; int g_nt[2], g_tok[2][6], g_line;
int g_throw, g_debug, g_vec_alloc; unsigned g_errors, g_error_bits; size_t g_alloc_bytes;
long long g_step_rel, g_step_abs; int g_sim_continuing, g_sim_running;
_Bool nondet_bool(void);
double k_floor(double x) { return x; } double k_sqrt(double x) { return x; } double k_pow(double x, double y) { return x; }
double k_boltzmann(void) { return 0.0; } double k_target_temperature(void) { return 0.0; } double k_dt(void) { return 1.0; } int k_same_step(void) { return 0; }
void h_alb_columns(void) { g_debug = 0; g_nt[0] = 0; g_nt[1] = 0; _Bool a = nondet_bool(), b = nondet_bool(), c = nondet_bool(), d = nondet_bool(); k_alb_columns(a, b, c, d);
  if (b && c) __CPROVER_assert(0, "canary: centres and gradient both written"); }

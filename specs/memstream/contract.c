#include "contract.h"
size_t e_dl, e_rp, e_bufsz, e_add, e_max, e_tcap; int e_st, e_ext; unsigned char e_buf[8];
int g_throw, g_debug, g_vec_alloc; unsigned g_errors, g_error_bits; size_t g_alloc_bytes;
size_t g_mw;
size_t nondet_size_t(void); int nondet_int(void);
double k_floor(double x) { return x; } double k_sqrt(double x) { return x; }

void h_expand(void) {
  size_t *st; unsigned char *buf; g_mw = nondet_size_t();
  int r = k_expand(st, buf, nondet_size_t(), nondet_size_t(), nondet_size_t());
  if (r) __CPROVER_assert(0, "canary: expand_output_buffer can succeed");
  if (!r) __CPROVER_assert(0, "canary: expand_output_buffer can refuse");
}
#define MS_H(SUF, T) \
void h_write_object_##SUF(void) { size_t *st; unsigned char *buf; T *t; g_mw = nondet_size_t(); \
  k_write_object_##SUF(st, buf, nondet_size_t(), nondet_size_t(), t); \
  __CPROVER_assert(0, "canary: write_object returns"); } \
void h_read_object_##SUF(void) { size_t *st; unsigned char *buf; T *t; g_mw = nondet_size_t(); \
  k_read_object_##SUF(st, buf, nondet_size_t(), nondet_int(), t); \
  __CPROVER_assert(0, "canary: read_object returns"); } \
void h_write_vector_##SUF(void) { size_t *st; unsigned char *buf; T *v; g_mw = nondet_size_t(); \
  k_write_vector_##SUF(st, buf, nondet_size_t(), nondet_size_t(), v, nondet_size_t()); \
  __CPROVER_assert(0, "canary: write_vector returns"); } \
void h_read_vector_##SUF(void) { size_t *st; unsigned char *buf; T *v; size_t *vlen; g_mw = nondet_size_t(); \
  k_read_vector_##SUF(st, buf, nondet_size_t(), nondet_int(), v, vlen, nondet_size_t()); \
  __CPROVER_assert(0, "canary: read_vector returns"); }
MS_H(u64, unsigned long)
MS_H(i32, int)
MS_H(u8, unsigned char)

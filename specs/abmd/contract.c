#include "contract.h"
TERM_GHOST_DEFS
int g_node[12]; int e_l[8]; int g_wd, g_wt;
int g_throw, g_debug, g_vec_alloc; unsigned g_errors, g_error_bits; size_t g_alloc_bytes;
long long g_step_rel, g_step_abs; int g_sim_continuing, g_sim_running;
size_t nondet_size_t(void); int nondet_int(void); double nondet_double(void); _Bool nondet_bool(void);
double k_floor(double x) { return x; } double k_sqrt(double x) { return x; } double k_pow(double x, double y) { return x; }
double k_boltzmann(void) { return 0.0; } double k_target_temperature(void) { return 0.0; } double k_dt(void) { return 1.0; } int k_same_step(void) { return 0; }
void h_abmd_update(void) { g_debug = 0; g_tn = 0; g_sim_running = nondet_int(); g_wd = nondet_int(); g_wt = nondet_int(); _Bool ri = nondet_bool(), dec = nondet_bool();
  k_abmd_update(ri, dec);
  if (g_sim_running && is_diff(g_wd, ri, dec) && t_v(g_wd) > 0.0 && is_stoptest(g_wt, ri, dec) && t_v(g_wt) <= 0.0) __CPROVER_assert(0, "canary: ratchet advance reachable");
  if (g_sim_running && is_diff(g_wd, ri, dec) && !(t_v(g_wd) > 0.0)) __CPROVER_assert(0, "canary: restrained side reachable"); }

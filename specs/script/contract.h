/* Contracts for the scripting interface's argument helpers (C20): a command never reads an argument that was not passed. */
#ifndef SCRIPT_CONTRACT_H
#define SCRIPT_CONTRACT_H
#include <stddef.h>
extern int e_i[8];
extern int g_throw, g_debug; extern unsigned g_errors, g_error_bits;
#define O(x) __CPROVER_old(x)
#define OBJC_MAX 1000000
#define SC_DECL(SUF, SHIFT) \
/* "cv COMMAND" (module) resp. "cv colvar|bias NAME COMMAND" precede the arguments */ \
int k_cmd_arg_shift_##SUF(void) __CPROVER_assigns() __CPROVER_ensures(__CPROVER_return_value == SHIFT); \
/* argument iarg is objv[shift+iarg] when that many words were passed, NULL otherwise; objv is never indexed outside [0, objc) */ \
unsigned char *k_get_cmd_arg_##SUF(int iarg, int objc, unsigned char **objv) \
__CPROVER_requires(0 <= objc && objc <= OBJC_MAX && 0 <= iarg && iarg <= OBJC_MAX && __CPROVER_is_fresh(objv, (size_t)objc * sizeof(unsigned char *))) \
__CPROVER_assigns(__CPROVER_object_whole(e_i)) \
__CPROVER_ensures((SHIFT + iarg < objc) ==> __CPROVER_return_value == objv[SHIFT + iarg]) \
__CPROVER_ensures(!(SHIFT + iarg < objc) ==> __CPROVER_return_value == NULL) \
; \
/* the number of words is accepted iff shift+min <= objc <= shift+max; otherwise exactly one error message */ \
int k_check_cmd_nargs_##SUF(int objc, int n_args_min, int n_args_max) \
__CPROVER_requires(0 <= objc && objc <= OBJC_MAX && 0 <= n_args_min && n_args_min <= n_args_max && n_args_max <= OBJC_MAX) \
__CPROVER_assigns(__CPROVER_object_whole(e_i), g_errors) \
__CPROVER_ensures((SHIFT + n_args_min <= objc && objc <= SHIFT + n_args_max) ==> (__CPROVER_return_value == 0 && g_errors == O(g_errors))) \
__CPROVER_ensures(!(SHIFT + n_args_min <= objc && objc <= SHIFT + n_args_max) ==> (__CPROVER_return_value == -1 && g_errors == O(g_errors) + 1)) \
;
SC_DECL(module, 2)
SC_DECL(colvar, 4)
SC_DECL(bias, 4)
#endif

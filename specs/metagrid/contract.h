/* Contract for the boundary-expansion loop of colvarbias_meta::update_grid_params (C05): the grids are re-allocated iff ANY
   variable with expandBoundaries on comes within the buffer of a boundary that is not hard; each such variable's size and
   current bin are adjusted by exactly the missing number of points; other variables are untouched. */
#ifndef METAGRID_CONTRACT_H
#define METAGRID_CONTRACT_H
#include <stddef.h>
#include "../common/term.h"
extern int e_i[32]; extern int g_node[8];
extern int g_throw, g_debug; extern unsigned g_errors, g_error_bits;
#define O(x) __CPROVER_old(x)
#define LO_DUE(k) (expand[k] && !hard_lo[k] && O(curr_bin[k]) < min_buffer)
#define EXTRA_LO(k) (LO_DUE(k) ? (min_buffer - O(curr_bin[k])) : 0)
#define BIN1(k) (O(curr_bin[k]) + EXTRA_LO(k))
#define SIZE1(k) (O(sizes[k]) + EXTRA_LO(k))
#define UP_DUE(k) (expand[k] && !hard_up[k] && BIN1(k) > SIZE1(k) - min_buffer - 1)
#define EXTRA_UP(k) (UP_DUE(k) ? (BIN1(k) - (SIZE1(k) - 1) + min_buffer) : 0)
#define VAR_OK(k) (curr_bin[k] == BIN1(k) && sizes[k] == SIZE1(k) + EXTRA_UP(k))
int k_expand_loop(int min_buffer, int *curr_bin, int *sizes, _Bool *expand, _Bool *hard_lo, _Bool *hard_up)
__CPROVER_requires(1 <= min_buffer && min_buffer <= 100000 && __CPROVER_is_fresh(curr_bin, 2 * sizeof(int)) && __CPROVER_is_fresh(sizes, 2 * sizeof(int)) && __CPROVER_is_fresh(expand, 2)
  && __CPROVER_is_fresh(hard_lo, 2) && __CPROVER_is_fresh(hard_up, 2) && curr_bin[0] >= -100000 && curr_bin[0] <= 10000000 && curr_bin[1] >= -100000 && curr_bin[1] <= 10000000
  && sizes[0] >= 1 && sizes[0] <= 10000000 && sizes[1] >= 1 && sizes[1] <= 10000000 && g_debug == 0)
__CPROVER_assigns(__CPROVER_object_whole(e_i), __CPROVER_object_whole(g_node), TERM_FRAME, __CPROVER_object_whole(curr_bin), __CPROVER_object_whole(sizes))
__CPROVER_ensures((__CPROVER_return_value != 0) == (LO_DUE(0) || UP_DUE(0) || LO_DUE(1) || UP_DUE(1)))
__CPROVER_ensures(VAR_OK(0) && VAR_OK(1))
__CPROVER_ensures((!LO_DUE(0)) ==> g_node[4] == g_node[0])
__CPROVER_ensures((!UP_DUE(1)) ==> g_node[7] == g_node[3])
;
#endif

// Scalar-only stand-in for colvarvalue (a model of a dependency; listed as trusted).
#ifndef CVS_COLVARVALUE_SCALAR_H
#define CVS_COLVARVALUE_SCALAR_H
#include <cvm_stub.h>
struct colvarvalue {
  int value_type;
  cvm::real real_value;
  colvarvalue() : value_type(1), real_value(0.0) {}
  colvarvalue(cvm::real const &x) : value_type(1), real_value(x) {}
  operator cvm::real() const { return real_value; }
  // own (type-based, non-periodic) metric and bookkeeping of the real class, as logging stubs
  cvm::real dist2(colvarvalue const &x2) const;
  colvarvalue dist2_grad(colvarvalue const &x2) const;
  void reset() { real_value = 0.0; }
  void type(colvarvalue const &) {}
  void is_derivative() {}
};
extern "C" double k_cvv_dist2(double x1, double x2);
extern "C" double k_cvv_dist2_grad(double x1, double x2);
inline cvm::real colvarvalue::dist2(colvarvalue const &x2) const { return k_cvv_dist2(real_value, x2.real_value); }
inline colvarvalue colvarvalue::dist2_grad(colvarvalue const &x2) const { double v = k_cvv_dist2_grad(real_value, x2.real_value); colvarvalue r(v); return r; }
#endif

/* Contract for colvarbias_alb::write_traj_label / write_traj (C19), one variable: for every combination of the four output switches the data
   line carries the same kinds of columns as the label line, in the same order, and each requested quantity appears exactly once in both. */
#ifndef ALBTRAJ_CONTRACT_H
#define ALBTRAJ_CONTRACT_H
#include <stddef.h>
extern int e_i[8];
extern int g_throw, g_debug; extern unsigned g_errors, g_error_bits;
extern int g_nt[2], g_tok[2][6], g_line;
void k_tok(int line, int kind) __CPROVER_requires((line == 0 || line == 1) && g_nt[line] >= 0 && g_nt[line] < 6) __CPROVER_assigns(g_nt[line], g_tok[line][g_nt[line]])
  __CPROVER_ensures(g_nt[line] == __CPROVER_old(g_nt[line]) + 1 && g_tok[line][g_nt[line] - 1] == kind);
static _Bool same_columns(void) { if (g_nt[0] != g_nt[1]) return 0; for (int k = 0; k < 4; k++) if (k < g_nt[0] && g_tok[0][k] != g_tok[1][k]) return 0; return 1; }
void k_alb_columns(_Bool oe, _Bool oc, _Bool og, _Bool ok)
__CPROVER_requires(g_nt[0] == 0 && g_nt[1] == 0)
__CPROVER_assigns(__CPROVER_object_whole(e_i), __CPROVER_object_whole(g_nt), __CPROVER_object_whole(g_tok), g_line)
__CPROVER_ensures(g_nt[0] == (oe ? 1 : 0) + (oc ? 1 : 0) + (og ? 1 : 0) + (ok ? 1 : 0))
__CPROVER_ensures(same_columns())
;
#endif

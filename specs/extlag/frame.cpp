// Frame TU for colvar::update_extended_Lagrangian (C17).  Body sliced verbatim from src/colvar.cpp.
#include <vector>
#include <cvm_stub.h>
#include <cvs_echo.h>
#include <colvarvalue_sym.h>
#define CID_TF (CID_USER + 0)
#define CID_SELF_LGRAD (CID_USER + 2)
#define CID_SELF_DIST2 (CID_USER + 3)
#define CID_RANDOM (CID_USER + 4)
#define CID_SELF_WRAP (CID_USER + 6)
enum features_colvar
#include "features_colvar.body.inc"
;
extern "C" { extern int e_l[64]; extern int g_node[32]; extern int g_nsetvalue; }
extern "C" void k_set_value();
struct cvc_ext { colvarvalue total_force() const { colvarvalue r(sreal_call(CID_TF, 0)); return r; } void set_value(colvarvalue const &) { k_set_value(); } };
struct colvarmodule_dt : colvarmodule { static cvm::real dt() { double v = k_dt(); cvm::real r(v); return r; } };
#undef cvm
#define cvm colvarmodule_dt
struct K_uel {
  bool en_[f_cv_ntot];
  bool is_enabled(int f = f_cv_active) const { return en_[f]; }
  colvarvalue x, x_ext, prev_x_ext, v_ext, prev_v_ext, fr, ft_reported, fb_actual, f;   // real: separate colvarvalue members of class colvar
  colvarvalue lower_boundary, upper_boundary;
  cvm::real ext_mass, ext_force_k, ext_gamma, ext_sigma, kinetic_energy, potential_energy;
  cvm::step_number prev_timestep;     //@real colvar.h
  int   time_step_factor;             //@real colvardeps.h
  std::vector<cvc_ext *> cvcs;
  colvarvalue dist2_lgrad(colvarvalue const &a, colvarvalue const &b) const { colvarvalue r(sreal_call(CID_SELF_LGRAD, a.real_value.nid(), b.real_value.nid())); return r; }
  cvm::real dist2(colvarvalue const &a, colvarvalue const &b) const { return sreal_call(CID_SELF_DIST2, a.real_value.nid(), b.real_value.nid()); }
  void wrap(colvarvalue &a) const { a.real_value = sreal_call(CID_SELF_WRAP, a.real_value.nid()); }
  void body()
#include "update_extended_Lagrangian.body.inc"
};

// node slots (inputs): 0 x 1 x_ext 2 v_ext 3 f 4 fb_actual 5 ext_force_k 6 ext_mass 7 ft_reported 8 prev_x_ext 9 prev_v_ext
// (outputs): 16 f 17 fr 18 ft_reported 19 prev_x_ext 20 prev_v_ext 21 potential_energy 22 kinetic_energy 23 x_ext 24 v_ext
#define OPQ(member, slot) do { double v_ = nondet_double(); f.member = colvarvalue(v_); g_node[slot] = f.member.real_value.id; } while (0)
#define OPQR(member, slot) do { double v_ = nondet_double(); f.member = cvm::real(v_); g_node[slot] = f.member.id; } while (0)
extern "C" int k_update_extended_Lagrangian(bool *en, int tsf, long long prev_timestep) {
  K_uel f; cvc_ext c0; cvc_ext *cp[1]; cp[0] = &c0; CVS_VIEW(f.cvcs, cp, 1);
  for (int k = 0; k < f_cv_ntot; k++) { f.en_[k] = en[k]; e_l[k] = en[k]; }
  OPQ(x, 0); OPQ(x_ext, 1); OPQ(v_ext, 2); OPQ(f, 3); OPQ(fb_actual, 4); OPQR(ext_force_k, 5); OPQR(ext_mass, 6); OPQ(ft_reported, 7); OPQ(prev_x_ext, 8); OPQ(prev_v_ext, 9);
  OPQ(fr, 10); OPQ(lower_boundary, 11); OPQ(upper_boundary, 12); OPQR(ext_gamma, 13); OPQR(ext_sigma, 14);
  f.kinetic_energy = cvm::real(0.0); f.potential_energy = cvm::real(0.0);
  f.time_step_factor = tsf; f.prev_timestep = prev_timestep; e_l[60] = tsf; e_l[61] = (int) prev_timestep; e_l[62] = (int) g_step_rel;
  f.body();
  g_node[16] = f.f.real_value.nid(); g_node[17] = f.fr.real_value.nid(); g_node[18] = f.ft_reported.real_value.nid(); g_node[19] = f.prev_x_ext.real_value.nid();
  g_node[20] = f.prev_v_ext.real_value.nid(); g_node[21] = f.potential_energy.nid(); g_node[22] = f.kinetic_energy.nid(); g_node[23] = f.x_ext.real_value.nid(); g_node[24] = f.v_ext.real_value.nid();
  return 0;
}
extern "C" { extern int g_fid[12]; }
extern "C" void cvs_set_fids() {
  g_fid[0] = f_cv_external; g_fid[1] = f_cv_total_force_current_step; g_fid[2] = f_cv_subtract_applied_force; g_fid[3] = f_cv_Langevin;
  g_fid[4] = f_cv_reflecting_lower_boundary; g_fid[5] = f_cv_reflecting_upper_boundary;
}

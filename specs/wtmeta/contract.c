#include "contract.h"
TERM_GHOST_DEFS
int g_node[12]; long long e_l[8]; int g_nhill, g_hill_w; long long g_hill_step; int g_hill_c, g_hill_s; int g_nsum; double g_kb; int g_inrange, g_sum_range;
int g_throw, g_debug, g_vec_alloc; unsigned g_errors, g_error_bits; size_t g_alloc_bytes;
long long g_step_rel, g_step_abs; int g_sim_continuing, g_sim_running;
size_t nondet_size_t(void); int nondet_int(void); double nondet_double(void); _Bool nondet_bool(void); long long nondet_ll(void);
double k_floor(double x) { return x; } double k_sqrt(double x) { return x; } double k_pow(double x, double y) { return x; }
double k_target_temperature(void) { return 0.0; } double k_dt(void) { return 1.0; } int k_same_step(void) { return 0; }
void h_new_hill(void) { g_debug = 0; g_tn = 0; g_nhill = 0; g_nsum = 0; g_kb = nondet_double(); g_inrange = nondet_int(); g_step_abs = nondet_ll(); _Bool wt = nondet_bool(), ug = nondet_bool();
  k_new_hill(wt, ug);
  if (wt && ug && g_inrange) __CPROVER_assert(0, "canary: well-tempered with grids reachable");
  if (wt && ug && !g_inrange) __CPROVER_assert(0, "canary: well-tempered deposition outside the grid reachable");
  if (!wt) __CPROVER_assert(0, "canary: plain metadynamics reachable"); }

/* Contract for NR_Jacobi::eigsrt (n = 4): eigenvalues end up in descending order, are a rearrangement of the input, and each
   eigenvector column travels with its eigenvalue -- so column 0 (the quaternion of the optimal rotation) belongs to the largest. */
#ifndef JACOBI_CONTRACT_H
#define JACOBI_CONTRACT_H
#include <stddef.h>
extern double e_d[20];
extern int g_throw, g_debug; extern unsigned g_errors, g_error_bits;
#define O(x) __CPROVER_old(x)
#define FIN(x) ((x) >= -1.0e100 && (x) <= 1.0e100)
#define COL_FROM(i, k) (d[i] == O(d[k]) && v[0 + (i)] == O(v[0 + (k)]) && v[4 + (i)] == O(v[4 + (k)]) && v[8 + (i)] == O(v[8 + (k)]) && v[12 + (i)] == O(v[12 + (k)]))
#define COL_OK(i) (COL_FROM(i, 0) || COL_FROM(i, 1) || COL_FROM(i, 2) || COL_FROM(i, 3))
#define KEPT(k) (O(d[k]) == d[0] || O(d[k]) == d[1] || O(d[k]) == d[2] || O(d[k]) == d[3])
int k_eigsrt(double *d, double *v)
__CPROVER_requires(__CPROVER_is_fresh(d, 4 * sizeof(double)) && __CPROVER_is_fresh(v, 16 * sizeof(double)) && FIN(d[0]) && FIN(d[1]) && FIN(d[2]) && FIN(d[3])
  && FIN(v[0]) && FIN(v[1]) && FIN(v[2]) && FIN(v[3]) && FIN(v[4]) && FIN(v[5]) && FIN(v[6]) && FIN(v[7]) && FIN(v[8]) && FIN(v[9]) && FIN(v[10]) && FIN(v[11]) && FIN(v[12]) && FIN(v[13]) && FIN(v[14]) && FIN(v[15]))
__CPROVER_assigns(__CPROVER_object_whole(e_d), __CPROVER_object_whole(d), __CPROVER_object_whole(v))
__CPROVER_ensures(__CPROVER_return_value == 0)
__CPROVER_ensures(d[0] >= d[1] && d[1] >= d[2] && d[2] >= d[3])
__CPROVER_ensures(COL_OK(0) && COL_OK(1) && COL_OK(2) && COL_OK(3))
__CPROVER_ensures(KEPT(0) && KEPT(1) && KEPT(2) && KEPT(3))
;
#endif

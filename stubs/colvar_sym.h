// Stub of class colvar over symbolic reals: pure queries are uninterpreted call nodes f(tag, args);
// mutators forward to contract-specified logging functions (tag, node of the operand).
#ifndef CVS_COLVAR_SYM_H
#define CVS_COLVAR_SYM_H
#include <colvarvalue_sym.h>
extern "C" void k_add_bias_force(int cv_tag, int node);
extern "C" void k_add_bias_force_actual_value(int cv_tag, int node);
extern "C" int k_cv_is_enabled(int cv_tag, int f);
struct colvar {
  int tag;
  cvm::real width;
  bool is_enabled(int f) const { return k_cv_is_enabled(tag, f) != 0; }
  void add_bias_force(colvarvalue const &force) { k_add_bias_force(tag, force.real_value.nid()); }
  void add_bias_force_actual_value(colvarvalue const &force) { k_add_bias_force_actual_value(tag, force.real_value.nid()); }
  colvarvalue value() const { colvarvalue r(sreal_call(CID_VALUE, tag)); return r; }
  colvarvalue actual_value() const { colvarvalue r(sreal_call(CID_ACTUAL_VALUE, tag)); return r; }
  cvm::real dist2(colvarvalue const &x1, colvarvalue const &x2) const { return sreal_call(CID_DIST2, tag, x1.real_value.nid(), x2.real_value.nid()); }
  colvarvalue dist2_lgrad(colvarvalue const &x1, colvarvalue const &x2) const { colvarvalue r(sreal_call(CID_DIST2_LGRAD, tag, x1.real_value.nid(), x2.real_value.nid())); return r; }
  colvarvalue dist2_rgrad(colvarvalue const &x1, colvarvalue const &x2) const { colvarvalue r(sreal_call(CID_DIST2_RGRAD, tag, x1.real_value.nid(), x2.real_value.nid())); return r; }
  void wrap(colvarvalue &x) const { x.real_value = sreal_call(CID_WRAP, tag, x.real_value.nid()); }
};
#endif

// Frame TU for colvardeps (C13).  Bodies sliced verbatim from src/colvardeps.cpp.
#include <vector>
#include <cvm_stub.h>
#include <cvs_echo.h>
#define NF 4
extern "C" { extern int e_d[40]; }
extern "C" int k_decr_self(int fid);
extern "C" int k_decr_child(int child, int fid);
extern "C" void k_free_children_deps();
extern "C" int k_disable_stub(int fid);
static inline void cvm_increase_depth() {}

struct DepsF {
  enum feature_type
#include "feature_type.body.inc"
  ;
  struct feature_state {
    bool available;                       //@real colvardeps.h
    bool enabled;                         //@real colvardeps.h
    int ref_count;                        //@real colvardeps.h
    std::vector<int> alternate_refs;      //@real colvardeps.h
  };
  struct feature {
    std::vector<int> requires_self;       //@real colvardeps.h
    std::vector<int> requires_exclude;    //@real colvardeps.h
    std::vector<int> requires_children;   //@real colvardeps.h
    inline bool is_dynamic()
#include "feature_is_dynamic.body.inc"
    feature_type type;                    //@real colvardeps.h
  };
  struct child_t {                        // stands for a child colvardeps object
    int tag;
    int decr_ref_count(int g) { return k_decr_child(tag, g); }
  };
  std::vector<feature_state> feature_states;   //@real colvardeps.h
  mutable std::vector<feature *> feats_;
  std::vector<feature *> const &features() const { return feats_; }   // stands for the virtual features()
  std::vector<child_t *> children;        // real: std::vector<colvardeps *> children;
  inline bool is_enabled(int f = 0) const
#include "is_enabled.body.inc"
};

struct K_disable : DepsF {
  int decr_ref_count(int fid) { return k_decr_self(fid); }
  void free_children_deps() { k_free_children_deps(); }
  int feature_id;
  int body()
#include "disable.body.inc"
};
struct K_decr : DepsF {
  int disable(int fid) { return k_disable_stub(fid); }
  int feature_id;
  int body()
#include "decr_ref_count.body.inc"
};

// a dependent comes (the already-enabled branch of enable(), as a dependency: toplevel == false) and goes (decr_ref_count)
struct K_lem : DepsF {
  int disable(int fid) { return k_disable_stub(fid); }
  int feature_id;
  int en_body(bool dry_run, bool toplevel, feature_state *fs, feature *f)
#include "enable_enabled.body.inc"
  int body()
#include "decr_ref_count.body.inc"
};
// state layout (ints): per feature k in 0..NF-1: st[4k+0]=enabled st[4k+1]=ref_count st[4k+2]=type st[4k+3]=available
// target feature fid: rs[0..nrs) requires_self, ar[0..*nar) alternate_refs (in/out), rc[0..nrc) requires_children; nch children
#define LOAD_STATES(f) \
  DepsF::feature_state fs[NF]; DepsF::feature ft[NF]; DepsF::feature *fp[NF]; DepsF::child_t ch[2]; DepsF::child_t *chp[2]; \
  for (int k = 0; k < NF; k++) { fs[k].enabled = st[4*k] != 0; fs[k].ref_count = st[4*k+1]; ft[k].type = (DepsF::feature_type) st[4*k+2]; fs[k].available = st[4*k+3] != 0; \
    fs[k].alternate_refs.p_ = 0; fs[k].alternate_refs.n_ = 0; fs[k].alternate_refs.cap_ = 0; \
    ft[k].requires_self.p_ = 0; ft[k].requires_self.n_ = 0; ft[k].requires_self.cap_ = 0; ft[k].requires_children.p_ = 0; ft[k].requires_children.n_ = 0; ft[k].requires_children.cap_ = 0; \
    ft[k].requires_exclude.p_ = 0; ft[k].requires_exclude.n_ = 0; ft[k].requires_exclude.cap_ = 0; fp[k] = &ft[k]; } \
  ch[0].tag = 0; ch[1].tag = 1; chp[0] = &ch[0]; chp[1] = &ch[1]; \
  CVS_VIEW(f.feature_states, fs, NF); CVS_VIEW(f.feats_, fp, NF); CVS_VIEW(f.children, chp, nch); \
  for (int k = 0; k < 4 * NF; k++) e_d[k] = st[k];
#define STORE_STATES() for (int k = 0; k < NF; k++) { st[4*k] = fs[k].enabled; st[4*k+1] = fs[k].ref_count; }

extern "C" int k_disable(int fid, int *st, int *rs, size_t nrs, int *ar, size_t *nar, int *rc, size_t nrc, size_t nch) {
  K_disable f; LOAD_STATES(f);
  CVS_VIEW(ft[fid].requires_self, rs, nrs); CVS_VIEW(fs[fid].alternate_refs, ar, *nar); fs[fid].alternate_refs.cap_ = 2; CVS_VIEW(ft[fid].requires_children, rc, nrc);
  e_d[16] = fid; e_d[17] = (int) nrs; e_d[18] = (int) *nar; e_d[19] = (int) nrc; e_d[20] = (int) nch;
  for (int k = 0; k < 2; k++) { e_d[21 + k] = rs[k]; e_d[23 + k] = ar[k]; e_d[25 + k] = rc[k]; }
  f.feature_id = fid;
  int r = f.body();
  STORE_STATES(); *nar = fs[fid].alternate_refs.n_;
  return r;
}
extern "C" int k_decr_ref_count(int fid, int *st) {
  size_t nch = 0;
  K_decr f; LOAD_STATES(f); e_d[16] = fid;
  f.feature_id = fid;
  int r = f.body();
  STORE_STATES();
  return r;
}

extern "C" int k_toplevel_survives(int fid, int *st) {
  size_t nch = 0;
  K_lem f; LOAD_STATES(f); e_d[16] = fid; f.feature_id = fid;
  int r1 = f.en_body(false, false, &fs[fid], &ft[fid]);
  e_d[30] = fs[fid].ref_count;
  int r2 = f.body();
  STORE_STATES();
  return r1 | r2;
}

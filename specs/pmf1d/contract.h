/* Contract for the 1-D branch of integrate_potential::integrate (C16), symbolic reals, 1 to 3 gradient bins.
   PMF[0] = 0;  PMF[k] = PMF[k-1] + (g[k-1] - corr) * width,  g[j] the (smoothed as configured) bin-averaged gradient of bin j,
   corr = the mean gradient for a periodic variable (so that the surface is periodic) and 0 otherwise.
   A non-periodic PMF has one more point than the gradient grid (all ng+1 are set); a periodic one has ng points. */
#ifndef PMF1D_CONTRACT_H
#define PMF1D_CONTRACT_H
#include <stddef.h>
#include "../common/term.h"
extern int g_node[16]; extern int e_l[8];
extern int g_throw, g_debug; extern unsigned g_errors, g_error_bits;
#define CID_AVG (CID_USER + 1)
#define CID_VAL (CID_USER + 2)
#define N(k) g_node[k]
static int t_op(int n) { return TVALID(n) ? g_top(n) : -1; }
static int t_a(int n) { return TVALID(n) ? g_ta(n) : -2; }
static int t_b(int n) { return TVALID(n) ? g_tb(n) : -2; }
static _Bool is_leaf(int n, double x) { return P_LEAF(n, x); }
static _Bool is_val(int n, int j, _Bool smoothed) { return t_op(n) == T_CALL + CID_VAL && t_a(n) == j && t_b(n) == (smoothed ? 1 : 0); }
static _Bool is_corr(int n, _Bool per) { return per ? (t_op(n) == T_CALL + CID_AVG) : is_leaf(n, 0.0); }
static _Bool is_incr(int n, int j, _Bool per, _Bool smoothed) { int d = t_a(n); return t_op(n) == T_MUL && t_b(n) == N(0) && t_op(d) == T_SUB && is_val(t_a(d), j, smoothed) && is_corr(t_b(d), per); }
/* PMF point k (ghost index) */
static _Bool point_ok(int k, int ng, _Bool per, _Bool smoothed) { int npts = per ? ng : ng + 1; int r = N(1 + k);
  if (k >= npts) return r == N(5 + k);                       /* beyond the grid: untouched */
  if (k == 0) return is_leaf(r, 0.0);
  return t_op(r) == T_ADD && t_a(r) == N(k) && is_incr(t_b(r), k - 1, per, smoothed); }
extern int g_k;
int k_integrate_1d(int ng, _Bool per, _Bool smoothed)
__CPROVER_requires(ng >= 1 && ng <= 3 && g_tn == 0 && g_k >= 0 && g_k < 4)
__CPROVER_assigns(__CPROVER_object_whole(g_node), __CPROVER_object_whole(e_l), TERM_FRAME)
__CPROVER_ensures(point_ok(g_k, ng, per, smoothed))
__CPROVER_ensures(__CPROVER_return_value == 0)
;
#endif

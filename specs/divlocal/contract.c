#include "contract.h"
TERM_GHOST_DEFS
int g_gv[8][3], g_w[3], g_div[4], g_div0[4]; int e_l[12]; int g_addr, g_sm_bad, g_ncalls; int g_i[3]; _Bool g_per[3]; int g_nd;
int g_throw, g_debug, g_vec_alloc; unsigned g_errors, g_error_bits; size_t g_alloc_bytes;
long long g_step_rel, g_step_abs; int g_sim_continuing, g_sim_running;
size_t nondet_size_t(void); int nondet_int(void); double nondet_double(void); _Bool nondet_bool(void);
double k_floor(double x) { return x; } double k_sqrt(double x) { return x; } double k_pow(double x, double y) { return x; }
double k_boltzmann(void) { return 0.0; } double k_target_temperature(void) { return 0.0; } double k_dt(void) { return 1.0; } int k_same_step(void) { return 0; }
#define H(NAME, ND) void NAME(void) { g_debug = 0; g_tn = 0; g_nd = ND; g_sm_bad = 0; g_ncalls = 0; g_addr = nondet_int(); \
  g_i[0] = nondet_int(); g_i[1] = nondet_int(); g_i[2] = nondet_int(); g_per[0] = nondet_bool(); g_per[1] = nondet_bool(); g_per[2] = nondet_bool(); _Bool sm = nondet_bool(); \
  k_update_div_local_body(ND, g_i[0], g_i[1], g_i[2], g_per[0], g_per[1], g_per[2], sm); \
  if (g_i[0] == 0 && !g_per[0]) __CPROVER_assert(0, "canary: lower non-periodic edge reachable"); \
  if (g_i[1] == 2) __CPROVER_assert(0, "canary: upper non-periodic edge reachable"); \
  if (g_per[0] && g_per[1] && g_i[0] == 1) __CPROVER_assert(0, "canary: periodic interior reachable"); }
H(h_update_div_local_2d, 2)
#define H3(NAME, P0, P1, P2) void NAME(void) { g_debug = 0; g_tn = 0; g_nd = 3; g_sm_bad = 0; g_ncalls = 0; g_addr = nondet_int(); \
  g_i[0] = nondet_int(); g_i[1] = nondet_int(); g_i[2] = nondet_int(); g_per[0] = P0; g_per[1] = P1; g_per[2] = P2; _Bool sm = nondet_bool(); \
  k_update_div_local_body(3, g_i[0], g_i[1], g_i[2], P0, P1, P2, sm); \
  if (g_i[0] == 0) __CPROVER_assert(0, "canary: lowest point of the first dimension reachable"); \
  if (g_i[2] == 1 && g_i[1] == 1) __CPROVER_assert(0, "canary: interior point reachable"); }
H3(h_update_div_local_3d_open, 0, 0, 0)
H3(h_update_div_local_3d_mixed, 1, 0, 1)

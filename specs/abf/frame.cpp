// Frame TU for colvarbias_abf (C04).  Bodies sliced verbatim from src/colvarbias_abf.cpp; update() is sliced up to the
// marker comment "End of ABF proper" (output-prefix strings, UI estimator and calc_energy after it are not under contract).
#define CVS_VEC_SIZED
#include <vector>
#include <cvm_stub.h>
#include <cvs_echo.h>
#include <colvarvalue_sym.h>
enum features_biases
#include "features_biases.body.inc"
;
enum features_colvar
#include "features_colvar.body.inc"
;
extern "C" { extern int e_i[32]; extern int g_node[16]; }
extern "C" int k_current_bin_scalar(int i); extern "C" int k_index_ok(int *ix, size_t n);
extern "C" void k_acc_force(int *ix, size_t n); extern "C" void k_update_div_neighbors_stub(int *ix, size_t n);
extern "C" void k_update_system_force(); extern "C" void k_replica_share(); extern "C" void k_calc_biasing_force_stub();
extern "C" int k_cv_enabled(int tag, int f); extern "C" int k_can_accumulate();
extern "C" void k_vector_value_smoothed(); extern "C" double k_average();

struct count_stub { int current_bin_scalar(int i) const { return k_current_bin_scalar(i); } bool index_ok(std::vector<int> const &ix) const { return k_index_ok(ix.p_, ix.n_) != 0; } cvm::real value(std::vector<int> const &) const { return cvm::real(1.0); } };
struct grad_stub {
  std::vector<bool> periodic;
  void acc_force(std::vector<int> const &ix, cvm::real const *) { k_acc_force(ix.p_, ix.n_); }
  // writes the smoothed mean force of the bin into grad[]: here opaque values published in g_node[0..1]
  void vector_value_smoothed(std::vector<int> const &, cvm::real *grad, bool) { k_vector_value_smoothed(); for (int k = 0; k < 2; k++) { double v = nondet_double(); grad[k] = cvm::real(v); g_node[k] = grad[k].id; } }
  cvm::real average() { double v = k_average(); cvm::real r(v); g_node[2] = r.id; return r; }
};
struct pmf_stub { void update_div_neighbors(std::vector<int> const &ix) { k_update_div_neighbors_stub(ix.p_, ix.n_); } void vector_gradient_finite_diff(std::vector<int> const &, std::vector<cvm::real> &) {}
  int integrate(int, cvm::real, cvm::real &) { return 0; } };
struct cv_stub { int tag; bool is_enabled(int f) const { return k_cv_enabled(tag, f) != 0; } };

struct AbfF {
  bool en_[f_cvb_ntot];
  bool is_enabled(int f = f_cvb_active) const { return en_[f]; }
  bool can_accumulate_data() { return k_can_accumulate() != 0; }
  std::vector<cv_stub *> colvars;            // real: std::vector<colvar *> colvars;
  std::vector<colvarvalue> colvar_forces;    //@real colvarbias.h
  inline size_t num_variables() const
#include "num_variables.body.inc"
  bool    b_integrate;                       //@real colvarbias_abf.h
  int   pabf_freq;                           //@real colvarbias_abf.h
  int       integrate_iterations;            //@real colvarbias_abf.h
  cvm::real integrate_tol;                   //@real colvarbias_abf.h
  bool                    cap_force;         //@real colvarbias_abf.h
  std::vector<cvm::real>  max_force;         //@real colvarbias_abf.h
  std::vector<int>  bin;                     //@real colvarbias_abf.h
  std::vector<int> force_bin;                //@real colvarbias_abf.h
  std::vector<int> z_bin;                    //@real colvarbias_abf.h
  cvm::real *system_force;                   // real: gradient_t system_force;
  grad_stub *gradients;                      // real: std::shared_ptr<colvar_grid_gradient> gradients;
  count_stub *samples;                       // real: std::shared_ptr<colvar_grid_count> samples;
  pmf_stub *pmf;                             // real: std::shared_ptr<integrate_potential>  pmf;
  grad_stub *z_gradients;                    // real: std::shared_ptr<colvar_grid_gradient> z_gradients;
  count_stub *z_samples;                     // real: std::shared_ptr<colvar_grid_count>    z_samples;
  bool    shared_on;                         //@real colvarbias_abf.h
  size_t  shared_freq;                       //@real colvarbias_abf.h
  cvm::step_number shared_last_step;         //@real colvarbias_abf.h
  cvm::real smoothing_factor(cvm::real) { return cvm::real(1.0); }
};
struct K_upd : AbfF {
  int update_system_force() { k_update_system_force(); return 0; }
  int replica_share() { k_replica_share(); return 0; }
  int calc_biasing_force(std::vector<cvm::real> &force) { k_calc_biasing_force_stub(); for (size_t k = 0; k < force.n_ && k < 2; k++) { double v = nondet_double(); force[k] = cvm::real(v); g_node[4 + k] = force[k].id; } return 0; }
  int body()
#include "update.body.inc"
};
struct K_cbf : AbfF {
  std::vector<cvm::real> force;
  int body()
#include "calc_biasing_force.body.inc"
};

static void load(AbfF &f, bool *en, size_t n, cv_stub *cv, cv_stub **cvp, colvarvalue *cf) {
  for (int k = 0; k < f_cvb_ntot; k++) { f.en_[k] = en[k]; e_i[k] = en[k]; }
  for (int k = 0; k < 2; k++) { cv[k].tag = k; cvp[k] = &cv[k]; }
  CVS_VIEW(f.colvars, cvp, n); CVS_VIEW(f.colvar_forces, cf, n); e_i[20] = (int) n;
}
// bins in/out: bin[2], force_bin[2]; out: forces' nodes in g_node[6..7]
extern "C" int k_abf_update(bool *en, size_t n, int *bin, int *force_bin, bool b_integrate) {
  K_upd f; cv_stub cv[2]; cv_stub *cvp[2]; colvarvalue cf[2]; load(f, en, n, cv, cvp, cf);
  count_stub smp; grad_stub gr; pmf_stub pm; cvm::real sysf[2];
  f.samples = &smp; f.gradients = &gr; f.pmf = &pm; f.z_gradients = 0; f.z_samples = 0; f.system_force = sysf;
  f.b_integrate = b_integrate; f.pabf_freq = 0; f.shared_on = false; f.shared_freq = 0; f.shared_last_step = -1; f.cap_force = false;
  CVS_VIEW(f.bin, bin, n); CVS_VIEW(f.force_bin, force_bin, n); f.z_bin.p_ = 0; f.z_bin.n_ = 0; f.z_bin.cap_ = 0;
  for (int k = 0; k < 2; k++) { double v = nondet_double(); cf[k] = colvarvalue(v); e_i[21 + k] = bin[k]; e_i[23 + k] = force_bin[k]; }
  int r = f.body();
  g_node[6] = cf[0].real_value.nid(); g_node[7] = cf[1].real_value.nid();
  return r;
}
extern "C" int k_calc_biasing_force(bool *en, size_t n, bool periodic0, bool cap_force) {
  K_cbf f; cv_stub cv[2]; cv_stub *cvp[2]; colvarvalue cf[2]; load(f, en, n, cv, cvp, cf);
  count_stub smp; grad_stub gr; bool per[2]; per[0] = periodic0; per[1] = false; CVS_VIEW(gr.periodic, per, 2);
  f.samples = &smp; f.gradients = &gr; f.pabf_freq = 0; f.cap_force = cap_force;
  cvm::real frc[2], mf[2]; int b[2] = {0, 0};
  for (int k = 0; k < 2; k++) { double v = nondet_double(); mf[k] = cvm::real(v); g_node[8 + k] = mf[k].id; }
  CVS_VIEW(f.force, frc, n); CVS_VIEW(f.max_force, mf, n); CVS_VIEW(f.bin, b, n);
  e_i[21] = periodic0; e_i[22] = cap_force;
  int r = f.body();
  g_node[10] = frc[0].nid(); g_node[11] = frc[1].nid();
  return r;
}
extern "C" { extern int g_fid[8]; }
extern "C" void cvs_set_fids() { g_fid[0] = f_cvb_apply_force; g_fid[1] = f_cvb_history_dependent; g_fid[2] = f_cv_total_force_current_step; }

B = 'colvarbias.cpp'
def s(name, src, sig): return {'name': name, 'src': src, 'sig': sig, 'inc': name + '.body.inc'}
UNIT = {
 'slices': [
  s('features_biases', 'colvardeps.h', r'enum features_biases'),
  s('num_variables', 'colvarbias.h', r'inline size_t num_variables\(\) const'),
  s('variables', 'colvarbias.h', r'inline colvar \* variables\(int i\) const'),
  s('can_accumulate_data', B, r'bool colvarbias::can_accumulate_data\(\)'),
  s('communicate_forces', B, r'int colvarbias::communicate_forces\(\)'),
 ],
 'assumed': ['colvar::add_bias_force / add_bias_force_actual_value / value are represented by logging stubs (their own bodies are covered in unit colvar_forces)',
             'scalar colvarvalue stand-in; products involving a colvarvalue are uninterpreted and logged (operand provenance; machine arithmetic not interpreted)'],
 'tasks': [
  {'id': 'can_accumulate_data', 'properties': ['C03', 'C15', 'C04', 'C05'], 'slices': ['can_accumulate_data'], 'harness': 'h_can_accumulate_data',
   'enforce': 'k_can_accumulate_data', 'unwind': 20,
   'mutants': [('cvm::step_relative() > 0', 'cvm::step_absolute() > 0'), ('!proxy->simulation_continuing()', 'proxy->simulation_continuing()'), ('||\n', '&&\n')]},
  {'id': 'communicate_forces', 'properties': ['C08', 'C01'], 'slices': ['communicate_forces', 'num_variables', 'variables'], 'harness': 'h_communicate_forces',
   'enforce': 'k_communicate_forces', 'unwind': 20, 'object_bits': 10,
   'replace': ['k_mul', 'k_add_bias_force', 'k_add_bias_force_actual_value', 'k_sf_current_bin_scalar', 'k_sf_index_ok', 'k_sf_value', 'k_cv_value'],
   'bounded': 'at most 3 variables (loop over variables unwound)', 'unwindset': {'K_comm::body.0': 4, 'K_comm::body.1': 4},
   'mutants': [('variables(i)->add_bias_force_actual_value(cvm::real(time_step_factor) * colvar_forces[i]', 'variables(i)->add_bias_force_actual_value(colvar_forces[i]'),
               ('if (! is_enabled(f_cvb_apply_force))', 'if (is_enabled(f_cvb_apply_force))'),
               ('previous_colvar_forces[i] = colvar_forces[i];', ''),
               ('if (is_enabled(f_cvb_bypass_ext_lagrangian))', 'if (!is_enabled(f_cvb_bypass_ext_lagrangian))'),
               ('biasing_force_factor *=', 'biasing_force_factor +=')]},
 ],
}

def s(name, src, sig, **kw): d = {'name': name, 'src': src, 'sig': sig, 'inc': name + '.body.inc'}; d.update(kw); return d
SMP = ('proxy->get_smp_mode() == colvarproxy::smp_mode_t::cvcs', 'k_smp_cvcs() != 0')
UNIT = {
 'cxxflags': ['-DCVS_SREAL'],
 'slices': [
  s('features_colvar', 'colvardeps.h', r'enum features_colvar'),
  s('calc_biases', 'colvarmodule.cpp', r'int colvarmodule::calc_biases\(\)', subst=[SMP], R5=['total_bias_energy']),
  s('update_colvar_forces', 'colvarmodule.cpp', r'int colvarmodule::update_colvar_forces\(\)', R5=['total_colvar_energy']),
 ],
 'assumed': ['symbolic reals; biases and variables are stand-ins: update / communicate_forces / reset_bias_force are logged calls, get_energy() and update_forces_energy() uninterpreted calls tagged by object; the proxy energy sink and the SMP loops are logging stubs',
             'extraction rewrites the scoped-enumerator comparison `proxy->get_smp_mode() == colvarproxy::smp_mode_t::cvcs` into a stub query (front end: no enum class)',
             'at most 2 biases and 2 variables'],
 'tasks': [
  {'id': 'calc_biases', 'properties': ['C08', 'C01'], 'slices': ['calc_biases'], 'harness': 'h_calc_biases', 'enforce': 'k_calc_biases', 'replace': ['k_ev', 'k_smp_cvcs', 'k_rc'], 'unwind': 6, 'unwind_body': 4,
   'bounded': '2 biases, 2 variables (loops unwound)',
   'mutants': [('if ((*bi)->is_enabled()) {\n      biases_active()->push_back(*bi);\n    }', 'biases_active()->push_back(*bi);'), ('total_bias_energy += (*bi)->get_energy();', 'total_bias_energy = (*bi)->get_energy();'),
               ('total_bias_energy = 0.0;', ''), ('(*cvi)->reset_bias_force();', ''), ('for (bi = biases_active()->begin(); bi != biases_active()->end(); bi++) {\n    total_bias_energy', 'for (bi = biases.begin(); bi != biases.end(); bi++) {\n    total_bias_energy')]},
  {'id': 'update_colvar_forces', 'properties': ['C08', 'C01'], 'slices': ['update_colvar_forces'], 'harness': 'h_update_colvar_forces', 'enforce': 'k_update_colvar_forces', 'replace': ['k_ev', 'k_rc'], 'unwind': 6, 'unwind_body': 4,
   'bounded': '2 active biases, 2 variables (loops unwound)',
   'mutants': [('proxy->add_energy(total_bias_energy);', ''), ('total_colvar_energy += (*cvi)->update_forces_energy();', 'total_colvar_energy = (*cvi)->update_forces_energy();'),
               ('if ((*cvi)->is_enabled(colvardeps::f_cv_apply_force)) {', 'if (true) {'), ('for (cvi = variables()->begin(); cvi != variables()->end(); cvi++) {', 'for (cvi = variables_active()->begin(); cvi != variables_active()->end(); cvi++) {')]},
 ],
}

#!/bin/bash
# run every registered check on the current tree (regenerates evidence/*.json); prints one line per property
cd /verif
for p in $(python3 -c "import json;print(' '.join(c['property_id'] for c in json.load(open('MANIFEST.json'))['checks']))"); do
  s=$(date +%s); ./cv check $p > /tmp/runall_$p.log 2>&1; rc=$?; e=$(date +%s)
  echo "$p exit=$rc $((e-s))s $(grep -c '^VIOLATION' /tmp/runall_$p.log) violations $(tail -1 /tmp/runall_$p.log | cut -c1-120)"
done

G = 'colvargrid.h'
INV_IX = 'i <= g_nd && (g_k < i ==> (0 <= g_ix[g_k] && g_ix[g_k] < g_nx[g_k]))'
def inr(k): return '(%d < i ==> (0 <= g_ix[%d] && g_ix[%d] < g_nx[%d]))' % (k, k, k, k)
def gir(k): return '(0 <= g_ix[%s] && g_ix[%s] < g_nx[%s])' % (k, k, k)
def nonper_bad(k): return '(%d < i && !g_per[%d] && !%s)' % (k, k, gir(k))
WDE_INV = ('i <= g_nd && (edge == 0 || edge == 1)'
  ' && ((g_k < g_nd && g_k < i && g_per[g_k]) ==> (%s && (g_ix[g_k] == g_old_k || g_ix[g_k] == g_old_k + g_nx[g_k] || g_ix[g_k] == g_old_k - g_nx[g_k])))'
  ' && ((g_k < g_nd && g_k < i && !g_per[g_k]) ==> (g_ix[g_k] == g_old_k && (!edge ==> %s)))'
  ' && ((g_k < g_nd && g_k >= i) ==> g_ix[g_k] == g_old_k)'
  ' && (__CPROVER_forall { unsigned long k; (i <= k && k < g_nd) ==> (g_ix[k] >= -g_nx[k] && g_ix[k] < 2 * g_nx[k]) })'
  ' && ((edge && g_nd <= 3) ==> (%s || %s || %s))') % (gir('g_k'), gir('g_k'), nonper_bad(0), nonper_bad(1), nonper_bad(2))
UNIT = {
 'slices': [
  {'name': 'index_ok', 'src': G, 'sig': r'inline bool index_ok\(std::vector<int> const &ix\) const', 'inc': 'index_ok.body.inc'},
  {'name': 'incr', 'src': G, 'sig': r'inline void incr\(std::vector<int> &ix\) const', 'inc': 'incr.body.inc'},
  {'name': 'wrap', 'src': G, 'sig': r'inline void wrap\(std::vector<int> & ix\) const', 'inc': 'wrap.body.inc'},
  {'name': 'wrap_detect_edge', 'src': G, 'sig': r'inline bool wrap_detect_edge\(std::vector<int> & ix\) const', 'inc': 'wrap_detect_edge.body.inc'},
  {'name': 'address', 'src': G, 'sig': r'inline size_t address\(std::vector<int> const &ix\) const', 'inc': 'address.body.inc'},
 ],
 'tasks': [
  {'id': 'index_ok', 'properties': ['C15'], 'slices': ['index_ok'], 'harness': 'h_index_ok', 'enforce': 'k_index_ok',
   'nloops': {'K_index_ok::body': 1},
   'loops': [{'function': 'K_index_ok::body', 'loop_id': 0, 'assigns': 'i', 'locals': {'i': 'i'},
              'invariants': INV_IX + ' && (g_nd <= 3 ==> (%s && %s && %s))' % (inr(0), inr(1), inr(2)),
              'decreases': 'g_nd - i'}],
   'mutants': [('ix[i] < 0', 'ix[i] < -1'), ('ix[i] >= int(nx[i])', 'ix[i] > int(nx[i])'), ('return false', 'return true'), ('i < nd', 'i + 1 < nd')],
  },
  {'id': 'wrap_detect_edge', 'properties': ['C15', 'C16'], 'slices': ['wrap_detect_edge'], 'harness': 'h_wrap_detect_edge',
   'enforce': 'k_wrap_detect_edge', 'bounded': 'nd <= 3 (loop over dimensions unwound)', 'unwindset': {'K_wrap_detect_edge::body.0': 4},
   'mutants': [('(ix[i] + nx[i]) % nx[i]', '(ix[i] + nx[i] + 1) % nx[i]'), ('ix[i] >= nx[i]', 'ix[i] > nx[i]'), ('edge = true', 'edge = false'),
               ('ix[i] < 0 ||', 'ix[i] < -1 ||')]},
  {'id': 'wrap', 'properties': ['C15', 'C16'], 'slices': ['wrap'], 'harness': 'h_wrap',
   'enforce': 'k_wrap', 'bounded': 'nd <= 3 (loop over dimensions unwound)', 'unwindset': {'K_wrap::body.0': 4},
   'mutants': [('(ix[i] + nx[i]) % nx[i]', '(ix[i] + nx[i] - 1) % nx[i]'), ('ix[i] >= nx[i]', 'ix[i] > nx[i]'), ('if (periodic[i])', 'if (!periodic[i])')]},
  {'id': 'incr', 'properties': ['C15'], 'slices': ['incr'], 'harness': 'h_incr',
   'enforce': 'k_incr', 'bounded': 'nd <= 3 (loop over dimensions unwound)', 'unwindset': {'K_incr::body.0': 4},
   'mutants': [('ix[i] >= nx[i]', 'ix[i] > nx[i]'), ('ix[i] = 0;', 'ix[i] = 1;'), ('ix[0] = nx[0];', 'ix[0] = 0;'), ('i > 0', 'i > 1')]},
  {'id': 'address', 'properties': ['C15'], 'slices': ['address'], 'harness': 'h_address',
   'enforce': 'k_address', 'bounded': 'nd <= 3 (loop over dimensions unwound)', 'unwindset': {'K_address::body.0': 4},
   'mutants': [('i < nd', 'i <= nd')]},
 ],
}

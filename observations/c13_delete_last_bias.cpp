#include <cmath>
#include <iostream>
#include <vector>
#include "colvarmodule.h"
#include "colvarproxy.h"
#include "colvarbias.h"
#include "colvar.h"
#include "colvarproxy_stub.h"
#include "colvarproxy_stub.cpp"
static void step(colvarproxy_stub *p, long s, double x) { std::vector<cvm::atom_pos> &pos = *(p->modify_atom_positions()); pos[0] = cvm::atom_pos(0, 0, 0); pos[1] = cvm::atom_pos(x, 0, 0); p->colvars->it = s; p->colvars->calc(); }
int main() {
  colvarproxy_stub *p = new colvarproxy_stub(); p->set_unit_system("real", false); p->colvars->setup_input(); p->colvars->setup_output(); for (int a = 0; a < 2; a++) p->init_atom(a + 1);
  if (p->colvars->read_config_string("colvarsTrajFrequency 0\ncolvarsRestartFrequency 0\ncolvar {\n  name d\n  distance {\n    group1 { atomNumbers 1 }\n    group2 { atomNumbers 2 }\n  }\n}\n"
     "harmonic {\n  name h\n  colvars d\n  forceConstant 2.0\n  centers 1.0\n}\n")) return 2;
  step(p, 0, 3.0); std::cout << "with bias: d = " << colvarmodule::colvar_by_name("d")->value().real_value << " active " << colvarmodule::colvar_by_name("d")->is_enabled() << "\n";
  delete colvarmodule::bias_by_name("h");
  step(p, 1, 4.0); std::cout << "after deleting the bias: d = " << colvarmodule::colvar_by_name("d")->value().real_value << " (atoms at distance 4) active " << colvarmodule::colvar_by_name("d")->is_enabled() << "\n";
  // reference: never had a bias
  colvarproxy_stub *q = new colvarproxy_stub(); q->set_unit_system("real", false); q->colvars->setup_input(); q->colvars->setup_output(); for (int a = 0; a < 2; a++) q->init_atom(a + 1);
  q->colvars->read_config_string("colvarsTrajFrequency 0\ncolvarsRestartFrequency 0\ncolvar {\n  name d\n  distance {\n    group1 { atomNumbers 1 }\n    group2 { atomNumbers 2 }\n  }\n}\n");
  step(q, 1, 4.0); std::cout << "never had a bias: d = " << colvarmodule::colvar_by_name("d")->value().real_value << " active " << colvarmodule::colvar_by_name("d")->is_enabled() << "\n";
}

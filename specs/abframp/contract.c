#include "contract.h"
TERM_GHOST_DEFS
int g_node[16]; long long e_l[8]; size_t g_count;
int g_throw, g_debug, g_vec_alloc; unsigned g_errors, g_error_bits; size_t g_alloc_bytes;
long long g_step_rel, g_step_abs; int g_sim_continuing, g_sim_running;
size_t nondet_size_t(void); int nondet_int(void); double nondet_double(void); _Bool nondet_bool(void);
double k_floor(double x) { return x; } double k_sqrt(double x) { return x; } double k_pow(double x, double y) { return x; }
double k_boltzmann(void) { return 0.0; } double k_target_temperature(void) { return 0.0; } double k_dt(void) { return 1.0; } int k_same_step(void) { return 0; }
void h_smooth_inverse_weight(void) { g_debug = 0; g_tn = 0; double w = nondet_double(); int a = nondet_int(), b = nondet_int(); k_smooth_inverse_weight(w, a, b);
  if (w > (double) a && w < (double) b) __CPROVER_assert(0, "canary: ramp region reachable");
  if (w <= (double) a) __CPROVER_assert(0, "canary: below minSamples reachable"); }
void h_vector_value_smoothed(void) { g_debug = 0; g_tn = 0; g_count = nondet_size_t(); int a = nondet_int(), b = nondet_int(); _Bool hs = nondet_bool(), sm = nondet_bool(); k_vector_value_smoothed(a, b, hs, sm);
  if (hs && sm && (double) g_count > (double) a && (double) g_count < (double) b) __CPROVER_assert(0, "canary: ramped bin reachable");
  if (hs && !sm && g_count == 0) __CPROVER_assert(0, "canary: empty bin without smoothing reachable"); }
void h_value_output_smoothed(void) { g_debug = 0; g_tn = 0; g_count = nondet_size_t(); int a = nondet_int(), b = nondet_int(); _Bool hs = nondet_bool(), sm = nondet_bool(); k_value_output_smoothed(a, b, hs, sm);
  if (hs && sm && (double) g_count >= (double) b) __CPROVER_assert(0, "canary: fully sampled bin reachable"); }

#include "contract.h"
TERM_GHOST_DEFS
double e_d[32]; int g_node[8];
int g_throw, g_debug, g_vec_alloc; unsigned g_errors, g_error_bits; size_t g_alloc_bytes;
long long g_step_rel, g_step_abs; int g_sim_continuing, g_sim_running;
int nondet_int(void);
double k_floor(double x) { return x; } double k_sqrt(double x) { return x; } double k_pow(double x, double y) { return x; }
double k_boltzmann(void) { return 0.0; } double k_target_temperature(void) { return 0.0; } double k_dt(void) { return 1.0; } int k_same_step(void) { return 0; }
void h_position_distance(void) { g_debug = 0; g_tn = 0; g_errors = 0; double *in; int b = nondet_int(); k_position_distance(b, in);
  if (b == 2) __CPROVER_assert(0, "canary: triclinic cell reachable"); if (b == 0) __CPROVER_assert(0, "canary: non-periodic reachable"); }

// Frame TU for configuration bookkeeping (C09 keyword registry, C10 auto-generated configuration and pairlist frequency).
// Bodies / statement ranges sliced verbatim from src/colvarparse.cpp, src/colvarmodule.cpp, src/colvarcomp_coordnums.cpp.
#define CVS_SMAX 6
#include <vector>
#include <string>
#include <list>
#include <cvm_stub.h>
#include <cvs_echo.h>
extern "C" { extern int e_i[16]; }
extern "C" int k_stage(int which, int extra_len); extern "C" int k_get_keyval_int(int *v); extern "C" void k_alloc_pairlist(); extern "C" void k_cite();
namespace std { template <class K, class V> struct map { size_t n_; void clear() { n_ = 0; } size_t size() const { return n_; } }; }
struct K_ckr {
  enum key_set_mode { key_not_set = 0, key_set_user = 1, key_set_default = 2 };
  std::list<std::string> allowed_keywords;                 //@real colvarparse.h
  std::map<std::string, key_set_mode> key_set_modes;       //@real colvarparse.h
  std::list<size_t>      data_begin_pos;                   //@real colvarparse.h
  std::list<size_t>      data_end_pos;                     //@real colvarparse.h
  void body()
#include "clear_keyword_registry.body.inc"
};
// colvarmodule::parse_config: every stage is a logging stub that is told the current length of extra_conf
struct parse_stub { std::string *extra; int check_keywords(std::string const &, char const *) { return k_stage(5, (int) extra->n_); } };
struct colvarparse_s { static int check_braces(std::string const &, size_t) { return k_stage(0, -1); } static int check_ascii(std::string const &) { return 0; } };
#define colvarparse colvarparse_s
struct colvarmodule_pc : colvarmodule { static int line_marker_dummy; };
struct K_pc {
  std::string extra_conf;            //@real colvarmodule.h
  std::string source_Tcl_script;     //@real colvarmodule.h
  parse_stub *parse;                 // real: colvarparse *parse;
  std::string conf;
  int parse_global_params(std::string const &) { return k_stage(1, (int) extra_conf.n_); }
  int parse_colvars(std::string const &) { return k_stage(2, (int) extra_conf.n_); }
  int parse_biases(std::string const &) { return k_stage(3, (int) extra_conf.n_); }
  bool catch_input_errors(int rc) { return rc != 0; }
  int get_error() { return (int) g_error_bits; }
  int run_tcl_script(std::string const &) { return 0; }
  int body()
#include "parse_config.body.inc"
};
#undef colvarparse
struct K_pl {
  std::string conf; int pairlist_freq; bool b_group2_center_only;
  bool get_keyval(std::string const &, char const *, int &v, int const &def) { return k_get_keyval_int(&v) != 0; }
  int body()
#include "coordnum_pairlist.body.inc"
};
extern "C" int k_clear_keyword_registry(size_t a, size_t b, size_t c, size_t d) {
  K_ckr f; f.allowed_keywords.p_ = 0; f.allowed_keywords.n_ = a; f.key_set_modes.n_ = b; f.data_begin_pos.p_ = 0; f.data_begin_pos.n_ = c; f.data_end_pos.p_ = 0; f.data_end_pos.n_ = d;
  f.body();
  return (int) (f.allowed_keywords.n_ + f.key_set_modes.n_ + f.data_begin_pos.n_ + f.data_end_pos.n_);
}
extern "C" int k_parse_config(size_t stale_extra_len) {
  K_pc f; parse_stub ps; ps.extra = &f.extra_conf; f.parse = &ps; f.extra_conf.n_ = stale_extra_len; f.extra_conf.b_[stale_extra_len] = 0; f.source_Tcl_script.n_ = 0; e_i[0] = (int) stale_extra_len;
  return f.body();
}
extern "C" int k_coordnum_pairlist(int *freq) { K_pl f; f.pairlist_freq = *freq; f.b_group2_center_only = false; int r = f.body(); *freq = f.pairlist_freq; e_i[0] = *freq; return r; }

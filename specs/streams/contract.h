#ifndef STREAMS_CONTRACT_H
#define STREAMS_CONTRACT_H
#include <stddef.h>
extern long e_l[16]; extern long g_pos; extern int g_state;
extern int g_throw, g_debug; extern unsigned g_errors, g_error_bits;
#define O(x) __CPROVER_old(x)
/* hill_stream_error (C14): after a failed read of a hill record -- the stream may already be at end-of-file with failbit set, as
   happens when a peer's last record is only partly on disk -- the stream is REWOUND to the start of that record (so that the record
   is read again once complete) and flagged as failed; the error is reported */
int k_hill_stream_error(size_t start_pos)
__CPROVER_requires(start_pos <= 1000000000 && g_pos >= 0 && g_pos <= 1000000000 && g_state >= 0 && g_state <= 7)
__CPROVER_assigns(__CPROVER_object_whole(e_l), g_pos, g_state, g_errors, g_error_bits)
__CPROVER_ensures(g_pos == (long) start_pos && (g_state & 4) != 0 && g_errors == O(g_errors) + 1)
;
/* read_objects_state, text format (C03): a state block of some type is offered to the objects of that type in order; an object whose
   name does not match rewinds the stream and returns success; the matching object consumes the block.  Every object up to and
   including the matching one is asked, in order, exactly once, whatever its position in the list; an unclaimed block is discarded once. */
extern int g_match, g_match_ok, g_first_word; extern int g_nrs, g_rs_kind[6], g_rs_tag[6], g_ndiscard, g_nwords;
int k_next_word(void) __CPROVER_requires(g_nwords < 100) __CPROVER_assigns(g_nwords) __CPROVER_ensures(g_nwords == O(g_nwords) + 1 && __CPROVER_return_value == (O(g_nwords) == 0 ? g_first_word : 0));
int k_obj_read_state(int kind, int tag) __CPROVER_requires(0 <= g_nrs && g_nrs < 6 && g_pos < 1000000000)
  __CPROVER_assigns(g_nrs, g_rs_kind[g_nrs], g_rs_tag[g_nrs], g_pos, g_state)
  __CPROVER_ensures(g_nrs == O(g_nrs) + 1 && g_rs_kind[g_nrs - 1] == kind && g_rs_tag[g_nrs - 1] == tag)
  __CPROVER_ensures((kind == 2 && tag == g_match) ? (g_pos == O(g_pos) + 10 && g_state == O(g_state) && __CPROVER_return_value == g_match_ok)
                                                   : (g_pos == O(g_pos) && g_state == O(g_state) && __CPROVER_return_value == 1));
void k_discard_block(void) __CPROVER_requires(g_ndiscard < 4 && g_pos < 1000000000) __CPROVER_assigns(g_ndiscard, g_pos) __CPROVER_ensures(g_ndiscard == O(g_ndiscard) + 1 && g_pos == O(g_pos) + 10);
int k_read_objects_state(void)
__CPROVER_requires(g_pos >= 0 && g_pos <= 1000 && g_state == 0 && g_nrs == 0 && g_ndiscard == 0 && g_nwords == 0 && g_first_word == 2 && g_match >= -1 && g_match <= 1 && (g_match_ok == 0 || g_match_ok == 1) && g_debug == 0)
__CPROVER_assigns(__CPROVER_object_whole(e_l), g_pos, g_state, g_nrs, __CPROVER_object_whole(g_rs_kind), __CPROVER_object_whole(g_rs_tag), g_ndiscard, g_nwords, g_errors, g_error_bits)
__CPROVER_ensures(g_match == 0 ==> (g_nrs == 1 && g_rs_kind[0] == 2 && g_rs_tag[0] == 0 && g_ndiscard == 0))
__CPROVER_ensures(g_match == 1 ==> (g_nrs == 2 && g_rs_tag[0] == 0 && g_rs_kind[1] == 2 && g_rs_tag[1] == 1 && g_ndiscard == 0))
__CPROVER_ensures(g_match == -1 ==> (g_nrs == 2 && g_ndiscard == 1))
__CPROVER_ensures(g_errors == O(g_errors) + ((g_match >= 0 && !g_match_ok) ? 1 : 0))
;
#endif

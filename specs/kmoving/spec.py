R = 'colvarbias_restraint.cpp'
def s(name, src, sig, **kw): d = {'name': name, 'src': src, 'sig': sig, 'inc': name + '.body.inc'}; d.update(kw); return d
UNIT = {
 'cxxflags': ['-DCVS_SREAL', '-DCVS_STEP_T=int'], 'cflags': ['-DCVS_STEP_T=int'],
 'slices': [
  s('features_biases', 'colvardeps.h', r'enum features_biases'),
  s('k_moving_update', R, r'int colvarbias_restraint_k_moving::update\(\)', R5=['dU_dk', 'restraint_FE']),
  s('k_moving_update_acc_work', R, r'int colvarbias_restraint_k_moving::update_acc_work\(\)', R5=['dU_dk', 'acc_work']),
 ],
 'assumed': ['symbolic reals; d_restraint_potential_dk(i) and pow are uninterpreted calls; one variable; 32-bit step numbers; staged schedule with stage length 10 and at most one stage'],
 'tasks': [
  {'id': 'k_moving_update_cont', 'properties': ['C06', 'C19'], 'slices': ['k_moving_update'], 'harness': 'h_k_moving_update_cont', 'enforce': 'k_k_moving_update', 'unwind': 20, 'object_bits': 10, 'unwind_body': 3,
   'mutants': [('force_k_incr = force_k - force_k_old;', 'force_k_incr = force_k_old - force_k;'), ('if (b_decoupling) lambda = 1.0 - lambda;\n      cvm::real const force_k_old', 'cvm::real const force_k_old'), ('force_k_incr = 0.0;', '')]},
  {'id': 'k_moving_update_staged', 'properties': ['C06', 'C03'], 'slices': ['k_moving_update'], 'harness': 'h_k_moving_update_staged', 'enforce': 'k_k_moving_update', 'unwind': 20, 'object_bits': 10, 'unwind_body': 3,
   'solvers': ['kissat'], 'timeout': 1200, 'bounded': 'stage length 10, at most one stage, 32-bit steps',
   'mutants': [('cvm::step_absolute() > first_step &&\n           cvm::step_relative() > 0) {', 'cvm::step_absolute() > first_step) {'), ('restraint_FE = 0.0;\n          stage++;', 'stage++;')]},
  {'id': 'k_moving_update_acc_work', 'properties': ['C06', 'C19'], 'slices': ['k_moving_update_acc_work'], 'harness': 'h_k_moving_update_acc_work', 'enforce': 'k_k_moving_update_acc_work', 'unwind': 20, 'object_bits': 10, 'unwind_body': 3,
   'mutants': [('if (cvm::step_relative() > 0) {', 'if (true) {'), ('acc_work += dU_dk * force_k_incr;', 'acc_work += dU_dk * force_k;')]},
 ],
}

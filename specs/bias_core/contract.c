#include "contract.h"
int e_en[32]; size_t e_n; double e_cf[4]; int e_tsf;
int g_throw, g_debug, g_vec_alloc; unsigned g_errors, g_error_bits; size_t g_alloc_bytes;
long long g_step_rel, g_step_abs; int g_sim_continuing, g_sim_running;
COLVAR_GHOST_DEFS
double g_sf; int g_sf_ok;
size_t nondet_size_t(void); int nondet_int(void); double nondet_double(void); long long nondet_ll(void);
double k_floor(double x) { return x; } double k_sqrt(double x) { return x; }

void h_can_accumulate_data(void) {
  _Bool *en; g_step_rel = nondet_ll(); g_step_abs = nondet_ll(); g_sim_continuing = nondet_int(); g_sim_running = nondet_int();
  int r = k_can_accumulate_data(en);
  if (r) __CPROVER_assert(0, "canary: can_accumulate_data can be true");
  if (!r) __CPROVER_assert(0, "canary: can_accumulate_data can be false");
}
void h_communicate_forces(void) {
  _Bool *en; double *cf, *pcf; g_sf = nondet_double(); g_sf_ok = nondet_int(); g_debug = 0;
  __CPROVER_assume(g_sf_ok == 0 || g_sf_ok == 1);
  size_t n = nondet_size_t();
  k_communicate_forces(en, n, cf, pcf, nondet_int());
  if (n == 3 && g_ncalls_fb == 3) __CPROVER_assert(0, "canary: three ordinary force calls reachable");
  if (n == 2 && g_ncalls_fba == 2) __CPROVER_assert(0, "canary: two actual-value force calls reachable");
}

// Frame TU for colvar::calc_runave (C19: running average and standard deviation).  Two statement ranges sliced verbatim from src/colvar.cpp:
// the computation of mean and variance over the stored window, and the statement that pushes the current value into the window.
#include <vector>
#include <list>
#include <cvm_stub.h>
#include <cvs_echo.h>
#include <colvarvalue_sym.h>
#define CID_SELF_DIST2 (CID_USER + 3)
extern "C" { extern int e_i[16]; extern int g_node[16]; }
extern "C" void k_history_add_value(size_t history_length, size_t size_before);
struct K_ra {
  colvarvalue    runave;                    //@real colvar.h
  cvm::real      runave_variance;           // real: cvm::real      runave_variance = 0.0;
  size_t         runave_length;             //@real colvar.h
  colvarvalue x;                            //@real colvar.h
  std::list<colvarvalue> *x_history_p;      // real: std::list< std::list<colvarvalue> >::iterator x_history_p;
  cvm::real dist2(colvarvalue const &a, colvarvalue const &b) const { return sreal_call(CID_SELF_DIST2, a.real_value.nid(), b.real_value.nid()); }
  void body()
#include "runave_compute.body.inc"
};
static void history_add_value(size_t const &history_length, std::list<colvarvalue> &history, colvarvalue const &) { k_history_add_value(history_length, history.n_); }
struct K_rp {
  size_t         runave_length;             //@real colvar.h
  colvarvalue x;
  std::list<colvarvalue> *x_history_p;
  void body()
#include "runave_push.body.inc"
};
extern "C" int k_runave_compute(size_t L) {
  K_ra f; colvarvalue h[3]; std::list<colvarvalue> lst; g_tn = 0;
  double vx = nondet_double(); f.x = colvarvalue(vx); g_node[0] = f.x.real_value.id;
  for (int k = 0; k < 2; k++) { double v = nondet_double(); h[k] = colvarvalue(v); g_node[1 + k] = h[k].real_value.id; }
  lst.p_ = h; lst.n_ = L - 1; f.x_history_p = &lst; f.runave_length = L; e_i[0] = (int) L;
  f.body();
  g_node[4] = f.runave.real_value.nid(); g_node[5] = f.runave_variance.nid();
  return 0;
}
extern "C" int k_runave_push(size_t L, size_t size_before) { K_rp f; std::list<colvarvalue> lst; lst.p_ = 0; lst.n_ = size_before; f.x_history_p = &lst; f.runave_length = L; e_i[0] = (int) L; e_i[1] = (int) size_before; f.body(); return 0; }

/* Contract for colvarbias_histogram::update (C15, C03), one variable.
   A sample is added to the histogram only at a step at which data may be accumulated (not the repeated first step of a run segment,
   can_accumulate_data()), only when its bin lies inside the grid, to the bin of THAT sample, with weight 1 for a scalar variable and
   weights[iv] for element iv of a vector variable.
   The eligibility guard is claimed for scalar variables only: the vector branch has no such guard in the code, but that branch cannot be reached
   through the public API at this commit (enabling the grid feature on a vector variable fails: f_cv_grid requires f_cv_scalar), so no failing
   input exists and nothing is reported; the branch's bins and weights are specified for eligible steps. */
#ifndef HISTO_CONTRACT_H
#define HISTO_CONTRACT_H
#include <stddef.h>
extern int e_l[8]; extern int g_bin[2]; extern int g_ok[2]; extern int g_can;
extern int g_throw, g_debug; extern unsigned g_errors, g_error_bits;
extern int g_nacc, g_acc_bin[4]; extern double g_acc_w[4];
void k_acc(int bin, double w) __CPROVER_requires(0 <= g_nacc && g_nacc < 4) __CPROVER_assigns(g_nacc, g_acc_bin[g_nacc], g_acc_w[g_nacc])
  __CPROVER_ensures(g_nacc == __CPROVER_old(g_nacc) + 1 && g_acc_bin[g_nacc - 1] == bin && g_acc_w[g_nacc - 1] == w);
#define OK(k) (g_ok[k] != 0)
int k_histogram_update(size_t array_size, double w0, double w1)
__CPROVER_requires(array_size <= 2 && g_nacc == 0 && g_bin[0] != g_bin[1] && g_bin[0] >= -5 && g_bin[0] <= 100 && g_bin[1] >= -5 && g_bin[1] <= 100 && w0 >= 0.0 && w0 <= 10.0 && w1 >= 0.0 && w1 <= 10.0 && g_errors == 0 && g_error_bits == 0)
__CPROVER_assigns(__CPROVER_object_whole(e_l), g_nacc, __CPROVER_object_whole(g_acc_bin), __CPROVER_object_whole(g_acc_w))
/* nothing at a step that may not accumulate (scalar variables; see the note on vector variables in spec.py) */
__CPROVER_ensures((!g_can && array_size == 0) ==> g_nacc == 0)
/* scalar variable */
__CPROVER_ensures((g_can && array_size == 0) ==> (g_nacc == (OK(0) ? 1 : 0) && (OK(0) ==> (g_acc_bin[0] == g_bin[0] && g_acc_w[0] == 1.0))))
/* vector variable: each in-range element once, its own bin, its own weight, in order */
__CPROVER_ensures((g_can && array_size == 1) ==> (g_nacc == (OK(0) ? 1 : 0) && (OK(0) ==> (g_acc_bin[0] == g_bin[0] && g_acc_w[0] == w0))))
__CPROVER_ensures((g_can && array_size == 2) ==> (g_nacc == (OK(0) ? 1 : 0) + (OK(1) ? 1 : 0)))
__CPROVER_ensures((g_can && array_size == 2 && OK(0)) ==> (g_acc_bin[0] == g_bin[0] && g_acc_w[0] == w0))
__CPROVER_ensures((g_can && array_size == 2 && OK(1)) ==> (g_acc_bin[g_nacc - 1] == g_bin[1] && g_acc_w[g_nacc - 1] == w1))
;
#endif

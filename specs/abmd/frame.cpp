// Frame TU for colvarbias_abmd::update (C06: the ABMD ratchet).  Body sliced verbatim from src/colvarbias_abmd.cpp.
#include <vector>
#include <cvm_stub.h>
#include <cvs_echo.h>
#include <colvar_sym.h>
extern "C" int k_cv_is_enabled(int cv_tag, int f) { return 0; }
extern "C" void k_add_bias_force(int cv_tag, int node) {} extern "C" void k_add_bias_force_actual_value(int cv_tag, int node) {}
extern "C" { extern int g_node[12]; extern int e_l[8]; }
struct K_abmd {
  std::vector<colvar *> colvars;                               //@real colvarbias.h
  std::vector<colvarvalue> colvar_forces;                      //@real colvarbias.h
  cvm::real bias_energy;                                       //@real colvarbias.h
  cvm::real ref_val;                                           // real: cvm::real ref_val = 0.;
  bool ref_initialized;                                        // real: bool ref_initialized = false;
  cvm::real stopping_val;                                      // real: cvm::real stopping_val = 0.;
  bool decreasing;                                             // real: bool decreasing = false;
  cvm::real k;                                                 // real: cvm::real k = 0.;
  inline size_t num_variables() const
#include "num_variables.body.inc"
  inline colvar *variables(int i) const
#include "variables.body.inc"
  int body()
#include "abmd_update.body.inc"
};
// node slots (in): 0 ref_val, 1 stopping_val, 2 k, 3 force, 4 energy; (out): 5 ref_val, 6 force, 7 energy; e_l[3] = ref_initialized out
#define OPQ(lv, slot) do { double v_ = nondet_double(); lv = cvm::real(v_); g_node[slot] = (lv).id; } while (0)
extern "C" int k_abmd_update(bool ref_init, bool decreasing) {
  g_tn = 0; K_abmd f; colvar cv; cv.tag = 0; colvar *cvp[1]; cvp[0] = &cv; colvarvalue cf[1]; CVS_VIEW(f.colvars, cvp, 1); CVS_VIEW(f.colvar_forces, cf, 1);
  OPQ(f.ref_val, 0); OPQ(f.stopping_val, 1); OPQ(f.k, 2); OPQ(cf[0].real_value, 3); OPQ(f.bias_energy, 4);
  f.ref_initialized = ref_init; f.decreasing = decreasing; e_l[0] = ref_init; e_l[1] = decreasing; e_l[2] = g_sim_running;
  int r = f.body();
  g_node[5] = f.ref_val.nid(); g_node[6] = cf[0].real_value.nid(); g_node[7] = f.bias_energy.nid(); e_l[3] = f.ref_initialized;
  return r;
}

/* Contracts for the scalar component metric (C18), symbolic reals: the squared distance and its gradient use the SAME
   minimum-image displacement d = (x1-x2) - floor((x1-x2)/P + 1/2) P (any number of periods apart), so the gradient 2d is
   the derivative of d^2 wherever the image is locally constant; wrap maps x to x - floor((x-c)/P + 1/2) P. */
#ifndef METRIC_CONTRACT_H
#define METRIC_CONTRACT_H
#include <stddef.h>
#include "../common/term.h"
extern double e_d[8]; extern int g_ret;
extern int g_throw, g_debug; extern unsigned g_errors, g_error_bits;
#define FIN(x) ((x) >= -1.0e100 && (x) <= 1.0e100)
#define M_PRE (FIN(x1) && FIN(x2) && FIN(period) && g_tn == 0)
#define M_FRAME __CPROVER_object_whole(e_d), g_ret, TERM_FRAME
#define L_X1(n) P_LEAF(n, x1)
#define L_X2(n) P_LEAF(n, x2)
#define L_P(n) P_LEAF(n, period)
#define L_HALF(n) P_LEAF(n, 0.5)
#define L_TWO(n) P_LEAF(n, 2.0)
/* raw difference, and the image shift floor(diff/P + 0.5) * P built on the SAME diff node */
#define T_DIFF(n) P_BIN7(n, T_SUB, L_X1, L_X2)
#define T_QUOT(n) P_BIN6(n, T_DIV, T_DIFF, L_P)
#define T_QH(n) P_BIN5(n, T_ADD, T_QUOT, L_HALF)
#define T_FLOOR(n) P_CALL1_4(n, CID_FLOOR, T_QH)
#define T_SHIFT(n) P_BIN3(n, T_MUL, T_FLOOR, L_P)
/* minimum-image displacement: SUB(diff, shift) where both mention the same diff node */
#define T_MI(n) (TVALID(n) && g_top(n) == T_SUB && T_DIFF(g_ta(n)) && T_SHIFT(g_tb(n)) && g_ta(g_ta(g_ta(g_ta(g_tb(n))))) == g_ta(n))
#define T_DISP(n) (periodic ? T_MI(n) : T_DIFF(n))
double k_cvc_dist2(double x1, double x2, double period, _Bool periodic)
__CPROVER_requires(M_PRE) __CPROVER_assigns(M_FRAME)
__CPROVER_ensures(TVALID(g_ret) && g_top(g_ret) == T_MUL && T_DISP(g_ta(g_ret)) && g_tb(g_ret) == g_ta(g_ret))
;
double k_cvc_dist2_lgrad(double x1, double x2, double period, _Bool periodic)
__CPROVER_requires(M_PRE) __CPROVER_assigns(M_FRAME)
__CPROVER_ensures(TVALID(g_ret) && g_top(g_ret) == T_MUL && L_TWO(g_ta(g_ret)) && T_DISP(g_tb(g_ret)))
;
/* dist2_rgrad is, as coded, the component's own dist2_lgrad evaluated on (x1, x2) */
#define IS_X1N(n) P_LEAF(n, x1)
#define IS_X2N(n) P_LEAF(n, x2)
double k_cvc_dist2_rgrad(double x1, double x2, double period, _Bool periodic)
__CPROVER_requires(M_PRE) __CPROVER_assigns(M_FRAME)
__CPROVER_ensures(P_CALL2_1(g_ret, CID_USER + 5, IS_X1N, IS_X2N))
;
/* wrap around the centre c: x - floor((x - c)/P + 1/2) P; identity for non-periodic components */
#define L_C(n) P_LEAF(n, center)
#define W_XC(n) P_BIN7(n, T_SUB, L_X1, L_C)
#define W_Q(n) P_BIN6(n, T_DIV, W_XC, L_P)
#define W_QH(n) P_BIN5(n, T_ADD, W_Q, L_HALF)
#define W_FL(n) P_CALL1_4(n, CID_FLOOR, W_QH)
#define W_SH(n) P_BIN3(n, T_MUL, W_FL, L_P)
double k_cvc_wrap(double x1, double center, double period, _Bool periodic)
__CPROVER_requires(FIN(x1) && FIN(center) && FIN(period) && g_tn == 0) __CPROVER_assigns(M_FRAME)
__CPROVER_ensures(periodic ==> P_BIN2(g_ret, T_SUB, L_X1, W_SH))
__CPROVER_ensures(!periodic ==> L_X1(g_ret))
;
#endif

// Frame TU for the ABF ramp (C04): colvar_grid_gradient::smooth_inverse_weight, vector_value_smoothed, value_output_smoothed.
// Bodies sliced verbatim from src/colvargrid.h.
#include <vector>
#include <cvm_stub.h>
#include <cvs_echo.h>
extern "C" { extern int g_node[16]; extern long long e_l[8]; extern size_t g_count; }
struct count_stub { size_t value(std::vector<int> const &) const { return g_count; } };
struct K_ramp {
  int full_samples;                            //@real colvargrid.h
  int min_samples;                             //@real colvargrid.h
  size_t mult;                                 // real: size_t mult = 0; (colvargrid.h)
  std::vector<cvm::real> data;                 // real: std::vector<T> data; of colvar_grid<cvm::real>
  count_stub *samples;                         // real: std::shared_ptr<colvar_grid_count> samples;
  size_t address(std::vector<int> const &ix) const { return (size_t) ix[0] * mult; }
  inline cvm::real smooth_inverse_weight(cvm::real weight)
#include "smooth_inverse_weight.body.inc"
  inline cvm::real value_output_smoothed(std::vector<int> const &ix, bool smoothed)
#include "value_output_smoothed.body.inc"
  inline void vector_value_smoothed(std::vector<int> const &ix, cvm::real *grad, bool smoothed)
#include "vector_value_smoothed.body.inc"
};
// node slots: 0 weight (in), 1 result; 2,3 data[0..1] of the bin, 4,5 grad[0..1]
extern "C" void k_smooth_inverse_weight(double w, int minS, int fullS) {
  g_tn = 0; K_ramp f; f.min_samples = minS; f.full_samples = fullS; e_l[0] = minS; e_l[1] = fullS;
  cvm::real W(w); g_node[0] = W.id; cvm::real r = f.smooth_inverse_weight(W); g_node[1] = r.nid();
}
static void setup(K_ramp &f, count_stub &cs, cvm::real *dv, int *ixv, std::vector<int> &ix, int minS, int fullS, bool has_samples, size_t mult) {
  f.min_samples = minS; f.full_samples = fullS; f.mult = mult; f.samples = has_samples ? &cs : (count_stub *) 0;
  for (int k = 0; k < 4; k++) { double x = nondet_double(); dv[k] = cvm::real(x); }
  CVS_VIEW(f.data, dv, 4); ixv[0] = 1; CVS_VIEW(ix, ixv, 1);
  e_l[0] = minS; e_l[1] = fullS; e_l[2] = has_samples; e_l[3] = (long long) g_count;
}
extern "C" void k_vector_value_smoothed(int minS, int fullS, bool has_samples, bool smoothed) {
  g_tn = 0; K_ramp f; count_stub cs; cvm::real dv[4]; int ixv[1]; std::vector<int> ix; setup(f, cs, dv, ixv, ix, minS, fullS, has_samples, 2); e_l[4] = smoothed;
  g_node[2] = dv[2].id; g_node[3] = dv[3].id;
  cvm::real grad[2]; f.vector_value_smoothed(ix, grad, smoothed); g_node[4] = grad[0].nid(); g_node[5] = grad[1].nid();
}
extern "C" void k_value_output_smoothed(int minS, int fullS, bool has_samples, bool smoothed) {
  g_tn = 0; K_ramp f; count_stub cs; cvm::real dv[4]; int ixv[1]; std::vector<int> ix; setup(f, cs, dv, ixv, ix, minS, fullS, has_samples, 1); e_l[4] = smoothed;
  g_node[2] = dv[1].id;
  cvm::real r = f.value_output_smoothed(ix, smoothed); g_node[4] = r.nid();
}

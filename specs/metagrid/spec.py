def s(name, src, sig, **kw): d = {'name': name, 'src': src, 'sig': sig, 'inc': name + '.body.inc'}; d.update(kw); return d
UNIT = {
 'cxxflags': ['-DCVS_SREAL'],
 'slices': [
  s('features_colvar', 'colvardeps.h', r'enum features_colvar'),
  s('expand_loop', 'colvarbias_meta.cpp', r'int colvarbias_meta::update_grid_params\(\)', R5=['new_lb', 'new_ub'],
    **{'from': r'for \(size_t i = 0; i < num_variables\(\); i\+\+\) \{\n\n        if \(! variables\(i\)->expand_boundaries\)', 'until': r'\n      if \(changed_grids\) \{'}),
 ],
 'assumed': ['only the for-loop over variables of update_grid_params is sliced (the locals declared before it are frame fields; the re-allocation and re-mapping of the grids after it are not under contract); variables are stand-ins; boundary values are symbolic reals'],
 'tasks': [
  {'id': 'expand_loop', 'properties': ['C05'], 'slices': ['expand_loop'], 'harness': 'h_expand_loop', 'enforce': 'k_expand_loop', 'unwind': 20, 'object_bits': 10, 'unwind_body': 3,
   'bounded': '2 variables (loop over variables unwound)',
   'mutants': [('if (changed_lb || changed_ub)\n          changed_grids = true;', 'changed_grids = (changed_lb || changed_ub);'), ('curr_bin[i] += extra_points;', ''), ('curr_bin[i] < min_buffer', 'curr_bin[i] <= min_buffer')]},
 ],
}

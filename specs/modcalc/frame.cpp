// Frame TU for colvarmodule::calc_biases and colvarmodule::update_colvar_forces (C08, C01: superposition of biases, the reported energy
// is the sum of the active biases' energies plus the variables' own energies).  Bodies sliced verbatim from src/colvarmodule.cpp.
#include <vector>
#include <cvm_stub.h>
#include <cvs_echo.h>
#define CID_BENERGY (CID_USER + 1)
#define CID_CVENERGY (CID_USER + 2)
extern "C" { extern int g_out[8]; extern int e_l[12]; }
// events: kind 1 reset_bias_force(cv tag), 2 bias update(tag), 3 bias communicate_forces(tag), 4 proxy add_energy(node), 5 cv communicate_forces(tag),
//         6 scripted forces, 7 smp loop, 8 cv update_forces_energy(tag)
extern "C" void k_ev(int kind, int arg); extern "C" int k_smp_cvcs(); extern "C" int k_rc(int kind, int tag);
struct colvardeps { enum features_colvar
#include "features_colvar.body.inc"
  ; };
struct bias_stub { int tag; bool enabled_; int share_;
  bool is_enabled(int f = 0) const { return enabled_; }
  int replica_share_freq() const { return share_; }
  int update() { k_ev(2, tag); return k_rc(2, tag); }
  cvm::real get_energy() { return sreal_call(CID_BENERGY, tag); }
  int communicate_forces() { k_ev(3, tag); return k_rc(3, tag); } };
struct var_stub { int tag; bool apply_;
  void reset_bias_force() { k_ev(1, tag); }
  cvm::real update_forces_energy() { k_ev(8, tag); return sreal_call(CID_CVENERGY, tag); }
  bool is_enabled(int f) const { return apply_; }
  void communicate_forces() { k_ev(5, tag); } };
struct proxy_stub2 { void add_energy(cvm::real const &e) { k_ev(4, e.nid()); } int smp_biases_script_loop() { k_ev(7, 1); return 0; } int smp_biases_loop() { k_ev(7, 0); return 0; } };
#define colvarbias bias_stub
#define colvar var_stub
struct K_mod {
  std::vector<colvar *> colvars;                   //@real colvarmodule.h
  std::vector<colvarbias *> biases;                //@real colvarmodule.h
  cvm::real total_bias_energy;                     // real: real total_bias_energy; (colvarmodule.h)
  std::vector<colvarbias *> biases_active_;        //@real colvarmodule.h
  std::vector<colvar *> vars_active_;
  bool use_scripted_forces, scripting_after_biases;  // real: static bool members
  proxy_stub2 *proxy;
  std::vector<colvarbias *> *biases_active() { return &biases_active_; }
  std::vector<colvar *> *variables() { return &colvars; }
  std::vector<colvar *> *variables_active() { return &vars_active_; }
  size_t num_biases() const { return biases.n_; }
  int calc_scripted_forces() { k_ev(6, 0); return 0; }
  int body_cb()
#include "calc_biases.body.inc"
  int body_ucf()
#include "update_colvar_forces.body.inc"
};
#undef colvarbias
#undef colvar
extern "C" int k_calc_biases(bool en0, bool en1, int share0, int share1, bool scripted, bool after) {
  g_tn = 0; K_mod f; proxy_stub2 px; f.proxy = &px; bias_stub b[2]; bias_stub *bp[2], *ap[2]; var_stub v[2]; var_stub *vp[2];
  b[0].tag = 0; b[0].enabled_ = en0; b[0].share_ = share0; b[1].tag = 1; b[1].enabled_ = en1; b[1].share_ = share1;
  for (int k = 0; k < 2; k++) { bp[k] = &b[k]; v[k].tag = k; v[k].apply_ = true; vp[k] = &v[k]; }
  CVS_VIEW(f.colvars, vp, 2); CVS_VIEW(f.biases, bp, 2); f.biases_active_.p_ = ap; f.biases_active_.n_ = 1; f.biases_active_.cap_ = 2; ap[0] = &b[1];
  f.use_scripted_forces = scripted; f.scripting_after_biases = after;
  double x = nondet_double(); f.total_bias_energy = cvm::real(x);
  e_l[0] = en0; e_l[1] = en1; e_l[2] = share0; e_l[3] = share1; e_l[4] = scripted; e_l[5] = after;
  int r = f.body_cb();
  g_out[0] = f.total_bias_energy.nid(); g_out[1] = (int) f.biases_active_.n_;
  g_out[2] = f.biases_active_.n_ > 0 ? ap[0]->tag : -1; g_out[3] = f.biases_active_.n_ > 1 ? ap[1]->tag : -1;
  return r;
}
extern "C" int k_update_colvar_forces(bool apply0, bool apply1, size_t nactive_vars, bool scripted, bool after) {
  g_tn = 0; K_mod f; proxy_stub2 px; f.proxy = &px; bias_stub b[2]; bias_stub *ap[2]; var_stub v[2]; var_stub *vp[2], *avp[2];
  for (int k = 0; k < 2; k++) { b[k].tag = k; b[k].enabled_ = true; b[k].share_ = 0; ap[k] = &b[k]; v[k].tag = k; vp[k] = &v[k]; }
  v[0].apply_ = apply0; v[1].apply_ = apply1; avp[0] = &v[1]; avp[1] = &v[0];   // active list: variable 1 only, or 1 then 0
  CVS_VIEW(f.colvars, vp, 2); CVS_VIEW(f.biases_active_, ap, 2); CVS_VIEW(f.vars_active_, avp, nactive_vars);
  f.use_scripted_forces = scripted; f.scripting_after_biases = after;
  double x = nondet_double(); f.total_bias_energy = cvm::real(x); g_out[4] = f.total_bias_energy.id;
  e_l[0] = apply0; e_l[1] = apply1; e_l[2] = (int) nactive_vars; e_l[4] = scripted; e_l[5] = after;
  return f.body_ucf();
}

#include "contract.h"
TERM_GHOST_DEFS
int g_node[12]; int e_l[8]; int g_give_sigmas, g_give_width; double g_sig[2], g_hw; int g_wb[2];
int g_throw, g_debug, g_vec_alloc; unsigned g_errors, g_error_bits; size_t g_alloc_bytes;
long long g_step_rel, g_step_abs; int g_sim_continuing, g_sim_running;
size_t nondet_size_t(void); int nondet_int(void); double nondet_double(void); _Bool nondet_bool(void);
double k_floor(double x) { return x; } double k_sqrt(double x) { return x; } double k_pow(double x, double y) { return x; }
double k_boltzmann(void) { return 0.0; } double k_target_temperature(void) { return 0.0; } double k_dt(void) { return 1.0; } int k_same_step(void) { return 0; }
void h_init_widths(void) { g_debug = 0; g_tn = 0; g_errors = 0; g_give_sigmas = nondet_int(); g_give_width = nondet_int(); g_sig[0] = nondet_double(); g_sig[1] = nondet_double(); g_hw = nondet_double(); g_wb[0] = nondet_int(); g_wb[1] = nondet_int();
  k_init_widths();
  if (g_give_sigmas && !g_give_width && is_bins(g_wb[0], 0) && is_bins(g_wb[1], 1) && t_v(g_wb[1]) > t_v(g_wb[0]) && t_v(g_wb[0]) > 0.0) __CPROVER_assert(0, "canary: gaussianSigmas with the second variable's hills wider reachable");
  if (!g_give_sigmas && g_give_width) __CPROVER_assert(0, "canary: hillWidth reachable"); }

#include "contract.h"
int e_i[16]; void *g_io_p, *g_main2_p; int g_nio, g_io_log[8], g_io_rc[8], g_stream_ok, g_write_ok; int g_ncfg, g_cfg_kind[4], g_cfg_tag[4], g_cfg_rc[4], g_left; int g_ndelfit, g_ndelrot, g_nclear, g_nunreg;
int g_throw, g_debug, g_vec_alloc; unsigned g_errors, g_error_bits; size_t g_alloc_bytes;
long long g_step_rel, g_step_abs; int g_sim_continuing, g_sim_running;
size_t nondet_size_t(void); int nondet_int(void); _Bool nondet_bool(void);
double k_floor(double x) { return x; } double k_sqrt(double x) { return x; } double k_pow(double x, double y) { return x; }
double k_boltzmann(void) { return 0.0; } double k_target_temperature(void) { return 0.0; } double k_dt(void) { return 1.0; } int k_same_step(void) { return 0; }
void h_write_replica_state_file(void) { g_debug = 0; g_errors = 0; g_stream_ok = nondet_int(); g_write_ok = nondet_int(); for (int k = 0; k < 8; k++) g_io_rc[k] = 0;
  k_write_replica_state_file(); if (g_nio == 5) __CPROVER_assert(0, "canary: full write sequence"); if (g_nio == 4) __CPROVER_assert(0, "canary: stream error sequence"); }
void h_parse_module_config(void) { g_debug = 0; g_errors = 0; for (int k = 0; k < 4; k++) g_cfg_rc[k] = nondet_int(); size_t n = nondet_size_t();
  k_parse_module_config(n, nondet_int(), nondet_int()); if (g_ncfg == 2) __CPROVER_assert(0, "canary: two configurations parsed"); if (g_errors == 1) __CPROVER_assert(0, "canary: invalid queue keyword"); }
void h_atom_group_dtor(void) { g_debug = 0; _Bool hf = nondet_bool(), ff = nondet_bool(); k_atom_group_dtor(nondet_bool(), nondet_bool(), hf, ff, nondet_bool());
  if (hf && !ff) __CPROVER_assert(0, "canary: fitting group allocated but feature never enabled"); }

/* Contracts for colvar::orientation::calc_value / apply_force (C01, C02), symbolic reals, two atoms.
   The optimal-rotation quaternion q is defined up to its sign.  calc_value reports the representative closer to the reference quaternion:
   x = q when q.ref >= 0 and x = -q otherwise.  apply_force distributes a force F on x to the atoms with the derivatives of q:
   force on atom a = sum_k c_k * dq_k/dr_a, and since dx/dr = s dq/dr with the SAME sign s, c_k = F_k when q.ref >= 0 and c_k = -F_k otherwise. */
#ifndef ORIENT_CONTRACT_H
#define ORIENT_CONTRACT_H
#include <stddef.h>
#include "../common/term.h"
extern int g_node[24]; extern int e_l[8];
extern int g_throw, g_debug; extern unsigned g_errors, g_error_bits;
#define CID_QINNER (CID_USER + 1)
#define CID_DQ (CID_USER + 2)
#define N(k) g_node[k]
static int t_op(int n) { return TVALID(n) ? g_top(n) : -1; }
static int t_a(int n) { return TVALID(n) ? g_ta(n) : -2; }
static int t_b(int n) { return TVALID(n) ? g_tb(n) : -2; }
static int t_c(int n) { return TVALID(n) ? g_tc(n) : -2; }
static double t_v(int n) { return TVALID(n) ? g_tv[n] : 0.0; }
static _Bool is_leaf(int n, double x) { return P_LEAF(n, x); }
static _Bool is_inner(int n) { return t_op(n) == T_CALL + CID_QINNER && t_a(n) == N(0) && t_b(n) == N(4); }
/* the inner product is evaluated once near the start: find it */
static int find_inner(void) { return is_inner(9) ? 9 : is_inner(5) ? 5 : is_inner(6) ? 6 : is_inner(7) ? 7 : is_inner(8) ? 8 : is_inner(10) ? 10 : is_inner(13) ? 13 : is_inner(14) ? 14 : is_inner(11) ? 11 : is_inner(12) ? 12 : is_inner(15) ? 15 : -1; }
static _Bool is_negated(int n, int m) { return (t_op(n) == T_MUL && ((is_leaf(t_a(n), -1.0) && t_b(n) == m) || (is_leaf(t_b(n), -1.0) && t_a(n) == m))) || (t_op(n) == T_NEG && t_a(n) == m); }
static _Bool value_ok(void) { int I = find_inner(); if (I < 0) return 0;
  if (t_v(I) >= 0.0) return N(10) == N(0) && N(11) == N(1) && N(12) == N(2) && N(13) == N(3);
  return is_negated(N(10), N(0)) && is_negated(N(11), N(1)) && is_negated(N(12), N(2)) && is_negated(N(13), N(3)); }
void k_ori_calc_value(void)
__CPROVER_requires(g_tn == 0)
__CPROVER_assigns(__CPROVER_object_whole(g_node), __CPROVER_object_whole(e_l), TERM_FRAME)
__CPROVER_ensures(value_ok())
;
extern int g_nf, g_f_atom[4], g_f_node[4];
void k_atom_force(int ia, int nx) __CPROVER_requires(0 <= g_nf && g_nf < 4) __CPROVER_assigns(g_nf, g_f_atom[g_nf], g_f_node[g_nf])
  __CPROVER_ensures(g_nf == __CPROVER_old(g_nf) + 1 && g_f_atom[g_nf - 1] == ia && g_f_node[g_nf - 1] == nx);
/* coefficient of dq_k in the force: F_k or -F_k according to the sign of q.ref */
static _Bool coef_ok(int c, int k, double inner) { return inner >= 0.0 ? c == N(5 + k) : is_negated(c, N(5 + k)); }
static _Bool is_dq(int n, int ia, int k) { return t_op(n) == T_CALL + CID_DQ && t_a(n) == ia && t_b(n) == k && t_c(n) == 0; }
static _Bool term_ok(int n, int ia, int k, double inner) { return t_op(n) == T_MUL && coef_ok(t_a(n), k, inner) && is_dq(t_b(n), ia, k); }
/* x component of the force on atom ia: ((c0 dq0 + c1 dq1) + c2 dq2) + c3 dq3 */
static _Bool force_ok(int n, int ia, double inner) { int s2 = t_a(n), s1 = t_a(s2);
  return t_op(n) == T_ADD && term_ok(t_b(n), ia, 3, inner) && t_op(s2) == T_ADD && term_ok(t_b(s2), ia, 2, inner) && t_op(s1) == T_ADD && term_ok(t_a(s1), ia, 0, inner) && term_ok(t_b(s1), ia, 1, inner); }
static _Bool forces_ok(_Bool noforce) { if (noforce) return g_nf == 0; int I = find_inner(); if (I < 0) return 0;
  return g_nf == 2 && g_f_atom[0] == 0 && g_f_atom[1] == 1 && force_ok(g_f_node[0], 0, t_v(I)) && force_ok(g_f_node[1], 1, t_v(I)); }
void k_ori_apply_force(_Bool noforce)
__CPROVER_requires(g_tn == 0 && g_nf == 0)
__CPROVER_assigns(__CPROVER_object_whole(g_node), __CPROVER_object_whole(e_l), TERM_FRAME, g_nf, __CPROVER_object_whole(g_f_atom), __CPROVER_object_whole(g_f_node))
__CPROVER_ensures(forces_ok(noforce))
;
#endif

#include "contract.h"
TERM_GHOST_DEFS
int g_out[8]; int e_l[12]; int g_nev, g_ev_kind[16], g_ev_arg[16], g_smp, g_rcv[4];
int g_throw, g_debug, g_vec_alloc; unsigned g_errors, g_error_bits; size_t g_alloc_bytes;
long long g_step_rel, g_step_abs; int g_sim_continuing, g_sim_running;
size_t nondet_size_t(void); int nondet_int(void); double nondet_double(void); _Bool nondet_bool(void);
double k_floor(double x) { return x; } double k_sqrt(double x) { return x; } double k_pow(double x, double y) { return x; }
double k_boltzmann(void) { return 0.0; } double k_target_temperature(void) { return 0.0; } double k_dt(void) { return 1.0; } int k_same_step(void) { return 0; }
static void init(void) { g_debug = 0; g_tn = 0; g_nev = 0; g_errors = 0; g_error_bits = 0; g_smp = nondet_int(); for (int k = 0; k < 4; k++) g_rcv[k] = nondet_int(); }
void h_calc_biases(void) { init(); _Bool a = nondet_bool(), b = nondet_bool(); k_calc_biases(a, b, nondet_int(), nondet_int(), nondet_bool(), nondet_bool());
  if (a && b && g_nev == 4) __CPROVER_assert(0, "canary: two biases updated serially");
  if (!a && !b) __CPROVER_assert(0, "canary: no enabled bias reachable"); }
void h_update_colvar_forces(void) { init(); size_t n = nondet_size_t(); k_update_colvar_forces(nondet_bool(), nondet_bool(), n, nondet_bool(), nondet_bool());
  if (n == 2 && g_nev == 9) __CPROVER_assert(0, "canary: both variables communicate forces"); }

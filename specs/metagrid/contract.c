#include "contract.h"
TERM_GHOST_DEFS
int e_i[32]; int g_node[8];
int g_throw, g_debug, g_vec_alloc; unsigned g_errors, g_error_bits; size_t g_alloc_bytes;
long long g_step_rel, g_step_abs; int g_sim_continuing, g_sim_running;
int nondet_int(void);
double k_floor(double x) { return x; } double k_sqrt(double x) { return x; } double k_pow(double x, double y) { return x; }
double k_boltzmann(void) { return 0.0; } double k_target_temperature(void) { return 0.0; } double k_dt(void) { return 1.0; } int k_same_step(void) { return 0; }
void h_expand_loop(void) { g_debug = 0; g_tn = 0; int *cb, *sz; _Bool *e, *hl, *hu; int r = k_expand_loop(nondet_int(), cb, sz, e, hl, hu);
  if (r) __CPROVER_assert(0, "canary: expansion needed"); if (!r) __CPROVER_assert(0, "canary: no expansion"); }

#include "contract.h"
int e_i[64]; int g_fid[12]; int g_ntok, g_tok_kind[24], g_tok_id[24];
int g_throw, g_debug, g_vec_alloc; unsigned g_errors, g_error_bits; size_t g_alloc_bytes;
long long g_step_rel, g_step_abs; int g_sim_continuing, g_sim_running;
double k_floor(double x) { return x; } double k_sqrt(double x) { return x; } double k_pow(double x, double y) { return x; }
double k_boltzmann(void) { return 0.0; } double k_target_temperature(void) { return 0.0; } double k_dt(void) { return 1.0; } int k_same_step(void) { return 0; }
void cvs_set_fids(void);
void h_get_state_params(void) { g_debug = 0; cvs_set_fids(); _Bool *en; k_get_state_params(en);
  if (g_ntok == 15) __CPROVER_assert(0, "canary: velocity and extended-Lagrangian lines written"); if (g_ntok == 6) __CPROVER_assert(0, "canary: plain variable"); }
void h_write_traj_label(void) { g_debug = 0; cvs_set_fids(); _Bool *en; k_write_traj_label(en); if (g_ntok == 17) __CPROVER_assert(0, "canary: all eight columns announced"); if (g_ntok == 1) __CPROVER_assert(0, "canary: no columns"); }
void h_write_traj(void) { g_debug = 0; cvs_set_fids(); _Bool *en; k_write_traj(en); if (g_ntok >= 15) __CPROVER_assert(0, "canary: many columns written"); if (g_ntok == 1) __CPROVER_assert(0, "canary: no columns"); }

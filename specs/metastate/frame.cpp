// Frame TU for the hill-restoring statements of colvarbias_meta::read_state_data_template_ (C03, C05).
#include <vector>
#include <list>
#include <string>
#include <cvm_stub.h>
#include <cvs_echo.h>
extern "C" { extern int e_l[8]; extern int g_nread; extern int g_out[6]; }
struct hill_s { long long it; };
struct stream_s { void clear() {} long tellg() const { return 0; } };
// a list view with room to append at the back and erase a prefix
template <class T> struct hlist { T *p_; size_t n_;
  typedef T *iterator;
  T *begin() { return p_; } T *end() { return p_ + n_; } bool empty() const { return n_ == 0; } size_t size() const { return n_; } T &back() { return p_[n_ - 1]; }
  void erase(T *first, T *last) { CVS_ASSERT(first == p_ && last >= p_ && last <= p_ + n_, "list::erase of a prefix (modelling limit)"); n_ = n_ - (size_t) (last - p_); p_ = last; } };
struct K_rh {
  typedef hill_s *hill_iter;
  hlist<hill_s> hills;                         // real: std::list<hill> hills;
  hlist<hill_s> hills_off_grid;                // real: std::list<hill> hills_off_grid;
  hill_iter new_hills_begin;                   //@real colvarbias_meta.h
  bool use_grids;                              //@real colvarbias_meta.h
  int nread_;
  bool restart_keep_hills;                     //@real colvarbias_meta.h
  bool read_hill(stream_s &is) { if (nread_ >= g_nread) return false; nread_ = nread_ + 1; if (!restart_keep_hills) return true; hills.p_[hills.n_].it = 99 + nread_; hills.n_ = hills.n_ + 1; return true; }
  void body(stream_s &is)
#include "read_hills.body.inc"
};
extern "C" void k_read_hills(size_t n_old, bool use_grids, bool keep) {
  K_rh f; hill_s store[4], off[2]; stream_s is; f.hills.p_ = store; f.hills.n_ = n_old; store[0].it = 1; f.hills_off_grid.p_ = off; f.hills_off_grid.n_ = 0; f.use_grids = use_grids; f.nread_ = 0; f.restart_keep_hills = keep; e_l[3] = keep;
  f.new_hills_begin = f.hills.end();
  e_l[0] = (int) n_old; e_l[1] = use_grids; e_l[2] = g_nread;
  f.body(is);
  g_out[0] = (int) f.hills.n_; g_out[1] = (int) (f.hills.p_ - store); g_out[2] = (int) (f.new_hills_begin - store);
  g_out[3] = f.hills.n_ > 0 ? (int) f.hills.p_[0].it : -1; g_out[4] = f.restart_keep_hills;
}
// ---- the skip statement of read_hill_template_ ----
extern "C" void k_hill_kept();
struct K_hs {
  cvm::step_number state_file_step;            //@real colvarbias.h
  bool restart_keep_hills;                     //@real colvarbias_meta.h
  std::string name, replica_id; enum Communication { single_replica, multiple_replicas }; Communication comm;
  stream_s &body(stream_s &is, cvm::step_number h_it)
#include "hill_skip.body.inc"
};
extern "C" void k_hill_skip(long long h_it, long long state_step, bool keep) { K_hs f; stream_s is; f.state_file_step = state_step; f.restart_keep_hills = keep; f.comm = K_hs::single_replica; e_l[4] = keep; f.body(is, h_it); }

// ---- write_state_data_template_: pending hills are tabulated before the grids are written ----
extern "C" { extern int g_proj_first, g_proj_last, g_nproj; }
struct ptr_stub { int *get() const { return (int *) 0; } };
struct K_wp {
  typedef hill_s *hill_iter;
  hlist<hill_s> hills; hill_iter new_hills_begin; ptr_stub hills_energy, hills_energy_gradients; hill_s *base_;
  void project_hills(hill_iter first, hill_iter last, int *, int *) { g_nproj = g_nproj + 1; g_proj_first = (int) (first - base_); g_proj_last = (int) (last - base_); }
  void body()
#include "write_project.body.inc"
};
extern "C" void k_write_project(size_t nh, size_t marker) { K_wp f; hill_s store[4]; f.base_ = store; f.hills.p_ = store; f.hills.n_ = nh; f.new_hills_begin = store + marker; e_l[5] = (int) nh; e_l[6] = (int) marker; f.body(); g_out[5] = (int) (f.new_hills_begin - store); }

// ---- add_hill: where a new hill is recorded ----
extern "C" { extern double g_mindist, g_hillwidth; }
struct grid_d { double bin_distance_from_boundaries(int const &, bool) const { return g_mindist; } };
struct hill_c { long long it; int centers; };
template <class T> struct blist { T *p_; size_t n_; typedef T *iterator; T *begin() { return p_; } T *end() { return p_ + n_; } void push_back(T const &x) { p_[n_] = x; n_ = n_ + 1; } };
struct K_ah {
  typedef hill_c *hill_iter; typedef hill_c hill;
  blist<hill_c> hills, hills_off_grid; hill_iter new_hills_begin; bool use_grids; grid_d *hills_energy; double hill_width;
  hill_iter body(hill_c const &h)
#include "add_hill.body.inc"
};
// n0 hills already in memory, the first `marker` of them tabulated
extern "C" void k_add_hill_once(size_t n0, size_t marker, bool use_grids) { K_ah f; hill_c a[4], b[4]; grid_d g; f.hills.p_ = a; f.hills.n_ = n0; f.hills_off_grid.p_ = b; f.hills_off_grid.n_ = 0; f.new_hills_begin = a + marker; f.use_grids = use_grids; f.hills_energy = &g; f.hill_width = g_hillwidth;
  hill_c h; h.it = 77; h.centers = 0; e_l[5] = (int) n0; e_l[6] = (int) marker; e_l[7] = use_grids;
  f.body(h);
  // the new hill is the last of `hills`: is it in the pending range, and was it also put into the off-grid list?
  g_out[0] = (int) f.hills.n_; g_out[1] = (int) (f.new_hills_begin - a); g_out[2] = (int) f.hills_off_grid.n_;
}

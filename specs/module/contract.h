/* Contract for colvarmodule::write_traj_files (C19): exactly one data line for each absolute step that is a multiple of the
   output frequency (whatever the run segmentation), preceded by a label line at the start of a segment, on request, and
   every 1000 lines. */
#ifndef MODULE_CONTRACT_H
#define MODULE_CONTRACT_H
#include <stddef.h>
extern long long e_l[16];
extern int g_throw, g_debug; extern unsigned g_errors, g_error_bits;
extern CVS_STEP_T g_step_rel, g_step_abs; extern int g_sim_continuing, g_sim_running;
extern int g_stream_good, g_nlabel, g_ndata, g_nflush, g_io_ok;
#define COLVARS_FILE_ERROR (1<<4)
int k_stream_good(void) __CPROVER_assigns() __CPROVER_ensures(__CPROVER_return_value == g_stream_good);
int k_write_traj_label(void) __CPROVER_requires(g_nlabel < 10) __CPROVER_assigns(g_nlabel) __CPROVER_ensures(g_nlabel == __CPROVER_old(g_nlabel) + 1 && __CPROVER_return_value == g_io_ok);
int k_write_traj(void) __CPROVER_requires(g_ndata < 10) __CPROVER_assigns(g_ndata) __CPROVER_ensures(g_ndata == __CPROVER_old(g_ndata) + 1 && __CPROVER_return_value == g_io_ok);
int k_flush(void) __CPROVER_requires(g_nflush < 10) __CPROVER_assigns(g_nflush) __CPROVER_ensures(g_nflush == __CPROVER_old(g_nflush) + 1 && __CPROVER_return_value == 0);
#define O(x) __CPROVER_old(x)
#define LABEL_DUE ((g_step_rel == 0) || O(*write_labels) || ((g_step_abs % (cv_traj_freq * 1000)) == 0))
int k_write_traj_files(unsigned cv_traj_freq, _Bool *write_labels, unsigned restart_out_freq)
__CPROVER_requires(__CPROVER_is_fresh(write_labels, sizeof(_Bool)) && (cv_traj_freq == 1 || cv_traj_freq == 5) && (restart_out_freq == 0 || restart_out_freq == 7))
__CPROVER_requires(g_step_abs >= 0 && g_step_abs <= 2000000000 && g_step_rel >= 0 && g_step_rel <= g_step_abs && g_nlabel == 0 && g_ndata == 0 && g_nflush == 0
                   && (g_stream_good == 0 || g_stream_good == 1) && (g_io_ok == 0 || g_io_ok == 1) && g_debug == 0)
__CPROVER_assigns(__CPROVER_object_whole(e_l), *write_labels, g_nlabel, g_ndata, g_nflush)
__CPROVER_ensures(!g_stream_good ==> (__CPROVER_return_value == COLVARS_FILE_ERROR && g_nlabel == 0 && g_ndata == 0 && *write_labels == O(*write_labels)))
__CPROVER_ensures(g_stream_good ==> (g_ndata == (((g_step_abs % cv_traj_freq) == 0) ? 1 : 0)))
__CPROVER_ensures(g_stream_good ==> (g_nlabel == (LABEL_DUE ? 1 : 0)))
__CPROVER_ensures((g_stream_good && LABEL_DUE) ==> *write_labels == 0)
__CPROVER_ensures((g_stream_good && !LABEL_DUE) ==> *write_labels == O(*write_labels))
__CPROVER_ensures((g_stream_good && g_io_ok) ==> __CPROVER_return_value == 0)
__CPROVER_ensures((g_stream_good && !g_io_ok && g_ndata + g_nlabel > 0) ==> __CPROVER_return_value == COLVARS_FILE_ERROR)
__CPROVER_ensures(g_stream_good ==> (g_nflush == ((restart_out_freq && (g_step_abs % restart_out_freq) == 0) ? 1 : 0)))
;
#endif

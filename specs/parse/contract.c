#include "contract.h"
char e_s[16]; size_t e_n[4]; int g_line_ok;
int g_throw, g_debug, g_vec_alloc; unsigned g_errors, g_error_bits; size_t g_alloc_bytes;
long long g_step_rel, g_step_abs; int g_sim_continuing, g_sim_running;
size_t nondet_size_t(void); int nondet_int(void);
double k_floor(double x) { return x; } double k_sqrt(double x) { return x; } double k_pow(double x, double y) { return x; }
double k_boltzmann(void) { return 0.0; } double k_target_temperature(void) { return 0.0; } double k_dt(void) { return 1.0; } int k_same_step(void) { return 0; }
void h_getline(void) { char *in, *line; size_t *nl; g_line_ok = nondet_int(); size_t n = nondet_size_t();
  k_getline(in, n, line, nl);
  if (g_line_ok && n == 1) __CPROVER_assert(0, "canary: one-character line delivered");
  if (!g_line_ok) __CPROVER_assert(0, "canary: end of stream reachable"); }
void h_check_braces(void) { char *c; int r = k_check_braces(c, nondet_size_t(), nondet_size_t());
  if (r == 0) __CPROVER_assert(0, "canary: balanced"); if (r != 0) __CPROVER_assert(0, "canary: unbalanced"); }
void h_to_lower_cppstr(void) { char *in, *out; size_t *no; size_t n = nondet_size_t(); k_to_lower_cppstr(in, n, out, no);
  if (n == 6) __CPROVER_assert(0, "canary: full-length string"); }

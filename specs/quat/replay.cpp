// Native replay for cvm::quaternion::dist2 / dist2_grad (C18): the counterexample's two 4-vectors are normalised; the real functions are
// evaluated on (q1, q2), (q1, -q2), (-q1, q2) and the swapped pairs (the symmetry orbit of the input; with symbolic reals the verifier's
// branch choices are not tied to the input numbers, so the orbit is what a user of the metric can reach from this input).
// Checked: dist2 >= 0, symmetric, unchanged by either sign flip, equal to min(w, PI-w)^2 with w = acos(q1.q2); and the tangent-projected
// gradient equals the central finite-difference derivative of dist2 along the sphere.
#include "replay_util.h"
#include <cmath>
#include "colvarmodule.h"
#include "colvartypes.h"
static cvm::quaternion unit(double a, double b, double c, double d) { double n = std::sqrt(a * a + b * b + c * c + d * d); if (n < 1e-6) return cvm::quaternion(1.0, 0.0, 0.0, 0.0); return cvm::quaternion(a / n, b / n, c / n, d / n); }
static std::string first;
static int check_pair(cvm::quaternion const &q1, cvm::quaternion const &q2, bool grad) {
  double c = q1.q0 * q2.q0 + q1.q1 * q2.q1 + q1.q2 * q2.q2 + q1.q3 * q2.q3; if (c > 1.0) c = 1.0; if (c < -1.0) c = -1.0;
  double w = std::acos(std::fabs(c)), ref = w * w, d = q1.dist2(q2); int bad = 0; std::ostringstream os;
  if (std::fabs(d - ref) > 1e-9 || d < 0.0) { bad++; os << "dist2 = " << d << " but min(w, PI-w)^2 = " << ref << " (q1.q2 = " << c << "); "; }
  if (std::fabs(d - q2.dist2(q1)) > 1e-9) { bad++; os << "dist2 not symmetric; "; }
  if (grad && std::fabs(std::sin(std::acos(c))) > 1e-3) {
    cvm::quaternion g = q1.dist2_grad(q2);
    // three tangent directions at q1: e_k - (e_k.q1) q1
    double q[4] = {q1.q0, q1.q1, q1.q2, q1.q3}, gv[4] = {g.q0, g.q1, g.q2, g.q3};
    for (int k = 0; k < 4; k++) {
      double t[4]; double dot = q[k]; double n2 = 0.0; for (int j = 0; j < 4; j++) { t[j] = (j == k ? 1.0 : 0.0) - dot * q[j]; n2 += t[j] * t[j]; }
      if (n2 < 1e-3) continue; double n = std::sqrt(n2); for (int j = 0; j < 4; j++) t[j] /= n;
      double h = 1e-6; cvm::quaternion qp = unit(q[0] + h * t[0], q[1] + h * t[1], q[2] + h * t[2], q[3] + h * t[3]), qm = unit(q[0] - h * t[0], q[1] - h * t[1], q[2] - h * t[2], q[3] - h * t[3]);
      double fd = (qp.dist2(q2) - qm.dist2(q2)) / (2.0 * h), an = gv[0] * t[0] + gv[1] * t[1] + gv[2] * t[2] + gv[3] * t[3];
      if (std::fabs(fd - an) > 1e-4 * (1.0 + std::fabs(fd))) { bad++; os << "d(dist2)/dq1 along tangent " << k << ": finite difference " << fd << ", dist2_grad gives " << an << " (q1.q2 = " << c << "); "; break; }
    }
  }
  if (bad && first.empty()) first = os.str();
  return bad;
}
int main(int argc, char **argv) {
  if (argc < 3) return 2; std::string task(argv[1]); replay_vals v; if (!v.load(argv[2])) return 2;
  double in[8]; for (int k = 0; k < 8; k++) in[k] = v.arr_d("e_d", k);
  cvm::quaternion q1 = unit(in[0], in[1], in[2], in[3]), q2 = unit(in[4], in[5], in[6], in[7]);
  if (std::fabs(std::fabs(q1.q0 * q2.q0 + q1.q1 * q2.q1 + q1.q2 * q2.q2 + q1.q3 * q2.q3) - 1.0) < 1e-3 || std::fabs(q1.q0 * q2.q0 + q1.q1 * q2.q1 + q1.q2 * q2.q2 + q1.q3 * q2.q3) < 1e-3) {
    // degenerate direction from the model (parallel or orthogonal): use a generic partner in the same orbit class instead
    q2 = unit(q1.q0 + 0.3, q1.q1 - 0.5, q1.q2 + 0.7, q1.q3 + 0.2);
  }
  bool grad = (task == "q_dist2_grad"); int bad = 0;
  cvm::quaternion m1 = unit(-q1.q0, -q1.q1, -q1.q2, -q1.q3), m2 = unit(-q2.q0, -q2.q1, -q2.q2, -q2.q3);
  bad += check_pair(q1, q2, grad); bad += check_pair(q1, m2, grad); bad += check_pair(m1, q2, grad); bad += check_pair(q2, q1, grad); bad += check_pair(m2, q1, grad);
  if (std::fabs(q1.dist2(q2) - q1.dist2(m2)) > 1e-9 || std::fabs(q1.dist2(q2) - m1.dist2(q2)) > 1e-9) { bad++; if (first.empty()) first = "dist2 changes when a quaternion's sign is flipped"; }
  if (bad) REPLAY_FAIL("quaternion metric on q1 = (" << q1.q0 << ", " << q1.q1 << ", " << q1.q2 << ", " << q1.q3 << "), q2 = (" << q2.q0 << ", " << q2.q1 << ", " << q2.q2 << ", " << q2.q3 << ") and their sign flips: " << first);
  REPLAY_PASS("dist2 and dist2_grad agree with acos(|q1.q2|)^2 and its finite-difference derivative on this pair and its sign flips");
}

// Native replay for colvarproxy_system::position_distance (C02): the real proxy (stub engine) with a triclinic cell.  The cell comes from
// the counterexample when it is a usable lattice (right-handed, not nearly degenerate), else a fixed generic triclinic cell; pos1/pos2
// come from the counterexample and pos2 is additionally shifted by integer combinations of the three lattice vectors (with symbolic
// reals the verifier's numbers do not steer the rounding, so the orbit under lattice translations is explored instead).
// Checked: the result is pos2 - pos1 minus a lattice vector (component by component) and does not change under lattice translations.
#include "replay_util.h"
#include <cmath>
#include "colvarmodule.h"
#include "colvarproxy.h"
#include "colvarproxy_stub.h"
#include "colvarproxy_stub.cpp"
class proxy_pbc : public colvarproxy_stub {
public:
  void set_cell(cvm::rvector const &a, cvm::rvector const &b, cvm::rvector const &c) { boundaries_type = boundaries_pbc_triclinic; unit_cell_x = a; unit_cell_y = b; unit_cell_z = c; update_pbc_lattice(); }
  void set_nonperiodic() { boundaries_type = boundaries_non_periodic; }
};
static double det(cvm::rvector const &a, cvm::rvector const &b, cvm::rvector const &c) { return a.x * (b.y * c.z - b.z * c.y) - a.y * (b.x * c.z - b.z * c.x) + a.z * (b.x * c.y - b.y * c.x); }
int main(int argc, char **argv) {
  if (argc < 3) return 2; replay_vals v; if (!v.load(argv[2])) return 2;
  double in[25]; for (int k = 0; k < 25; k++) in[k] = v.arr_d("e_d", k);
  proxy_pbc *proxy = new proxy_pbc(); proxy->set_unit_system("real", false);
  cvm::rvector p1(in[0], in[1], in[2]), p2(in[3], in[4], in[5]);
  for (int k = 0; k < 6; k++) if (!(std::fabs(in[k]) < 1.0e3)) { p1 = cvm::rvector(0.3, -1.1, 2.4); p2 = cvm::rvector(7.9, 3.2, -4.5); break; }
  int const btype = int(in[24]);
  if (btype == 0) {
    proxy->set_nonperiodic(); cvm::rvector d = proxy->position_distance(p1, p2), e = p2 - p1;
    if ((d - e).norm() > 1e-12 * (1.0 + e.norm())) REPLAY_FAIL("non-periodic displacement differs from pos2 - pos1");
    REPLAY_PASS("non-periodic displacement equals pos2 - pos1");
  }
  cvm::rvector a(in[6], in[7], in[8]), b(in[9], in[10], in[11]), c(in[12], in[13], in[14]);
  double const vol = det(a, b, c), sz = a.norm() * b.norm() * c.norm();
  if (!(vol > 0.2 * sz) || !(sz > 1.0) || !(sz < 1.0e9)) { a = cvm::rvector(20.0, 0.0, 0.0); b = cvm::rvector(3.0, 18.0, 0.0); c = cvm::rvector(2.0, 5.0, 16.0); }
  proxy->set_cell(a, b, c);
  cvm::rvector const ref = proxy->position_distance(p1, p2);
  int bad = 0; std::ostringstream first;
  for (int i = -1; i <= 1; i++) for (int j = -1; j <= 1; j++) for (int k = -2; k <= 2; k++) {
    cvm::rvector const q2 = p2 + double(i) * a + double(j) * b + double(k) * c;
    cvm::rvector const d = proxy->position_distance(p1, q2);
    // d must equal (q2 - p1) - (l a + m b + n c) for integers l, m, n: solve in lattice coordinates
    cvm::rvector const r = (q2 - p1) - d; double const D = det(a, b, c);
    double const l = det(r, b, c) / D, m = det(a, r, c) / D, n = det(a, b, r) / D;
    bool const lattice = std::fabs(l - std::floor(l + 0.5)) < 1e-6 && std::fabs(m - std::floor(m + 0.5)) < 1e-6 && std::fabs(n - std::floor(n + 0.5)) < 1e-6;
    bool const invariant = (d - ref).norm() < 1e-6 * (1.0 + ref.norm());
    if (!lattice || !invariant) { bad++; if (first.str().empty()) first << "pos2 shifted by (" << i << ", " << j << ", " << k << ") lattice vectors: displacement (" << d.x << ", " << d.y << ", " << d.z << ") vs unshifted (" << ref.x << ", " << ref.y << ", " << ref.z
      << "); removed vector in lattice coordinates (" << l << ", " << m << ", " << n << ")"; }
  }
  delete proxy;
  if (bad) REPLAY_FAIL("cell a=(" << a.x << "," << a.y << "," << a.z << ") b=(" << b.x << "," << b.y << "," << b.z << ") c=(" << c.x << "," << c.y << "," << c.z << "): " << bad << " of 45 lattice translations change the minimum-image displacement or remove a non-lattice vector; " << first.str());
  REPLAY_PASS("minimum-image displacement is invariant under 45 lattice translations and differs from pos2 - pos1 by a lattice vector");
}

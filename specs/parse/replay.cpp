// Native replay for configuration-text helpers: real colvarmodule::getline / colvarparse::check_braces / to_lower_cppstr.
#include "replay_util.h"
#include "colvarmodule.h"
#include "colvarparse.h"
#include <cctype>
int main(int argc, char **argv) {
  if (argc < 3) return 2; std::string task(argv[1]); replay_vals v; if (!v.load(argv[2])) return 2;
  size_t n = v.arr_i("e_n", 0); if (n > 6) return 3;
  std::string s; for (size_t k = 0; k < n; k++) s.push_back((char) v.arr_i("e_s", (int) k));
  std::ostringstream in; in << task << " on the " << n << "-byte text {"; for (size_t k = 0; k < n; k++) in << (k ? "," : "") << int((unsigned char) s[k]); in << "}";
  if (task == "getline") {
    if (s.find('\n') != std::string::npos) { std::cout << "REPLAY: line contains LF, not a single line\n"; return 3; }
    std::istringstream is(s + "\n"); std::string line("previous"); cvm::getline(is, line);
    std::string ref = s; if (ref.size() && ref[ref.size() - 1] == '\r') ref.erase(ref.size() - 1);
    if (line != ref) REPLAY_FAIL(in.str() << ": delivered a line of " << line.size() << " bytes, expected " << ref.size() << " (LF and CRLF input must give the same text)");
    REPLAY_PASS(in.str());
  }
  if (task == "check_braces") {
    size_t start = v.arr_i("e_n", 1); long bal = 0; for (size_t k = start; k < n; k++) { if (s[k] == '{') bal++; if (s[k] == '}') bal--; }
    int r = colvarparse::check_braces(s, start);
    if ((r == COLVARS_OK) != (bal == 0)) REPLAY_FAIL(in.str() << " from position " << start << ": returned " << r << " but brace balance is " << bal);
    REPLAY_PASS(in.str());
  }
  if (task == "to_lower_cppstr") {
    std::string r = colvarparse::to_lower_cppstr(s); std::string ref = s; for (size_t k = 0; k < n; k++) if (ref[k] >= 'A' && ref[k] <= 'Z') ref[k] = char(ref[k] + 32);
    if (r != ref) REPLAY_FAIL(in.str() << ": case folding differs"); REPLAY_PASS(in.str());
  }
  return 3;
}

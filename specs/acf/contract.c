#include "contract.h"
TERM_GHOST_DEFS
int e_l[8]; int g_nev, g_ev_kind[6], g_ev_list[6], g_ev_node[6]; long long g_ev_len[6];
int g_throw, g_debug, g_vec_alloc; unsigned g_errors, g_error_bits; size_t g_alloc_bytes;
long long g_step_rel, g_step_abs; int g_sim_continuing, g_sim_running;
size_t nondet_size_t(void); int nondet_int(void); double nondet_double(void); _Bool nondet_bool(void); long long nondet_ll(void);
double k_floor(double x) { return x; } double k_sqrt(double x) { return x; } double k_pow(double x, double y) { return x; }
double k_boltzmann(void) { return 0.0; } double k_target_temperature(void) { return 0.0; } double k_dt(void) { return 1.0; } int k_same_step(void) { return 0; }
void h_acf_step(void) { g_debug = 0; g_tn = 0; g_nev = 0; g_step_rel = nondet_ll(); int ty = nondet_int(); _Bool self = nondet_bool();
  k_acf_step(ty, self, nondet_size_t(), nondet_size_t(), nondet_ll());
  if (g_nev == 3 && ty == 2 && !self) __CPROVER_assert(0, "canary: coordinate correlation with another variable reachable");
  if (g_nev == 3 && ty == 1 && self) __CPROVER_assert(0, "canary: velocity auto-correlation reachable"); }

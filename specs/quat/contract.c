#include "contract.h"
TERM_GHOST_DEFS
int g_node[16]; double e_d[8]; int g_wc, g_ww, g_ws;
int g_throw, g_debug, g_vec_alloc; unsigned g_errors, g_error_bits; size_t g_alloc_bytes;
long long g_step_rel, g_step_abs; int g_sim_continuing, g_sim_running;
size_t nondet_size_t(void); int nondet_int(void); double nondet_double(void); _Bool nondet_bool(void);
double k_floor(double x) { return x; } double k_sqrt(double x) { return x; } double k_pow(double x, double y) { return x; }
double k_boltzmann(void) { return 0.0; } double k_target_temperature(void) { return 0.0; } double k_dt(void) { return 1.0; } int k_same_step(void) { return 0; }
/* the witnesses are the nodes the computation is known to produce first: c is node 14 (8 leaves, 4 products, 3 sums -> index 14), see canaries */
void h_q_dist2(void) { g_debug = 0; g_tn = 0; g_wc = nondet_int(); g_ww = nondet_int(); double *in; k_q_dist2(in);
  if (WIT_OK && t_v(g_wc) > 0.0) __CPROVER_assert(0, "canary: same-hemisphere case reachable with valid witnesses");
  if (WIT_OK && !(t_v(g_wc) > 0.0)) __CPROVER_assert(0, "canary: opposite-hemisphere case reachable with valid witnesses"); }
void h_q_dist2_grad(void) { g_debug = 0; g_tn = 0; g_wc = nondet_int(); g_ww = nondet_int(); g_ws = nondet_int(); double *in; k_q_dist2_grad(in);
  if (WIT_OK && IS_FABS_S(g_ws) && t_v(g_ws) < 1.0E-14) __CPROVER_assert(0, "canary: null gradient case reachable");
  if (WIT_OK && IS_FABS_S(g_ws) && !(t_v(g_ws) < 1.0E-14) && t_v(g_wc) > 0.0) __CPROVER_assert(0, "canary: same-hemisphere gradient reachable");
  if (WIT_OK && IS_FABS_S(g_ws) && !(t_v(g_ws) < 1.0E-14) && !(t_v(g_wc) > 0.0)) __CPROVER_assert(0, "canary: opposite-hemisphere gradient reachable"); }

G = 'colvargrid.h'
UNIT = {
 'slices': [
  {'name': 'value_to_bin_scalar', 'src': G, 'sig': r'inline int value_to_bin_scalar\(colvarvalue const &value, const int i\) const', 'inc': 'value_to_bin_scalar.body.inc'},
  {'name': 'value_to_bin_scalar_bound', 'src': G, 'sig': r'inline int value_to_bin_scalar_bound\(colvarvalue const &value, const int i\) const', 'inc': 'value_to_bin_scalar_bound.body.inc'},
  {'name': 'bin_to_value_scalar', 'src': G, 'sig': r'inline colvarvalue bin_to_value_scalar\(int const &i_bin, int const i\) const', 'inc': 'bin_to_value_scalar.body.inc'},
  {'name': 'value_to_bin_scalar_fraction', 'src': G, 'sig': r'inline cvm::real value_to_bin_scalar_fraction\(colvarvalue const &value, const int i\) const', 'inc': 'value_to_bin_scalar_fraction.body.inc'},
 ],
 'assumed': ['cvm::floor == IEEE floor as modelled by CBMC (math.h floor)'],
 'tasks': [
  {'id': 'value_to_bin_scalar', 'properties': ['C15'], 'slices': ['value_to_bin_scalar'], 'harness': 'h_value_to_bin_scalar',
   'enforce': 'k_value_to_bin_scalar', 'fp': True, 'timeout': 200,
   'mutants': [('value.real_value - lower_boundaries[i].real_value', 'value.real_value + lower_boundaries[i].real_value'), ('cvm::floor(', '('), ('/ widths[i]', '* widths[i]')]},
  {'id': 'value_to_bin_scalar_bound', 'properties': ['C15'], 'slices': ['value_to_bin_scalar_bound'], 'harness': 'h_value_to_bin_scalar_bound',
   'enforce': 'k_value_to_bin_scalar_bound', 'fp': True, 'timeout': 200,
   'mutants': [('bin_index=int(nx[i])-1', 'bin_index=int(nx[i])'), ('if (bin_index < 0) bin_index=0;', '')]},
  {'id': 'bin_to_value_scalar', 'properties': ['C15'], 'slices': ['bin_to_value_scalar'], 'harness': 'h_bin_to_value_scalar',
   'enforce': 'k_bin_to_value_scalar', 'fp': True, 'timeout': 200,
   'mutants': [('0.5 + i_bin', '1.0 + i_bin')]},
  {'id': 'value_to_bin_scalar_fraction', 'properties': ['C15'], 'slices': ['value_to_bin_scalar_fraction'], 'harness': 'h_value_to_bin_scalar_fraction',
   'enforce': 'k_value_to_bin_scalar_fraction', 'fp': True, 'timeout': 200,
   'mutants': [('x - cvm::floor(x)', 'cvm::floor(x) - x')]},
 ],
}

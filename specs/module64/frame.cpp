// Frame TU for colvarmodule::calc_colvars head (C08), 64-bit step numbers.  Region sliced verbatim from src/colvarmodule.cpp.
#include <vector>
#include <cvm_stub.h>
#include <cvs_echo.h>
extern "C" { extern long long e_l[16]; }
// ---- colvarmodule::calc_colvars, head: which biases / variables are awake at this step (C08) ----
extern "C" void k_awake(int kind, int tag, int on);   // kind 0 = bias, 1 = variable
struct colvardeps { enum features_biases
#include "features_biases.body.inc"
  ; enum features_colvar
#include "features_colvar.body.inc"
  ; };
// stand-in for a colvardeps object with the two capabilities that matter here: "awake" requires "active"; an object is active from its
// initialisation; enabling awake (re)activates it and holds a reference on active; disabling an enabled awake releases that reference and
// the object goes to sleep (auto-disable); disabling a capability that is off does nothing (colvardeps::disable)
struct obj_stub { int kind, tag, tsf; bool active_, awake_;
  int get_time_step_factor() const { return tsf; }
  int enable(int f) { k_awake(kind, tag, 1); if (f == 1) { awake_ = true; active_ = true; } else { active_ = true; } return 0; }
  int disable(int f) { k_awake(kind, tag, 0); if (f == 1) { if (awake_) { awake_ = false; active_ = false; } } else { active_ = false; awake_ = false; } return 0; }
  bool is_enabled(int f = 0) const { return f == 1 ? awake_ : active_; } };
typedef obj_stub colvarbias_t; 
#define colvarbias obj_stub
#define colvar obj_stub
struct K_cc {
  std::vector<colvarbias *> biases;                //@real colvarmodule.h
  std::vector<colvar *> vars_, active_;
  std::vector<colvar *> *variables() { return &vars_; }
  std::vector<colvar *> *variables_active() { return &active_; }
  cvm::step_number step_absolute() const { return g_step_abs; }
  int body()
#include "calc_colvars_head.body.inc"
};
#undef colvarbias
#undef colvar
extern "C" { extern int g_active_tag[2]; extern size_t g_nactive; }
extern "C" { extern int g_state[6]; }
extern "C" int k_calc_colvars_head(int btsf, int vtsf0, int vtsf1, bool en0, bool en1, bool bawake, bool vawake) {
  K_cc f; obj_stub b0, v0, v1; obj_stub *bp[1], *vp[2], *ap[2];
  b0.kind = 0; b0.tag = 0; b0.tsf = btsf; b0.active_ = true; b0.awake_ = bawake; v0.kind = 1; v0.tag = 0; v0.tsf = vtsf0; v0.active_ = en0; v0.awake_ = vawake && en0; v1.kind = 1; v1.tag = 1; v1.tsf = vtsf1; v1.active_ = en1; v1.awake_ = false;
  e_l[10] = bawake; e_l[11] = vawake;
  bp[0] = &b0; vp[0] = &v0; vp[1] = &v1; CVS_VIEW(f.biases, bp, 1); CVS_VIEW(f.vars_, vp, 2); f.active_.p_ = ap; f.active_.n_ = 2; f.active_.cap_ = 2;
  e_l[5] = btsf; e_l[6] = vtsf0; e_l[7] = vtsf1; e_l[8] = en0; e_l[9] = en1; e_l[3] = g_step_abs;
  int r = f.body();
  g_state[0] = b0.active_; g_state[1] = b0.awake_; g_state[2] = v0.active_; g_state[3] = v0.awake_;
  g_nactive = f.active_.n_; for (size_t k = 0; k < 2; k++) { if (k < f.active_.n_) g_active_tag[k] = ap[k]->tag; }
  return r;
}

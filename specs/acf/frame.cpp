// Frame TU for the per-step branch of colvar::calc_acf (C19: which two time series enter the correlation function).
#include <vector>
#include <list>
#include <cvm_stub.h>
#include <cvs_echo.h>
#include <colvarvalue_sym.h>
#define CID_VEL (CID_USER + 1)
extern "C" { extern int e_l[8]; }
// events: kind 1 calc_vel_acf, 2 calc_coor_acf, 3 calc_p2coor_acf (list id, node of the current value); 4 history_add_value (list id, node, length); 5 history_incr (history id)
extern "C" void k_acf_ev(int kind, int list_id, int node, long long len);
struct cv_stub { int tag; colvarvalue value() const { colvarvalue r(sreal_call(CID_VALUE, tag)); return r; } colvarvalue velocity() const { colvarvalue r(sreal_call(CID_VEL, tag)); return r; } };
struct hist_t { int id; std::list<colvarvalue> cur; };
static void history_add_value(size_t const &history_length, std::list<colvarvalue> &history, colvarvalue const &new_value) { k_acf_ev(4, (int) history.n_, new_value.real_value.nid(), (long long) history_length); }
struct K_acf {
  enum acf_type_e
#include "acf_type_e.body.inc"
  ;
  cvm::step_number prev_timestep;              //@real colvar.h
  size_t acf_length;                           //@real colvar.h
  size_t acf_offset;                           //@real colvar.h
  acf_type_e acf_type;                         //@real colvar.h
  int acf_x_history, acf_v_history;            // real: std::list< std::list<colvarvalue> > (identified by an id here)
  std::list<colvarvalue> *acf_x_history_p, *acf_v_history_p;   // real: iterators into the lists of lists
  void calc_vel_acf(std::list<colvarvalue> &l, colvarvalue const &v) { k_acf_ev(1, (int) l.n_, v.real_value.nid(), 0); }
  void calc_coor_acf(std::list<colvarvalue> &l, colvarvalue const &v) { k_acf_ev(2, (int) l.n_, v.real_value.nid(), 0); }
  void calc_p2coor_acf(std::list<colvarvalue> &l, colvarvalue const &v) { k_acf_ev(3, (int) l.n_, v.real_value.nid(), 0); }
  void history_incr(int &h, std::list<colvarvalue> *&p) { k_acf_ev(5, h, -1, 0); }
  int tag_; colvarvalue value() const { colvarvalue r(sreal_call(CID_VALUE, tag_)); return r; } colvarvalue velocity() const { colvarvalue r(sreal_call(CID_VEL, tag_)); return r; }
  void body(cv_stub const *cfcv)
#include "acf_step.body.inc"
};
// lists are identified by their (fake) length: x list 101, v list 202; histories by id 7 (x) and 8 (v)
extern "C" void k_acf_step(int type, bool partner_is_self, size_t len, size_t off, long long prev) {
  g_tn = 0; K_acf f; f.tag_ = 0; cv_stub other; other.tag = partner_is_self ? 0 : 1; std::list<colvarvalue> xl, vl; colvarvalue dummy[1]; xl.p_ = dummy; xl.n_ = 101; vl.p_ = dummy; vl.n_ = 202;
  f.acf_x_history_p = &xl; f.acf_v_history_p = &vl; f.acf_x_history = 7; f.acf_v_history = 8; f.acf_type = (K_acf::acf_type_e) type; f.acf_length = len; f.acf_offset = off; f.prev_timestep = prev;
  e_l[0] = type; e_l[1] = partner_is_self; e_l[2] = (int) len; e_l[3] = (int) off;
  f.body(&other);
}

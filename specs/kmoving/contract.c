#include "contract.h"
TERM_GHOST_DEFS
long long e_l[16]; int g_node[24];
int g_throw, g_debug, g_vec_alloc; unsigned g_errors, g_error_bits; size_t g_alloc_bytes;
CVS_STEP_T g_step_rel, g_step_abs; int g_sim_continuing, g_sim_running;
size_t nondet_size_t(void); int nondet_int(void); double nondet_double(void); _Bool nondet_bool(void);
double k_floor(double x) { return x; } double k_sqrt(double x) { return x; } double k_pow(double x, double y) { return x; }
double k_boltzmann(void) { return 0.0; } double k_target_temperature(void) { return 0.0; } double k_dt(void) { return 1.0; } int k_same_step(void) { return 0; }
static void init(void) { g_debug = 0; g_tn = 0; g_step_abs = nondet_int(); g_step_rel = nondet_int(); g_sim_running = nondet_int(); }
void h_k_moving_update_cont(void) { init(); int *st; k_k_moving_update(nondet_bool(), nondet_bool(), 0, st, nondet_int(), nondet_int(), 0.0, 0);
  if (g_tn > 12) __CPROVER_assert(0, "canary: force constant updated"); if (g_tn <= 12 && g_sim_running) __CPROVER_assert(0, "canary: schedule over or off"); }
void h_k_moving_update_staged(void) { init(); int *st; k_k_moving_update(nondet_bool(), nondet_bool(), 1, st, 10, nondet_int(), nondet_double(), nondet_size_t());
  if (g_tn > 14) __CPROVER_assert(0, "canary: staged step reachable"); }
void h_k_moving_update_acc_work(void) { init(); k_k_moving_update_acc_work(nondet_bool(), nondet_bool()); if (g_node[13] != g_node[6]) __CPROVER_assert(0, "canary: work accumulated"); }

#include "contract.h"
size_t g_n, g_k; size_t *g_data, *g_other; size_t g_old_k; size_t e_z[8];
int g_throw, g_debug, g_vec_alloc; unsigned g_errors, g_error_bits; size_t g_alloc_bytes;
long long g_step_rel, g_step_abs; int g_sim_continuing, g_sim_running;
size_t nondet_size_t(void);
double k_floor(double x) { return x; } double k_sqrt(double x) { return x; } double k_pow(double x, double y) { return x; }
double k_boltzmann(void) { return 0.0; } double k_target_temperature(void) { return 0.0; } double k_dt(void) { return 1.0; }
#define HG(NAME) void h_##NAME(void) { size_t *d, *o; g_debug = 0; size_t n = nondet_size_t(); \
  int r = k_##NAME(d, n, nondet_size_t(), o, nondet_size_t(), nondet_size_t(), nondet_size_t()); \
  if (r && n > 100) __CPROVER_assert(0, "canary: " #NAME " succeeds on a grid of more than 100 elements"); \
  if (!r) __CPROVER_assert(0, "canary: " #NAME " refusal reachable"); }
HG(copy_grid) HG(delta_grid) HG(add_grid)

// Native replay for the width statements of colvarbias_meta::init (C05): real module + stub proxy.  The same Gaussians (sigma = 1.0, grid width 0.5)
// are configured once with hillWidth 4.0 and once with gaussianSigmas 1.0.  Two hills are deposited at 8.75 (2.5 grid points inside the upper
// boundary 10), then the variable moves to 10.25, outside the grid, where two more are deposited.  Outside the grid the bias energy must equal the
// analytic sum of all Gaussians, in both configurations.
#include "replay_util.h"
#include <cmath>
#include <vector>
#include "colvarmodule.h"
#include "colvarproxy.h"
#include "colvarbias.h"
#include "colvarproxy_stub.h"
#include "colvarproxy_stub.cpp"
static int run(bool sigmas, std::ostringstream &msg) {
  colvarproxy_stub *p = new colvarproxy_stub(); p->set_unit_system("real", false); p->colvars->setup_input(); p->colvars->setup_output(); for (int a = 0; a < 2; a++) p->init_atom(a + 1);
  std::string c = "colvarsTrajFrequency 0\ncolvarsRestartFrequency 0\ncolvar {\n  name d\n  lowerBoundary 0.0\n  upperBoundary 10.0\n  width 0.5\n  distance {\n    group1 { atomNumbers 1 }\n    group2 { atomNumbers 2 }\n  }\n}\n"
     "metadynamics {\n  name m\n  colvars d\n  hillWeight 1.0\n  newHillFrequency 2\n";
  c += sigmas ? "  gaussianSigmas 1.0\n}\n" : "  hillWidth 4.0\n}\n";
  if (p->colvars->read_config_string(c)) { delete p; return -1; }
  int bad = 0;
  for (long s = 0; s <= 8; s++) { double const x = (s <= 4) ? 8.75 : 10.25; std::vector<cvm::atom_pos> &pos = *(p->modify_atom_positions()); pos[0] = cvm::atom_pos(0, 0, 0); pos[1] = cvm::atom_pos(x, 0, 0);
    p->colvars->it = s; p->colvars->calc(); double const E = p->colvars->biases[0]->get_energy();
    double ref = 0.0; for (long h = 2; h <= s; h += 2) { double const ch = (h <= 4) ? 8.75 : 10.25; ref += std::exp(-0.5 * (x - ch) * (x - ch)); }
    if (s >= 5 && std::fabs(E - ref) > 1e-6) { if (!bad) msg << (sigmas ? "gaussianSigmas 1.0" : "hillWidth 4.0") << ": step " << s << " at " << x << " (outside the grid): bias energy " << E << ", analytic sum of the hills " << ref << "; "; bad++; } }
  delete p; return bad;
}
int main(int argc, char **argv) {
  if (argc < 3) return 2; std::ostringstream msg; int a = run(false, msg), b = run(true, msg);
  if (a < 0 || b < 0) { std::cout << "REPLAY: configuration rejected\n"; return 3; }
  if (a || b) REPLAY_FAIL("identical Gaussians given as hillWidth (" << a << " of 4 off-grid steps wrong) and as gaussianSigmas (" << b << " of 4 wrong): " << msg.str());
  REPLAY_PASS("hills 2.5 grid points inside the boundary are part of the analytic sum outside the grid with hillWidth and with gaussianSigmas");
}

#include "contract.h"
long long e_l[16];
int g_throw, g_debug, g_vec_alloc; unsigned g_errors, g_error_bits; size_t g_alloc_bytes;
CVS_STEP_T g_step_rel, g_step_abs; int g_sim_continuing, g_sim_running;
int g_stream_good, g_nlabel, g_ndata, g_nflush, g_io_ok;
size_t nondet_size_t(void); int nondet_int(void); long long nondet_ll(void);
double k_floor(double x) { return x; } double k_sqrt(double x) { return x; } double k_pow(double x, double y) { return x; }
double k_boltzmann(void) { return 0.0; } double k_target_temperature(void) { return 0.0; } double k_dt(void) { return 1.0; }
void h_write_traj_files(void) { _Bool *wl; g_step_abs = nondet_int(); g_step_rel = nondet_int(); g_stream_good = nondet_int(); g_io_ok = nondet_int();
  k_write_traj_files(5, wl, 7);
  if (g_ndata == 1 && g_nlabel == 0 && g_step_rel > 0) __CPROVER_assert(0, "canary: data line without label after a restart reachable");
  if (g_ndata == 0 && g_stream_good) __CPROVER_assert(0, "canary: step without data line reachable"); }

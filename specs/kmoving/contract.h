/* Contracts for the changing-force-constant restraint (C06, C03), symbolic reals, 32-bit step numbers.
   Continuous schedule: while step - first <= n, k = k0 + (k1 - k0) * lambda^e with lambda = (step-first)/n (1 - that when decoupling) and the
   increment is k_new - k_old; AFTER the schedule k stays and the increment is ZERO (so no work is accumulated any more).
   Staged schedule (n = 10): the stage advances by one, resetting the TI accumulator, exactly on steps with (step-first) % n == 0 beyond the
   first step, while stages remain -- and not on the repeated first step of a run segment. */
#ifndef KMOVING_CONTRACT_H
#define KMOVING_CONTRACT_H
#include <stddef.h>
#include "../common/term.h"
extern long long e_l[16]; extern int g_node[24];
extern int g_throw, g_debug; extern unsigned g_errors, g_error_bits;
extern CVS_STEP_T g_step_rel, g_step_abs; extern int g_sim_continuing, g_sim_running;
#define CID_DUDK (CID_USER + 8)
#define O(x) __CPROVER_old(x)
#define N(k) g_node[k]
#define IS_K0(n) P_SAME(n, N(2))
#define IS_K1(n) P_SAME(n, N(3))
#define IS_EXP(n) P_SAME(n, N(4))
#define L_ONE(n) P_LEAF(n, 1.0)
#define L_ZERO(n) P_LEAF(n, 0.0)
#define L_ELAPSED(n) P_LEAF(n, (double)(g_step_abs - first))
#define L_NSTEPS(n) P_LEAF(n, (double) nsteps)
#define T_FRAC(n) P_BIN6(n, T_DIV, L_ELAPSED, L_NSTEPS)
#define T_LAMBDA(n) (decoupling ? P_BIN5(n, T_SUB, L_ONE, T_FRAC) : T_FRAC(n))
#define T_POW(n) P_CALL2_4(n, CID_POW, T_LAMBDA, IS_EXP)
#define T_DK(n) P_BIN4(n, T_SUB, IS_K1, IS_K0)
#define T_SCALED(n) P_BIN3(n, T_MUL, T_DK, T_POW)
#define T_KNEW(n) P_BIN2(n, T_ADD, IS_K0, T_SCALED)
#define STEPS_OK (g_step_abs >= 0 && g_step_abs <= 1000000000 && g_step_rel >= 0 && g_step_rel <= g_step_abs && first >= 0 && first <= 1000000000 && nsteps >= 1 && nsteps <= 1000000000)
int k_k_moving_update(_Bool chg, _Bool decoupling, int nstages, int *stage, CVS_STEP_T nsteps, CVS_STEP_T first, double equil, size_t nsched)
__CPROVER_requires(__CPROVER_is_fresh(stage, sizeof(int)) && STEPS_OK && g_tn == 0 && (g_sim_running == 0 || g_sim_running == 1) && equil >= 0.0 && equil <= 1000.0)
__CPROVER_requires(nstages >= 0 && nstages <= 1 && *stage >= 0 && *stage <= nstages && (nsched == 0 || nsched == (size_t) nstages + 1) && (nstages == 0 || nsteps == 10))
__CPROVER_assigns(__CPROVER_object_whole(e_l), __CPROVER_object_whole(g_node), TERM_FRAME, *stage)
__CPROVER_ensures((!g_sim_running || !chg) ==> (N(10) == N(0) && N(11) == N(1) && N(12) == N(5) && *stage == O(*stage)))
/* continuous schedule */
__CPROVER_ensures((g_sim_running && chg && nstages == 0 && g_step_abs - first <= nsteps) ==>
   (T_KNEW(N(10)) && TVALID(N(11)) && g_top(N(11)) == T_SUB && g_ta(N(11)) == N(10) && g_tb(N(11)) == N(0) && *stage == O(*stage)))
__CPROVER_ensures((g_sim_running && chg && nstages == 0 && g_step_abs - first > nsteps) ==> (N(10) == N(0) && L_ZERO(N(11))))
/* staged schedule: when the stage advances */
#define STAGE_DUE ((g_step_abs - first) % 10 == 0 && g_step_abs > first && O(*stage) < nstages && g_step_rel > 0)
__CPROVER_ensures((g_sim_running && chg && nstages > 0) ==> (*stage == O(*stage) + (STAGE_DUE ? 1 : 0)))
__CPROVER_ensures((g_sim_running && chg && nstages > 0 && STAGE_DUE) ==> L_ZERO(N(12)))
;
/* accumulated work: acc + (sum_i dU/dk_i) * k increment, on advancing steps only */
#define IS_ACC(n) P_SAME(n, N(6))
#define IS_INCR(n) P_SAME(n, N(1))
#define T_DU0(n) P_VCALL0(n, CID_DUDK, 0)
#define T_DUSUM(n) P_BIN4(n, T_ADD, L_ZERO, T_DU0)
#define T_WORK(n) P_BIN3(n, T_MUL, T_DUSUM, IS_INCR)
int k_k_moving_update_acc_work(_Bool chg, _Bool out_work)
__CPROVER_requires(g_tn == 0 && g_step_rel >= 0 && (g_sim_running == 0 || g_sim_running == 1))
__CPROVER_assigns(__CPROVER_object_whole(e_l), __CPROVER_object_whole(g_node), TERM_FRAME)
__CPROVER_ensures((g_sim_running && chg && out_work && g_step_rel > 0) ==> P_BIN2(N(13), T_ADD, IS_ACC, T_WORK))
__CPROVER_ensures(!(g_sim_running && chg && out_work && g_step_rel > 0) ==> N(13) == N(6))
;
#endif

/* Contract-side view of the ghost term table built by stubs/sreal.h.  A contract describes the expression a function
   must compute as a pattern over the table, starting from the node of the result; operand order matters (the
   pattern is the documented formula), evaluation order does not. */
#ifndef TERM_H
#define TERM_H
#ifndef T_NT
#define T_NT 72
#endif
#define T_LEAF 1
#define T_ADD 2
#define T_SUB 3
#define T_MUL 4
#define T_DIV 5
#define T_NEG 6
#define T_CALL 7
extern unsigned long long g_tw[T_NT]; extern double g_tv[T_NT];
extern int g_tn_;
#define g_tn g_tn_
/* one packed word per node (stubs/sreal.h): operator, operands a, b, c stored +1 */
#define g_top(n) ((int) (g_tw[n] & 255))
#define g_ta(n) ((int) ((g_tw[n] >> 8) & 65535) - 1)
#define g_tb(n) ((int) ((g_tw[n] >> 24) & 65535) - 1)
#define g_tc(n) ((int) ((g_tw[n] >> 40) & 65535) - 1)
#define TERM_GHOST_DEFS int g_tn_; unsigned long long g_tw[T_NT]; double g_tv[T_NT];
#define TERM_FRAME g_tn_, __CPROVER_object_whole(g_tw), __CPROVER_object_whole(g_tv)
#define TVALID(n) ((n) >= 0 && (n) < g_tn && (n) < T_NT)
/* node n is the literal/input value x */
#define P_LEAF(n, x) P_LEAF_X(n, x, __COUNTER__)
#define P_LEAF_X(n, x, u) P_LEAF_Y(n, x, u)
#define P_LEAF_Y(n, x, u) ({ int nn_##u = (n); (TVALID(nn_##u) && g_top(nn_##u) == T_LEAF && g_tv[nn_##u] == (x)) || (nn_##u == -1 && (x) == 0.0); })   /* -1: a real never assigned (0.0) */
/* The C preprocessor does not re-expand a macro inside its own expansion, so every pattern constructor exists in
   identical copies 1..7: a pattern at nesting depth d (root = 1) uses the copy numbered d.  Each copy evaluates its node
   argument ONCE into a uniquely named (__COUNTER__) local of a GNU statement expression: plain textual nesting repeats the argument at every level
   (4^depth array reads), which made symbolic execution of deep patterns the dominant cost. */
#define P_BIN1(n, op, A, B) P_BIN1_X(n, op, A, B, __COUNTER__)
#define P_BIN1_X(n, op, A, B, u) P_BIN1_Y(n, op, A, B, u)
#define P_BIN1_Y(n, op, A, B, u) ({ int nn_##u = (n); TVALID(nn_##u) && g_top(nn_##u) == (op) && A(g_ta(nn_##u)) && B(g_tb(nn_##u)); })
#define P_NEG1(n, A) P_NEG1_X(n, A, __COUNTER__)
#define P_NEG1_X(n, A, u) P_NEG1_Y(n, A, u)
#define P_NEG1_Y(n, A, u) ({ int nn_##u = (n); TVALID(nn_##u) && g_top(nn_##u) == T_NEG && A(g_ta(nn_##u)); })
#define P_CALL1_1(n, cid, A) P_CALL1_1_X(n, cid, A, __COUNTER__)
#define P_CALL1_1_X(n, cid, A, u) P_CALL1_1_Y(n, cid, A, u)
#define P_CALL1_1_Y(n, cid, A, u) ({ int nn_##u = (n); TVALID(nn_##u) && g_top(nn_##u) == T_CALL + (cid) && A(g_ta(nn_##u)); })
#define P_CALL2_1(n, cid, A, B) P_CALL2_1_X(n, cid, A, B, __COUNTER__)
#define P_CALL2_1_X(n, cid, A, B, u) P_CALL2_1_Y(n, cid, A, B, u)
#define P_CALL2_1_Y(n, cid, A, B, u) ({ int nn_##u = (n); TVALID(nn_##u) && g_top(nn_##u) == T_CALL + (cid) && A(g_ta(nn_##u)) && B(g_tb(nn_##u)); })
#define P_CALL3_1(n, cid, A, B, C) P_CALL3_1_X(n, cid, A, B, C, __COUNTER__)
#define P_CALL3_1_X(n, cid, A, B, C, u) P_CALL3_1_Y(n, cid, A, B, C, u)
#define P_CALL3_1_Y(n, cid, A, B, C, u) ({ int nn_##u = (n); TVALID(nn_##u) && g_top(nn_##u) == T_CALL + (cid) && A(g_ta(nn_##u)) && B(g_tb(nn_##u)) && C(g_tc(nn_##u)); })
#define P_VCALL1_1(n, cid, tag, B) P_VCALL1_1_X(n, cid, tag, B, __COUNTER__)
#define P_VCALL1_1_X(n, cid, tag, B, u) P_VCALL1_1_Y(n, cid, tag, B, u)
#define P_VCALL1_1_Y(n, cid, tag, B, u) ({ int nn_##u = (n); TVALID(nn_##u) && g_top(nn_##u) == T_CALL + (cid) && g_ta(nn_##u) == (tag) && B(g_tb(nn_##u)); })
#define P_VCALL2_1(n, cid, tag, B, C) P_VCALL2_1_X(n, cid, tag, B, C, __COUNTER__)
#define P_VCALL2_1_X(n, cid, tag, B, C, u) P_VCALL2_1_Y(n, cid, tag, B, C, u)
#define P_VCALL2_1_Y(n, cid, tag, B, C, u) ({ int nn_##u = (n); TVALID(nn_##u) && g_top(nn_##u) == T_CALL + (cid) && g_ta(nn_##u) == (tag) && B(g_tb(nn_##u)) && C(g_tc(nn_##u)); })
#define P_BIN2(n, op, A, B) P_BIN2_X(n, op, A, B, __COUNTER__)
#define P_BIN2_X(n, op, A, B, u) P_BIN2_Y(n, op, A, B, u)
#define P_BIN2_Y(n, op, A, B, u) ({ int nn_##u = (n); TVALID(nn_##u) && g_top(nn_##u) == (op) && A(g_ta(nn_##u)) && B(g_tb(nn_##u)); })
#define P_NEG2(n, A) P_NEG2_X(n, A, __COUNTER__)
#define P_NEG2_X(n, A, u) P_NEG2_Y(n, A, u)
#define P_NEG2_Y(n, A, u) ({ int nn_##u = (n); TVALID(nn_##u) && g_top(nn_##u) == T_NEG && A(g_ta(nn_##u)); })
#define P_CALL1_2(n, cid, A) P_CALL1_2_X(n, cid, A, __COUNTER__)
#define P_CALL1_2_X(n, cid, A, u) P_CALL1_2_Y(n, cid, A, u)
#define P_CALL1_2_Y(n, cid, A, u) ({ int nn_##u = (n); TVALID(nn_##u) && g_top(nn_##u) == T_CALL + (cid) && A(g_ta(nn_##u)); })
#define P_CALL2_2(n, cid, A, B) P_CALL2_2_X(n, cid, A, B, __COUNTER__)
#define P_CALL2_2_X(n, cid, A, B, u) P_CALL2_2_Y(n, cid, A, B, u)
#define P_CALL2_2_Y(n, cid, A, B, u) ({ int nn_##u = (n); TVALID(nn_##u) && g_top(nn_##u) == T_CALL + (cid) && A(g_ta(nn_##u)) && B(g_tb(nn_##u)); })
#define P_CALL3_2(n, cid, A, B, C) P_CALL3_2_X(n, cid, A, B, C, __COUNTER__)
#define P_CALL3_2_X(n, cid, A, B, C, u) P_CALL3_2_Y(n, cid, A, B, C, u)
#define P_CALL3_2_Y(n, cid, A, B, C, u) ({ int nn_##u = (n); TVALID(nn_##u) && g_top(nn_##u) == T_CALL + (cid) && A(g_ta(nn_##u)) && B(g_tb(nn_##u)) && C(g_tc(nn_##u)); })
#define P_VCALL1_2(n, cid, tag, B) P_VCALL1_2_X(n, cid, tag, B, __COUNTER__)
#define P_VCALL1_2_X(n, cid, tag, B, u) P_VCALL1_2_Y(n, cid, tag, B, u)
#define P_VCALL1_2_Y(n, cid, tag, B, u) ({ int nn_##u = (n); TVALID(nn_##u) && g_top(nn_##u) == T_CALL + (cid) && g_ta(nn_##u) == (tag) && B(g_tb(nn_##u)); })
#define P_VCALL2_2(n, cid, tag, B, C) P_VCALL2_2_X(n, cid, tag, B, C, __COUNTER__)
#define P_VCALL2_2_X(n, cid, tag, B, C, u) P_VCALL2_2_Y(n, cid, tag, B, C, u)
#define P_VCALL2_2_Y(n, cid, tag, B, C, u) ({ int nn_##u = (n); TVALID(nn_##u) && g_top(nn_##u) == T_CALL + (cid) && g_ta(nn_##u) == (tag) && B(g_tb(nn_##u)) && C(g_tc(nn_##u)); })
#define P_BIN3(n, op, A, B) P_BIN3_X(n, op, A, B, __COUNTER__)
#define P_BIN3_X(n, op, A, B, u) P_BIN3_Y(n, op, A, B, u)
#define P_BIN3_Y(n, op, A, B, u) ({ int nn_##u = (n); TVALID(nn_##u) && g_top(nn_##u) == (op) && A(g_ta(nn_##u)) && B(g_tb(nn_##u)); })
#define P_NEG3(n, A) P_NEG3_X(n, A, __COUNTER__)
#define P_NEG3_X(n, A, u) P_NEG3_Y(n, A, u)
#define P_NEG3_Y(n, A, u) ({ int nn_##u = (n); TVALID(nn_##u) && g_top(nn_##u) == T_NEG && A(g_ta(nn_##u)); })
#define P_CALL1_3(n, cid, A) P_CALL1_3_X(n, cid, A, __COUNTER__)
#define P_CALL1_3_X(n, cid, A, u) P_CALL1_3_Y(n, cid, A, u)
#define P_CALL1_3_Y(n, cid, A, u) ({ int nn_##u = (n); TVALID(nn_##u) && g_top(nn_##u) == T_CALL + (cid) && A(g_ta(nn_##u)); })
#define P_CALL2_3(n, cid, A, B) P_CALL2_3_X(n, cid, A, B, __COUNTER__)
#define P_CALL2_3_X(n, cid, A, B, u) P_CALL2_3_Y(n, cid, A, B, u)
#define P_CALL2_3_Y(n, cid, A, B, u) ({ int nn_##u = (n); TVALID(nn_##u) && g_top(nn_##u) == T_CALL + (cid) && A(g_ta(nn_##u)) && B(g_tb(nn_##u)); })
#define P_CALL3_3(n, cid, A, B, C) P_CALL3_3_X(n, cid, A, B, C, __COUNTER__)
#define P_CALL3_3_X(n, cid, A, B, C, u) P_CALL3_3_Y(n, cid, A, B, C, u)
#define P_CALL3_3_Y(n, cid, A, B, C, u) ({ int nn_##u = (n); TVALID(nn_##u) && g_top(nn_##u) == T_CALL + (cid) && A(g_ta(nn_##u)) && B(g_tb(nn_##u)) && C(g_tc(nn_##u)); })
#define P_VCALL1_3(n, cid, tag, B) P_VCALL1_3_X(n, cid, tag, B, __COUNTER__)
#define P_VCALL1_3_X(n, cid, tag, B, u) P_VCALL1_3_Y(n, cid, tag, B, u)
#define P_VCALL1_3_Y(n, cid, tag, B, u) ({ int nn_##u = (n); TVALID(nn_##u) && g_top(nn_##u) == T_CALL + (cid) && g_ta(nn_##u) == (tag) && B(g_tb(nn_##u)); })
#define P_VCALL2_3(n, cid, tag, B, C) P_VCALL2_3_X(n, cid, tag, B, C, __COUNTER__)
#define P_VCALL2_3_X(n, cid, tag, B, C, u) P_VCALL2_3_Y(n, cid, tag, B, C, u)
#define P_VCALL2_3_Y(n, cid, tag, B, C, u) ({ int nn_##u = (n); TVALID(nn_##u) && g_top(nn_##u) == T_CALL + (cid) && g_ta(nn_##u) == (tag) && B(g_tb(nn_##u)) && C(g_tc(nn_##u)); })
#define P_BIN4(n, op, A, B) P_BIN4_X(n, op, A, B, __COUNTER__)
#define P_BIN4_X(n, op, A, B, u) P_BIN4_Y(n, op, A, B, u)
#define P_BIN4_Y(n, op, A, B, u) ({ int nn_##u = (n); TVALID(nn_##u) && g_top(nn_##u) == (op) && A(g_ta(nn_##u)) && B(g_tb(nn_##u)); })
#define P_NEG4(n, A) P_NEG4_X(n, A, __COUNTER__)
#define P_NEG4_X(n, A, u) P_NEG4_Y(n, A, u)
#define P_NEG4_Y(n, A, u) ({ int nn_##u = (n); TVALID(nn_##u) && g_top(nn_##u) == T_NEG && A(g_ta(nn_##u)); })
#define P_CALL1_4(n, cid, A) P_CALL1_4_X(n, cid, A, __COUNTER__)
#define P_CALL1_4_X(n, cid, A, u) P_CALL1_4_Y(n, cid, A, u)
#define P_CALL1_4_Y(n, cid, A, u) ({ int nn_##u = (n); TVALID(nn_##u) && g_top(nn_##u) == T_CALL + (cid) && A(g_ta(nn_##u)); })
#define P_CALL2_4(n, cid, A, B) P_CALL2_4_X(n, cid, A, B, __COUNTER__)
#define P_CALL2_4_X(n, cid, A, B, u) P_CALL2_4_Y(n, cid, A, B, u)
#define P_CALL2_4_Y(n, cid, A, B, u) ({ int nn_##u = (n); TVALID(nn_##u) && g_top(nn_##u) == T_CALL + (cid) && A(g_ta(nn_##u)) && B(g_tb(nn_##u)); })
#define P_CALL3_4(n, cid, A, B, C) P_CALL3_4_X(n, cid, A, B, C, __COUNTER__)
#define P_CALL3_4_X(n, cid, A, B, C, u) P_CALL3_4_Y(n, cid, A, B, C, u)
#define P_CALL3_4_Y(n, cid, A, B, C, u) ({ int nn_##u = (n); TVALID(nn_##u) && g_top(nn_##u) == T_CALL + (cid) && A(g_ta(nn_##u)) && B(g_tb(nn_##u)) && C(g_tc(nn_##u)); })
#define P_VCALL1_4(n, cid, tag, B) P_VCALL1_4_X(n, cid, tag, B, __COUNTER__)
#define P_VCALL1_4_X(n, cid, tag, B, u) P_VCALL1_4_Y(n, cid, tag, B, u)
#define P_VCALL1_4_Y(n, cid, tag, B, u) ({ int nn_##u = (n); TVALID(nn_##u) && g_top(nn_##u) == T_CALL + (cid) && g_ta(nn_##u) == (tag) && B(g_tb(nn_##u)); })
#define P_VCALL2_4(n, cid, tag, B, C) P_VCALL2_4_X(n, cid, tag, B, C, __COUNTER__)
#define P_VCALL2_4_X(n, cid, tag, B, C, u) P_VCALL2_4_Y(n, cid, tag, B, C, u)
#define P_VCALL2_4_Y(n, cid, tag, B, C, u) ({ int nn_##u = (n); TVALID(nn_##u) && g_top(nn_##u) == T_CALL + (cid) && g_ta(nn_##u) == (tag) && B(g_tb(nn_##u)) && C(g_tc(nn_##u)); })
#define P_BIN5(n, op, A, B) P_BIN5_X(n, op, A, B, __COUNTER__)
#define P_BIN5_X(n, op, A, B, u) P_BIN5_Y(n, op, A, B, u)
#define P_BIN5_Y(n, op, A, B, u) ({ int nn_##u = (n); TVALID(nn_##u) && g_top(nn_##u) == (op) && A(g_ta(nn_##u)) && B(g_tb(nn_##u)); })
#define P_NEG5(n, A) P_NEG5_X(n, A, __COUNTER__)
#define P_NEG5_X(n, A, u) P_NEG5_Y(n, A, u)
#define P_NEG5_Y(n, A, u) ({ int nn_##u = (n); TVALID(nn_##u) && g_top(nn_##u) == T_NEG && A(g_ta(nn_##u)); })
#define P_CALL1_5(n, cid, A) P_CALL1_5_X(n, cid, A, __COUNTER__)
#define P_CALL1_5_X(n, cid, A, u) P_CALL1_5_Y(n, cid, A, u)
#define P_CALL1_5_Y(n, cid, A, u) ({ int nn_##u = (n); TVALID(nn_##u) && g_top(nn_##u) == T_CALL + (cid) && A(g_ta(nn_##u)); })
#define P_CALL2_5(n, cid, A, B) P_CALL2_5_X(n, cid, A, B, __COUNTER__)
#define P_CALL2_5_X(n, cid, A, B, u) P_CALL2_5_Y(n, cid, A, B, u)
#define P_CALL2_5_Y(n, cid, A, B, u) ({ int nn_##u = (n); TVALID(nn_##u) && g_top(nn_##u) == T_CALL + (cid) && A(g_ta(nn_##u)) && B(g_tb(nn_##u)); })
#define P_CALL3_5(n, cid, A, B, C) P_CALL3_5_X(n, cid, A, B, C, __COUNTER__)
#define P_CALL3_5_X(n, cid, A, B, C, u) P_CALL3_5_Y(n, cid, A, B, C, u)
#define P_CALL3_5_Y(n, cid, A, B, C, u) ({ int nn_##u = (n); TVALID(nn_##u) && g_top(nn_##u) == T_CALL + (cid) && A(g_ta(nn_##u)) && B(g_tb(nn_##u)) && C(g_tc(nn_##u)); })
#define P_VCALL1_5(n, cid, tag, B) P_VCALL1_5_X(n, cid, tag, B, __COUNTER__)
#define P_VCALL1_5_X(n, cid, tag, B, u) P_VCALL1_5_Y(n, cid, tag, B, u)
#define P_VCALL1_5_Y(n, cid, tag, B, u) ({ int nn_##u = (n); TVALID(nn_##u) && g_top(nn_##u) == T_CALL + (cid) && g_ta(nn_##u) == (tag) && B(g_tb(nn_##u)); })
#define P_VCALL2_5(n, cid, tag, B, C) P_VCALL2_5_X(n, cid, tag, B, C, __COUNTER__)
#define P_VCALL2_5_X(n, cid, tag, B, C, u) P_VCALL2_5_Y(n, cid, tag, B, C, u)
#define P_VCALL2_5_Y(n, cid, tag, B, C, u) ({ int nn_##u = (n); TVALID(nn_##u) && g_top(nn_##u) == T_CALL + (cid) && g_ta(nn_##u) == (tag) && B(g_tb(nn_##u)) && C(g_tc(nn_##u)); })
#define P_BIN6(n, op, A, B) P_BIN6_X(n, op, A, B, __COUNTER__)
#define P_BIN6_X(n, op, A, B, u) P_BIN6_Y(n, op, A, B, u)
#define P_BIN6_Y(n, op, A, B, u) ({ int nn_##u = (n); TVALID(nn_##u) && g_top(nn_##u) == (op) && A(g_ta(nn_##u)) && B(g_tb(nn_##u)); })
#define P_NEG6(n, A) P_NEG6_X(n, A, __COUNTER__)
#define P_NEG6_X(n, A, u) P_NEG6_Y(n, A, u)
#define P_NEG6_Y(n, A, u) ({ int nn_##u = (n); TVALID(nn_##u) && g_top(nn_##u) == T_NEG && A(g_ta(nn_##u)); })
#define P_CALL1_6(n, cid, A) P_CALL1_6_X(n, cid, A, __COUNTER__)
#define P_CALL1_6_X(n, cid, A, u) P_CALL1_6_Y(n, cid, A, u)
#define P_CALL1_6_Y(n, cid, A, u) ({ int nn_##u = (n); TVALID(nn_##u) && g_top(nn_##u) == T_CALL + (cid) && A(g_ta(nn_##u)); })
#define P_CALL2_6(n, cid, A, B) P_CALL2_6_X(n, cid, A, B, __COUNTER__)
#define P_CALL2_6_X(n, cid, A, B, u) P_CALL2_6_Y(n, cid, A, B, u)
#define P_CALL2_6_Y(n, cid, A, B, u) ({ int nn_##u = (n); TVALID(nn_##u) && g_top(nn_##u) == T_CALL + (cid) && A(g_ta(nn_##u)) && B(g_tb(nn_##u)); })
#define P_CALL3_6(n, cid, A, B, C) P_CALL3_6_X(n, cid, A, B, C, __COUNTER__)
#define P_CALL3_6_X(n, cid, A, B, C, u) P_CALL3_6_Y(n, cid, A, B, C, u)
#define P_CALL3_6_Y(n, cid, A, B, C, u) ({ int nn_##u = (n); TVALID(nn_##u) && g_top(nn_##u) == T_CALL + (cid) && A(g_ta(nn_##u)) && B(g_tb(nn_##u)) && C(g_tc(nn_##u)); })
#define P_VCALL1_6(n, cid, tag, B) P_VCALL1_6_X(n, cid, tag, B, __COUNTER__)
#define P_VCALL1_6_X(n, cid, tag, B, u) P_VCALL1_6_Y(n, cid, tag, B, u)
#define P_VCALL1_6_Y(n, cid, tag, B, u) ({ int nn_##u = (n); TVALID(nn_##u) && g_top(nn_##u) == T_CALL + (cid) && g_ta(nn_##u) == (tag) && B(g_tb(nn_##u)); })
#define P_VCALL2_6(n, cid, tag, B, C) P_VCALL2_6_X(n, cid, tag, B, C, __COUNTER__)
#define P_VCALL2_6_X(n, cid, tag, B, C, u) P_VCALL2_6_Y(n, cid, tag, B, C, u)
#define P_VCALL2_6_Y(n, cid, tag, B, C, u) ({ int nn_##u = (n); TVALID(nn_##u) && g_top(nn_##u) == T_CALL + (cid) && g_ta(nn_##u) == (tag) && B(g_tb(nn_##u)) && C(g_tc(nn_##u)); })
#define P_BIN7(n, op, A, B) P_BIN7_X(n, op, A, B, __COUNTER__)
#define P_BIN7_X(n, op, A, B, u) P_BIN7_Y(n, op, A, B, u)
#define P_BIN7_Y(n, op, A, B, u) ({ int nn_##u = (n); TVALID(nn_##u) && g_top(nn_##u) == (op) && A(g_ta(nn_##u)) && B(g_tb(nn_##u)); })
#define P_NEG7(n, A) P_NEG7_X(n, A, __COUNTER__)
#define P_NEG7_X(n, A, u) P_NEG7_Y(n, A, u)
#define P_NEG7_Y(n, A, u) ({ int nn_##u = (n); TVALID(nn_##u) && g_top(nn_##u) == T_NEG && A(g_ta(nn_##u)); })
#define P_CALL1_7(n, cid, A) P_CALL1_7_X(n, cid, A, __COUNTER__)
#define P_CALL1_7_X(n, cid, A, u) P_CALL1_7_Y(n, cid, A, u)
#define P_CALL1_7_Y(n, cid, A, u) ({ int nn_##u = (n); TVALID(nn_##u) && g_top(nn_##u) == T_CALL + (cid) && A(g_ta(nn_##u)); })
#define P_CALL2_7(n, cid, A, B) P_CALL2_7_X(n, cid, A, B, __COUNTER__)
#define P_CALL2_7_X(n, cid, A, B, u) P_CALL2_7_Y(n, cid, A, B, u)
#define P_CALL2_7_Y(n, cid, A, B, u) ({ int nn_##u = (n); TVALID(nn_##u) && g_top(nn_##u) == T_CALL + (cid) && A(g_ta(nn_##u)) && B(g_tb(nn_##u)); })
#define P_CALL3_7(n, cid, A, B, C) P_CALL3_7_X(n, cid, A, B, C, __COUNTER__)
#define P_CALL3_7_X(n, cid, A, B, C, u) P_CALL3_7_Y(n, cid, A, B, C, u)
#define P_CALL3_7_Y(n, cid, A, B, C, u) ({ int nn_##u = (n); TVALID(nn_##u) && g_top(nn_##u) == T_CALL + (cid) && A(g_ta(nn_##u)) && B(g_tb(nn_##u)) && C(g_tc(nn_##u)); })
#define P_VCALL1_7(n, cid, tag, B) P_VCALL1_7_X(n, cid, tag, B, __COUNTER__)
#define P_VCALL1_7_X(n, cid, tag, B, u) P_VCALL1_7_Y(n, cid, tag, B, u)
#define P_VCALL1_7_Y(n, cid, tag, B, u) ({ int nn_##u = (n); TVALID(nn_##u) && g_top(nn_##u) == T_CALL + (cid) && g_ta(nn_##u) == (tag) && B(g_tb(nn_##u)); })
#define P_VCALL2_7(n, cid, tag, B, C) P_VCALL2_7_X(n, cid, tag, B, C, __COUNTER__)
#define P_VCALL2_7_X(n, cid, tag, B, C, u) P_VCALL2_7_Y(n, cid, tag, B, C, u)
#define P_VCALL2_7_Y(n, cid, tag, B, C, u) ({ int nn_##u = (n); TVALID(nn_##u) && g_top(nn_##u) == T_CALL + (cid) && g_ta(nn_##u) == (tag) && B(g_tb(nn_##u)) && C(g_tc(nn_##u)); })
#define P_VCALL0(n, cid, tag) P_VCALL0_X(n, cid, tag, __COUNTER__)
#define P_VCALL0_X(n, cid, tag, u) P_VCALL0_Y(n, cid, tag, u)
#define P_VCALL0_Y(n, cid, tag, u) ({ int nn_##u = (n); TVALID(nn_##u) && g_top(nn_##u) == T_CALL + (cid) && g_ta(nn_##u) == (tag); })
/* call ids (same order as stubs/cvm_stub.h) */
#define CID_FLOOR 1
#define CID_SQRT 2
#define CID_POW 3
#define CID_EXP 4
#define CID_VALUE 5
#define CID_ACTUAL_VALUE 6
#define CID_DIST2 7
#define CID_DIST2_LGRAD 8
#define CID_DIST2_RGRAD 9
#define CID_WRAP 10
#define CID_CVV_DIST2 11
#define CID_CVV_DIST2_GRAD 12
#define CID_INTERPOLATE 13
#define CID_WIDTH 14
#define CID_USER 15
#define CID_ACOS 40
#define CID_SIN 41
#define CID_COS 42
#define CID_FABS 43
/* node n is exactly node m (shared sub-expression / pass-through) */
#define P_SAME(n, m) ((n) == (m))
#endif

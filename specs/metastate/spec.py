def s(name, src, sig, **kw): d = {'name': name, 'src': src, 'sig': sig, 'inc': name + '.body.inc'}; d.update(kw); return d
UNIT = {
 'slices': [
  s('read_hills', 'colvarbias_meta.cpp', r'template <typename IST> IST &colvarbias_meta::read_state_data_template_\(IST &is\)',
    **{'from': r'bool const existing_hills = !hills\.empty\(\);', 'until': r'// If rebinGrids is set'}),
  s('hill_skip', 'colvarbias_meta.cpp', r'template <typename IST> IST &colvarbias_meta::read_hill_template_\(IST &is\)',
    **{'from': r'if \(\(h_it <= state_file_step\) && !restart_keep_hills\) \{', 'until': r'hill_iter const hills_end = hills\.end\(\);', 'until_close': 'k_hill_kept(); return is;'}),
  s('write_project', 'colvarbias_meta.cpp', r'template <typename OST> OST &colvarbias_meta::write_state_data_template_\(OST &os\)',
    **{'from': r'project_hills\(new_hills_begin, hills\.end\(\)', 'until': r'// write down the grids to the restart file'}),
  s('add_hill', 'colvarbias_meta.cpp', r'colvarbias_meta::add_hill\(colvarbias_meta::hill const &h\)', until=r'// output to trajectory \(if specified\)', until_close='return hills.end();'),
 ],
 'assumed': ['statement range of colvarbias_meta::read_state_data_template_: from `bool const existing_hills = ...` (after the grids have been read) to the pruning of the pre-existing hills; grid reading, rebinning and the TI data are not under contract',
             'add_hill is sliced up to the trajectory output; bin_distance_from_boundaries is a ghost value', 'write_state_data_template_: the two statements that tabulate the pending hills before the grids are written (project_hills is a logging stand-in)', 'std::list is a front-consumed view (erase of a prefix advances the view; iterators are element pointers, which models std::list iterator stability); read_hill appends a ghost number of hills (at most 2)'],
 'tasks': [
  {'id': 'read_hills', 'properties': ['C03', 'C05'], 'slices': ['read_hills'], 'harness': 'h_read_hills', 'enforce': 'k_read_hills', 'unwind': 5, 'unwind_body': 4,
   'bounded': 'at most 1 pre-existing and 2 restored hills (loop over read_hill unwound)',
   'mutants': [('hills.erase(hills.begin(), old_hills_end);', ''), ('if (existing_hills) {', 'if (!existing_hills) {'), ('restart_keep_hills = restart_keep_hills_saved;', ''), ('restart_keep_hills = true;', ''), ('new_hills_begin = hills.begin();', '')]},
  {'id': 'write_project', 'properties': ['C05', 'C03'], 'slices': ['write_project'], 'harness': 'h_write_project', 'enforce': 'k_write_project', 'unwind': 4,
   'mutants': [('new_hills_begin = hills.end();', ''), ('project_hills(new_hills_begin, hills.end(), hills_energy.get(), hills_energy_gradients.get());\n    new_hills_begin = hills.end();', 'new_hills_begin = hills.end();\n    project_hills(new_hills_begin, hills.end(), hills_energy.get(), hills_energy_gradients.get());')]},
  {'id': 'add_hill_once', 'properties': ['C05'], 'slices': ['add_hill'], 'harness': 'h_add_hill_once', 'enforce': 'k_add_hill_once', 'unwind': 4,
   'mutants': [('new_hills_begin--;', '')]},
  {'id': 'hill_skip', 'properties': ['C03', 'C14'], 'slices': ['hill_skip'], 'harness': 'h_hill_skip', 'enforce': 'k_hill_skip', 'replace': ['k_hill_kept'], 'unwind': 4,
   'mutants': [('(h_it <= state_file_step) && !restart_keep_hills', '(h_it < state_file_step) && !restart_keep_hills'), ('(h_it <= state_file_step) && !restart_keep_hills', '(h_it <= state_file_step)')]},
 ],
}

// Native replay for the awake schedule of colvarmodule::calc_colvars (C08): real module + stub proxy; a harmonic bias with timeStepFactor 3 in a
// run that starts at step 7 (not a multiple of 3).  The force applied to the atoms must be 3 x the instantaneous force on multiples of 3 and zero
// on every other step, from the first step of the run.
#include "replay_util.h"
#include <cmath>
#include <vector>
#include "colvarmodule.h"
#include "colvarproxy.h"
#include "colvarproxy_stub.h"
#include "colvarproxy_stub.cpp"
int main(int argc, char **argv) {
  if (argc < 3) return 2;
  colvarproxy_stub *p = new colvarproxy_stub(); p->set_unit_system("real", false); p->colvars->setup_input(); p->colvars->setup_output(); for (int a = 0; a < 2; a++) p->init_atom(a + 1);
  if (p->colvars->read_config_string("colvarsTrajFrequency 0\ncolvarsRestartFrequency 0\ncolvar {\n  name d\n  distance {\n    group1 { atomNumbers 1 }\n    group2 { atomNumbers 2 }\n  }\n}\n"
     "harmonic {\n  name h\n  colvars d\n  forceConstant 2.0\n  centers 1.0\n  timeStepFactor 3\n}\n")) { std::cout << "REPLAY: configuration rejected\n"; return 3; }
  p->colvars->it = p->colvars->it_restart = 7; int bad = 0; std::ostringstream first;
  for (long s = 7; s <= 13; s++) { std::vector<cvm::atom_pos> &pos = *(p->modify_atom_positions()); pos[0] = cvm::atom_pos(0, 0, 0); pos[1] = cvm::atom_pos(3.0, 0, 0);
    std::vector<cvm::rvector> &f = *(p->modify_atom_applied_forces()); f[0] = f[1] = cvm::rvector(0, 0, 0);
    p->colvars->it = s; p->colvars->calc(); double const fx = (*(p->modify_atom_applied_forces()))[1].x, want = (s % 3 == 0) ? -12.0 : 0.0;
    if (std::fabs(fx - want) > 1e-9) { bad++; if (first.str().empty()) first << "step " << s << ": force on atom 2 = " << fx << ", expected " << want; } }
  delete p;
  if (bad) REPLAY_FAIL("harmonic bias with timeStepFactor 3 in a run starting at step 7: " << bad << " of 7 steps apply a force off the multiple-time-step schedule; " << first.str());
  REPLAY_PASS("a bias with timeStepFactor 3 acts (with 3 x its force) exactly on multiples of 3 in a run starting at step 7");
}

#include "contract.h"
TERM_GHOST_DEFS
int g_wx;
int e_i[32]; int g_node[16]; int g_fid[8];
int g_throw, g_debug, g_vec_alloc; unsigned g_errors, g_error_bits; size_t g_alloc_bytes;
long long g_step_rel, g_step_abs; int g_sim_continuing, g_sim_running;
int g_curbin[2], g_cv_tfcurr[2], g_can_acc, g_same_step, g_ok_forcebin, g_ok_bin;
int g_nacc, g_acc_ix[2], g_ndiv, g_div_ix[2], g_nsys, g_nshare, g_ncbf, g_nidx, g_nvvs; double g_avg; int g_q_ix[4]; int g_q_ans[2];
size_t nondet_size_t(void); int nondet_int(void); double nondet_double(void); long long nondet_ll(void); _Bool nondet_bool(void);
double k_floor(double x) { return x; } double k_sqrt(double x) { return x; } double k_pow(double x, double y) { return x; }
double k_boltzmann(void) { return 0.0; } double k_target_temperature(void) { return 0.0; } double k_dt(void) { return 1.0; }
void cvs_set_fids(void);
static void init(void) { g_debug = 0; g_tn = 0; cvs_set_fids(); g_step_rel = nondet_ll(); g_can_acc = nondet_int(); g_same_step = nondet_int(); g_avg = nondet_double();
  for (int k = 0; k < 2; k++) { g_curbin[k] = nondet_int(); g_cv_tfcurr[k] = nondet_int(); g_q_ans[k] = nondet_int(); } }
void h_abf_update(void) { init(); _Bool *en; int *bin, *fb; size_t n = nondet_size_t();
  k_abf_update(en, n, bin, fb, nondet_bool());
  if (g_nacc == 1 && g_ncbf == 1 && n == 2) __CPROVER_assert(0, "canary: accumulate and apply in one step reachable (2 variables)");
  if (g_nacc == 0 && g_ncbf == 0) __CPROVER_assert(0, "canary: idle step reachable"); }
void h_calc_biasing_force(void) { init(); g_wx = nondet_int(); _Bool *en; size_t n = nondet_size_t(); _Bool p = nondet_bool(), c = nondet_bool();
  k_calc_biasing_force(en, n, p, c);
  if (n == 1 && p && c && g_top(g_node[10]) == T_MUL) __CPROVER_assert(0, "canary: capped negative periodic force reachable");
  if (n == 2) __CPROVER_assert(0, "canary: two variables reachable"); }

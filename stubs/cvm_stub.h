// Stub of the colvarmodule (cvm) static interface as used by sliced bodies.
#ifndef CVM_STUB_H
#define CVM_STUB_H
#include <cvs_base.h>
#define COLVARS_OK 0
#define COLVARS_ERROR 1
#define COLVARS_NOT_IMPLEMENTED (1<<1)
#define COLVARS_INPUT_ERROR     (1<<2)
#define COLVARS_BUG_ERROR       (1<<3)
#define COLVARS_FILE_ERROR      (1<<4)
#define COLVARS_MEMORY_ERROR    (1<<5)
#define COLVARS_NO_SUCH_FRAME   (1<<6)
struct CVS_MSG_T {};
extern CVS_MSG_T CVS_MSG;
extern "C" int g_debug;
extern "C" double k_floor(double);
extern "C" double k_sqrt(double);
struct colvarmodule {
  typedef double real;
  typedef long step_number;
  static bool debug() { return g_debug != 0; }
  static void log(CVS_MSG_T const &, int = 10) {}
  static int error(CVS_MSG_T const &, int code = COLVARS_ERROR) { g_errors = g_errors + 1; g_error_bits = g_error_bits | (unsigned)code; return code; }
  static real floor(real const &x) { return k_floor(x); }
  static real sqrt(real const &x) { return k_sqrt(x); }
  static real fabs(real const &x) { return x < 0.0 ? -x : x; }
};
#define cvm colvarmodule
#endif

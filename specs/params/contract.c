#include "contract.h"
long long e_l[8]; size_t g_rof; int g_fid[4]; int g_en[64]; int g_nbranch, g_can_acc; int g_kv_found; size_t g_kv_size; _Bool g_kv_bool;
int g_throw, g_debug, g_vec_alloc; unsigned g_errors, g_error_bits; size_t g_alloc_bytes;
long long g_step_rel, g_step_abs; int g_sim_continuing, g_sim_running;
size_t nondet_size_t(void); int nondet_int(void); long long nondet_ll(void); _Bool nondet_bool(void);
double k_floor(double x) { return x; } double k_sqrt(double x) { return x; } double k_pow(double x, double y) { return x; }
double k_boltzmann(void) { return 0.0; } double k_target_temperature(void) { return 0.0; } double k_dt(void) { return 1.0; } int k_same_step(void) { return 0; }
void cvs_set_fids(void);
static void init(void) { cvs_set_fids(); g_debug = 0; g_rof = nondet_size_t(); g_step_abs = nondet_ll(); g_can_acc = nondet_int(); g_errors = 0; for (int k = 0; k < 64; k++) g_en[k] = 0; }
void h_parse_runave(void) { init(); size_t *s, *l; k_parse_runave(s, l); if (g_en[g_fid[1]] && g_errors == 0) __CPROVER_assert(0, "canary: running average accepted"); if (g_errors) __CPROVER_assert(0, "canary: rejected"); }
void h_parse_acf(void) { init(); size_t *s; k_parse_acf(s); if (g_errors == 0) __CPROVER_assert(0, "canary: correlation function accepted"); }
void h_meta_init_hillfreq(void) { init(); size_t *f, *g; k_meta_init_hillfreq(f, g); if (g_en[g_fid[0]]) __CPROVER_assert(0, "canary: history dependent"); if (!g_en[g_fid[0]]) __CPROVER_assert(0, "canary: static bias (frequency 0)"); }
void h_meta_update_bias_guard(void) { init(); _Bool h = nondet_bool(); k_meta_update_bias_guard(nondet_size_t(), h); if (g_nbranch == 1) __CPROVER_assert(0, "canary: hill created"); if (!h) __CPROVER_assert(0, "canary: static bias step"); }
void h_meta_hill_schedule(void) { init(); _Bool h = nondet_bool(); k_meta_update_bias_sched(10, h); if (g_nbranch == 1) __CPROVER_assert(0, "canary: hill created"); if (g_nbranch == 0 && h && g_can_acc) __CPROVER_assert(0, "canary: off-schedule step"); }

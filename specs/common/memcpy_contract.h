/* Assumed contract of std::memcpy (C library; not proved): copying is only defined when both ranges are
   valid (else a failed obligation: out-of-bounds read/write); afterwards the first n bytes agree.  "All n bytes"
   is expressed quantifier-free: every byte for n <= 8, and the byte at the harness-chosen watch offset g_mw. */
#ifndef MEMCPY_CONTRACT_H
#define MEMCPY_CONTRACT_H
#include <stddef.h>
extern size_t g_mw;
#define MC_B(dst, src, k) (((unsigned char *)(dst))[k] == ((const unsigned char *)(src))[k])
void *k_memcpy(void *dst, const void *src, size_t n)
__CPROVER_requires(n == 0 || __CPROVER_r_ok(src, n))
__CPROVER_requires(n == 0 || __CPROVER_w_ok(dst, n))
__CPROVER_assigns(n > 0: __CPROVER_object_upto(dst, n))
__CPROVER_ensures(__CPROVER_return_value == dst)
__CPROVER_ensures((n >= 1 && n <= 8) ==> MC_B(dst, src, 0))
__CPROVER_ensures((n >= 2 && n <= 8) ==> MC_B(dst, src, 1))
__CPROVER_ensures((n >= 3 && n <= 8) ==> MC_B(dst, src, 2))
__CPROVER_ensures((n >= 4 && n <= 8) ==> MC_B(dst, src, 3))
__CPROVER_ensures((n >= 5 && n <= 8) ==> MC_B(dst, src, 4))
__CPROVER_ensures((n >= 6 && n <= 8) ==> MC_B(dst, src, 5))
__CPROVER_ensures((n >= 7 && n <= 8) ==> MC_B(dst, src, 6))
__CPROVER_ensures((n == 8) ==> MC_B(dst, src, 7))
__CPROVER_ensures((g_mw < n) ==> MC_B(dst, src, g_mw))
;
#endif

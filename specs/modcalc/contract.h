/* Contracts for colvarmodule::calc_biases and update_colvar_forces (C08, C01), symbolic reals, 2 biases, 2 variables.
   calc_biases: every variable's bias force is reset exactly once, before any bias is updated; the active list becomes exactly the enabled
   biases, in order; (serial path) each active bias is updated exactly once, in order; the total bias energy is
   (0 + E(b)) + E(b') over the ACTIVE biases only, whatever it was before.
   update_colvar_forces: each active bias communicates its forces exactly once; the engine receives the total bias energy, then the sum over
   ALL variables of their own energies; then exactly the active variables that apply forces communicate them to the atoms, in order. */
#ifndef MODCALC_CONTRACT_H
#define MODCALC_CONTRACT_H
#include <stddef.h>
#include "../common/term.h"
extern int g_out[8]; extern int e_l[12];
extern int g_throw, g_debug; extern unsigned g_errors, g_error_bits;
#define CID_BENERGY (CID_USER + 1)
#define CID_CVENERGY (CID_USER + 2)
extern int g_nev, g_ev_kind[16], g_ev_arg[16], g_smp, g_rcv[4];
void k_ev(int kind, int arg) __CPROVER_requires(0 <= g_nev && g_nev < 16) __CPROVER_assigns(g_nev, g_ev_kind[g_nev], g_ev_arg[g_nev])
  __CPROVER_ensures(g_nev == __CPROVER_old(g_nev) + 1 && g_ev_kind[g_nev - 1] == kind && g_ev_arg[g_nev - 1] == arg);
int k_smp_cvcs(void) __CPROVER_assigns() __CPROVER_ensures(__CPROVER_return_value == g_smp);
/* return codes of bias update / communicate_forces: ghost, small non-negative error bits */
int k_rc(int kind, int tag) __CPROVER_requires(tag >= 0 && tag < 2) __CPROVER_assigns() __CPROVER_ensures(__CPROVER_return_value == g_rcv[(kind == 2 ? 0 : 2) + tag]);
static int t_op(int n) { return TVALID(n) ? g_top(n) : -1; }
static int t_a(int n) { return TVALID(n) ? g_ta(n) : -2; }
static int t_b(int n) { return TVALID(n) ? g_tb(n) : -2; }
static _Bool is_leaf(int n, double x) { return P_LEAF(n, x); }
static _Bool is_be(int n, int tag) { return t_op(n) == T_CALL + CID_BENERGY && t_a(n) == tag; }
static _Bool is_ce(int n, int tag) { return t_op(n) == T_CALL + CID_CVENERGY && t_a(n) == tag; }
static _Bool ev(int k, int kind, int arg) { return k >= 0 && k < g_nev && k < 16 && g_ev_kind[k] == kind && g_ev_arg[k] == arg; }
/* total energy node for the enabled set */
static _Bool energy_ok(int e, _Bool en0, _Bool en1) {
  if (!en0 && !en1) return is_leaf(e, 0.0);
  if (en0 && !en1) return t_op(e) == T_ADD && is_leaf(t_a(e), 0.0) && is_be(t_b(e), 0);
  if (!en0 && en1) return t_op(e) == T_ADD && is_leaf(t_a(e), 0.0) && is_be(t_b(e), 1);
  return t_op(e) == T_ADD && is_be(t_b(e), 1) && t_op(t_a(e)) == T_ADD && is_leaf(t_a(t_a(e)), 0.0) && is_be(t_b(t_a(e)), 0); }
/* serial path, no scripted forces before the biases: events are reset(0), reset(1), then update of each enabled bias in order */
static _Bool serial_events_ok(_Bool en0, _Bool en1) { int n = 2 + (en0 ? 1 : 0) + (en1 ? 1 : 0);
  return g_nev == n && ev(0, 1, 0) && ev(1, 1, 1) && (en0 ? ev(2, 2, 0) : 1) && (en1 ? ev(en0 ? 3 : 2, 2, 1) : 1); }
#define RC_OK (g_rcv[0] >= 0 && g_rcv[0] <= 255 && g_rcv[1] >= 0 && g_rcv[1] <= 255 && g_rcv[2] >= 0 && g_rcv[2] <= 255 && g_rcv[3] >= 0 && g_rcv[3] <= 255)
int k_calc_biases(_Bool en0, _Bool en1, int share0, int share1, _Bool scripted, _Bool after)
__CPROVER_requires(g_tn == 0 && g_nev == 0 && g_errors == 0 && g_error_bits == 0 && (g_smp == 0 || g_smp == 1) && share0 >= 0 && share1 >= 0 && RC_OK)
__CPROVER_assigns(__CPROVER_object_whole(g_out), __CPROVER_object_whole(e_l), TERM_FRAME, g_nev, __CPROVER_object_whole(g_ev_kind), __CPROVER_object_whole(g_ev_arg))
/* active list = enabled biases, in order */
__CPROVER_ensures(g_out[1] == (en0 ? 1 : 0) + (en1 ? 1 : 0) && g_out[2] == (en0 ? 0 : (en1 ? 1 : -1)) && g_out[3] == ((en0 && en1) ? 1 : -1))
/* energy over the active biases only */
__CPROVER_ensures(energy_ok(g_out[0], en0, en1))
/* resets first */
__CPROVER_ensures(ev(0, 1, 0) && ev(1, 1, 1))
/* serial path without scripted forces: each enabled bias updated exactly once, in order, nothing else */
__CPROVER_ensures((!(g_smp && !((en0 && share0 > 0) || (en1 && share1 > 0))) && !(scripted && !after)) ==> serial_events_ok(en0, en1))
__CPROVER_ensures((!(g_smp && !((en0 && share0 > 0) || (en1 && share1 > 0))) && !(scripted && !after)) ==> __CPROVER_return_value == ((en0 ? g_rcv[0] : 0) | (en1 ? g_rcv[1] : 0)))
;
static _Bool ucf_events_ok(_Bool apply0, _Bool apply1, int nav, _Bool late_script) {
  /* communicate_forces of bias 0, bias 1; [scripted]; add_energy(total bias energy); energies of variable 0, 1; add_energy(sum); variables' forces */
  int k = 0;
  if (!ev(k, 3, 0)) return 0; k++;
  if (!ev(k, 3, 1)) return 0; k++;
  if (late_script) { if (!ev(k, 6, 0)) return 0; k++; }
  if (!ev(k, 4, g_out[4])) return 0; k++;
  if (!ev(k, 8, 0)) return 0; k++;
  if (!ev(k, 8, 1)) return 0; k++;
  if (!(k < g_nev && g_ev_kind[k] == 4)) return 0;
  { int e = g_ev_arg[k]; if (!(t_op(e) == T_ADD && is_ce(t_b(e), 1) && t_op(t_a(e)) == T_ADD && is_leaf(t_a(t_a(e)), 0.0) && is_ce(t_b(t_a(e)), 0))) return 0; } k++;
  /* active variables: [1] or [1, 0] */
  if (nav >= 1 && apply1) { if (!ev(k, 5, 1)) return 0; k++; }
  if (nav >= 2 && apply0) { if (!ev(k, 5, 0)) return 0; k++; }
  return g_nev == k; }
int k_update_colvar_forces(_Bool apply0, _Bool apply1, size_t nactive_vars, _Bool scripted, _Bool after)
__CPROVER_requires(g_tn == 0 && g_nev == 0 && g_errors == 0 && g_error_bits == 0 && nactive_vars <= 2 && RC_OK)
__CPROVER_assigns(__CPROVER_object_whole(g_out), __CPROVER_object_whole(e_l), TERM_FRAME, g_nev, __CPROVER_object_whole(g_ev_kind), __CPROVER_object_whole(g_ev_arg))
__CPROVER_ensures(ucf_events_ok(apply0, apply1, (int) nactive_vars, scripted && after))
__CPROVER_ensures(__CPROVER_return_value == (g_rcv[2] | g_rcv[3]))
;
#endif

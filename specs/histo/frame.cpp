// Frame TU for colvarbias_histogram::update (C15, C03).  Body sliced verbatim from src/colvarbias_histogram.cpp.
#include <vector>
#include <cvm_stub.h>
#include <cvs_echo.h>
extern "C" { extern int e_l[8]; extern int g_bin[2]; extern int g_ok[2]; extern int g_can; }
extern "C" void k_acc(int bin, double w);
struct grid_stub {
  int current_bin_scalar(int i) const { return g_bin[0]; }
  int current_bin_scalar(int i, int iv) const { return g_bin[iv]; }
  bool index_ok(std::vector<int> const &ix) const { return (ix[0] == g_bin[0] ? g_ok[0] : g_ok[1]) != 0; }
  void acc_value(std::vector<int> const &ix, double w) { k_acc(ix[0], w); } };
struct K_hu {
  struct colvarbias { static int update() { return COLVARS_OK; } };
  std::vector<int> bin;                        //@real colvarbias_histogram.h
  size_t colvar_array_size;                    //@real colvarbias_histogram.h
  std::vector<cvm::real> weights;              //@real colvarbias_histogram.h
  grid_stub *grid;                             // real: colvar_grid_scalar *grid;
  size_t nvar_; size_t num_variables() const { return nvar_; }
  bool can_accumulate_data() { return g_can != 0; }
  int body()
#include "histogram_update.body.inc"
};
extern "C" int k_histogram_update(size_t array_size, double w0, double w1) {
  K_hu f; grid_stub g; f.grid = &g; f.nvar_ = 1; f.colvar_array_size = array_size; int bv[2]; f.bin.p_ = bv; f.bin.n_ = 0; f.bin.cap_ = 2; double wv[2]; wv[0] = w0; wv[1] = w1; CVS_VIEW(f.weights, wv, array_size);
  e_l[0] = (int) array_size; e_l[1] = g_can; e_l[2] = g_bin[0]; e_l[3] = g_bin[1]; e_l[4] = g_ok[0]; e_l[5] = g_ok[1];
  return f.body();
}

M = 'colvarbias_meta.cpp'
def s(name, src, sig, **kw): d = {'name': name, 'src': src, 'sig': sig, 'inc': name + '.body.inc'}; d.update(kw); return d
UNIT = {
 'cxxflags': ['-DCVS_SREAL', '-DCVS_VEC_COPY', '-DCVS_VEC_MINCAP=4'],
 'slices': [
  s('new_hill', M, r'int colvarbias_meta::update_bias\(\)', **{'from': r'cvm::real hills_scale=1\.0;', 'until': r'case multiple_replicas:', 'until_close': '}'}),
 ],
 'assumed': ['symbolic reals; statement range of colvarbias_meta::update_bias: from `cvm::real hills_scale=1.0;` to the end of the single-replica case of the switch (the schedule guard in front of it is under contract in unit params; the multiple-replica case and its file output are not under contract)',
             'the energy grid, calc_hills, add_hill and the hill constructor are stand-ins: grid value and the analytic sum are uninterpreted calls, the constructed hill is logged (step, weight expression, identity of the centre and width vectors)',
             'ebmeta is off (the target-distribution scaling is not specified); the frame declares hills_energy / target_dist as plain pointers (real: smart pointers; no overloaded operator-> in the front end)'],
 'tasks': [
  {'id': 'new_hill', 'properties': ['C05'], 'slices': ['new_hill'], 'harness': 'h_new_hill', 'enforce': 'k_new_hill', 'replace': ['k_boltzmann'], 'unwind': 6,
   'mutants': [('-1.0*hills_energy_sum_here/(bias_temperature*proxy->boltzmann())', '-1.0*hills_energy_sum_here/(bias_temperature)'), ('hill_weight*hills_scale,\n                    colvar_values, colvar_sigmas));\n\n      break;', 'hill_weight,\n                    colvar_values, colvar_sigmas));\n\n      break;'),
               ('hills_scale *= cvm::exp(', 'hills_scale = cvm::exp(1.0 + '), ('if (use_grids) {', 'if (!use_grids) {'), ('if (hills_energy->index_ok(curr_bin)) {', 'if (true) {'), ('calc_hills(hills_off_grid.begin(), hills_off_grid.end(), hills_energy_sum_here, NULL);', 'calc_hills(new_hills_begin, hills.end(), hills_energy_sum_here, NULL);'), ('-1.0*hills_energy_sum_here', '1.0*hills_energy_sum_here')]},
 ],
}

UNIT = {
 'slices': [{'name': 'eigsrt', 'src': 'nr_jacobi.cpp', 'sig': r'int eigsrt\(cvm::real d\[4\], cvm::real v\[4\]\[4\]\)', 'inc': 'eigsrt.body.inc'}],
 'assumed': ['NaN-free eigenvalues (finite inputs); v is passed row-major'],
 'tasks': [{'id': 'eigsrt', 'properties': ['C02'], 'slices': ['eigsrt'], 'harness': 'h_eigsrt', 'enforce': 'k_eigsrt', 'unwind': 20,
   'mutants': [('for (j=i+1;j<n;j++)', 'for (j=i+1;j<n-1;j++)'), ('if (d[j] >= p)', 'if (d[j] <= p)'), ('v[j][i]=v[j][k];', 'v[j][i]=v[j][i];'), ('d[k]=d[i];', '')]}],
}

/* Contract for the hill-restoring statements of colvarbias_meta::read_state_data_template_ (C03, C05).
   After a state has been read, the hills in memory are exactly the hills read (pre-existing ones are pruned).  The marker new_hills_begin
   separates hills already tabulated on the grids from hills that must still be added analytically by calc_energy / calc_forces:
   WITH grids the restored grids contain every restored hill, so the marker is the end of the list;
   WITHOUT grids nothing is ever tabulated, so every restored hill must lie at or after the marker -- otherwise the resumed run starts from a
   zero bias and differs from the uninterrupted run. */
#ifndef METASTATE_CONTRACT_H
#define METASTATE_CONTRACT_H
#include <stddef.h>
extern int e_l[8]; extern int g_nread; extern int g_out[6];
extern int g_throw, g_debug; extern unsigned g_errors, g_error_bits;
/* every hill saved in the state is restored: without grids the saved hills ARE the bias; with grids they are the hills near the grid
   boundaries (or all hills, with keepHills), which are needed analytically when the variable leaves the grid */
#define STORED (g_nread)
void k_read_hills(size_t n_old, _Bool use_grids, _Bool keep)
__CPROVER_requires(n_old <= 1 && g_nread >= 0 && g_nread <= 2)
__CPROVER_assigns(__CPROVER_object_whole(e_l), __CPROVER_object_whole(g_out))
/* the list holds exactly the restored hills, in order; pre-existing ones are pruned */
__CPROVER_ensures(g_out[0] == STORED && g_out[1] == (int) n_old && (STORED > 0 ==> g_out[3] == 100))
/* with grids: nothing restored is counted twice */
__CPROVER_ensures(use_grids ==> g_out[2] == (int) n_old + STORED)
/* without grids: every hill of the state is restored and is still to be added analytically */
__CPROVER_ensures(!use_grids ==> (g_out[0] == g_nread && g_out[2] == (int) n_old))
/* the keep-hills flag read from the state is unchanged for later readers (replica hill files) */
__CPROVER_ensures(g_out[4] == keep)
;
/* the skip statement of read_hill_template_: a hill is dropped exactly when it is not newer than the state and the state was written without keepHills */
extern int g_nkept;
void k_hill_kept(void) __CPROVER_assigns(g_nkept) __CPROVER_ensures(g_nkept == __CPROVER_old(g_nkept) + 1);
void k_hill_skip(long long h_it, long long state_step, _Bool keep)
__CPROVER_requires(g_nkept == 0)
__CPROVER_assigns(__CPROVER_object_whole(e_l), g_nkept)
__CPROVER_ensures(g_nkept == ((h_it <= state_step && !keep) ? 0 : 1))
;
/* add_hill: the new hill is appended and lies in the not-yet-tabulated range [new_hills_begin, end), from which calc_energy / calc_forces add it
   analytically at every position.  Outside the grid they ALSO add every hill of hills_off_grid analytically.  Each hill must be counted once:
   a hill that is still pending must not be in hills_off_grid at the same time. */
extern double g_mindist, g_hillwidth;
void k_add_hill_once(size_t n0, size_t marker, _Bool use_grids)
__CPROVER_requires(n0 <= 2 && marker <= n0 && g_hillwidth >= 0.0 && g_hillwidth <= 100.0 && g_mindist >= -1000.0 && g_mindist <= 1000.0)
__CPROVER_assigns(__CPROVER_object_whole(e_l), __CPROVER_object_whole(g_out))
/* appended, and pending: the marker is at or before the new hill */
__CPROVER_ensures(g_out[0] == (int) n0 + 1 && g_out[1] <= (int) n0 && g_out[1] == (int) marker)
/* counted once outside the grid */
__CPROVER_ensures(g_out[2] == 0)
;
/* write_state_data_template_ (with grids): the hills deposited since the last grid update -- [marker, end) -- are tabulated before the grids are
   written, and only then does the marker move to the end */
extern int g_proj_first, g_proj_last, g_nproj;
void k_write_project(size_t nh, size_t marker)
__CPROVER_requires(nh <= 3 && marker <= nh && g_nproj == 0)
__CPROVER_assigns(__CPROVER_object_whole(e_l), __CPROVER_object_whole(g_out), g_proj_first, g_proj_last, g_nproj)
__CPROVER_ensures(g_nproj == 1 && g_proj_first == (int) marker && g_proj_last == (int) nh && g_out[5] == (int) nh)
;
#endif

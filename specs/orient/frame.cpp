// Frame TU for colvar::orientation::calc_value / apply_force (C01, C02).  Bodies sliced verbatim from src/colvarcomp_rotations.cpp.
#include <vector>
#include <cvm_stub.h>
#include <cvs_echo.h>
#define CID_QINNER (CID_USER + 1)
#define CID_DQ (CID_USER + 2)
extern "C" { extern int g_node[24]; extern int e_l[8]; }
extern "C" void k_atom_force(int ia, int nx);    // force on atom ia: node of its x component
struct rvector_s { cvm::real x, y, z; };
inline rvector_s operator*(cvm::real const &a, rvector_s const &v) { rvector_s r; r.x = a * v.x; r.y = a * v.y; r.z = a * v.z; return r; }
inline rvector_s operator+(rvector_s const &a, rvector_s const &b) { rvector_s r; r.x = a.x + b.x; r.y = a.y + b.y; r.z = a.z + b.z; return r; }
struct quaternion_s { cvm::real q0, q1, q2, q3;
  quaternion_s() {}
  quaternion_s(quaternion_s const &o) { q0 = o.q0; q1 = o.q1; q2 = o.q2; q3 = o.q3; }
  quaternion_s &operator=(quaternion_s const &o) { q0 = o.q0; q1 = o.q1; q2 = o.q2; q3 = o.q3; return *this; }
  cvm::real inner(quaternion_s const &o) const { return sreal_call(CID_QINNER, q0.nid(), o.q0.nid()); }     // the 4-d inner product, opaque
  cvm::real operator[](int i) const { if (i == 0) return q0; if (i == 1) return q1; if (i == 2) return q2; return q3; }
  void operator*=(cvm::real const &a) { q0 = q0 * a; q1 = q1 * a; q2 = q2 * a; q3 = q3 * a; }
  void operator*=(double a) { cvm::real b(a); q0 = q0 * b; q1 = q1 * b; q2 = q2 * b; q3 = q3 * b; } };
inline quaternion_s operator*(cvm::real const &c, quaternion_s const &q) { quaternion_s r; r.q0 = c * q.q0; r.q1 = c * q.q1; r.q2 = c * q.q2; r.q3 = c * q.q3; return r; }
struct cvm_o : colvarmodule { typedef quaternion_s quaternion; typedef rvector_s rvector; typedef rvector_s atom_pos;
  template <class T> struct vector1d { T d_[4]; T &operator[](int i) { return d_[i]; } }; };
#undef cvm
#define cvm cvm_o
struct colvarvalue { quaternion_s quaternion_value; };
struct rot_stub { quaternion_s q; void calc_optimal_rotation(int, int) {} };
struct ag_force_t { void add_atom_force(size_t ia, rvector_s const &f) { k_atom_force((int) ia, f.x.nid()); } };
struct atoms_stub { bool noforce; size_t n_; size_t size() const { return n_; } int center_of_geometry() const { return 0; } int positions_shifted(int) const { return 0; } ag_force_t get_group_force_object() { ag_force_t a; return a; } };
inline int operator*(double a, int b) { return b; }
struct rotation_derivative_dldq { enum which { use_dq }; };
struct deriv_stub { void prepare_derivative(int) {}
  // d(rot.q)_k / d(position of atom ia): opaque, one symbol per (atom, k, Cartesian component)
  void calc_derivative_wrt_group2(size_t ia, void *, cvm::vector1d<rvector_s> *dq) { for (int k = 0; k < 4; k++) { dq->d_[k].x = sreal_call(CID_DQ, (int) ia, k, 0); dq->d_[k].y = sreal_call(CID_DQ, (int) ia, k, 1); dq->d_[k].z = sreal_call(CID_DQ, (int) ia, k, 2); } } };
#define nullptr 0
struct K_ori {
  atoms_stub *atoms; int atoms_cog, shifted_pos, ref_pos;
  rot_stub rot;                                // real: cvm::rotation rot;
  quaternion_s ref_quat;                       // real: cvm::quaternion ref_quat;
  colvarvalue x;                               //@real colvarcomp.h
  deriv_stub *rot_deriv_impl;
  void calc_value()
#include "ori_calc_value.body.inc"
  void apply_force(colvarvalue const &force)
#include "ori_apply_force.body.inc"
};
// node slots: 0..3 rot.q, 4 ref_quat.q0 (identity of the reference), 5..8 the force (FQ), 10..13 value out
static void setup(K_ori &f, atoms_stub &at, deriv_stub &dv) { f.atoms = &at; at.noforce = false; at.n_ = 2; f.rot_deriv_impl = &dv;
  double v[9]; for (int k = 0; k < 9; k++) v[k] = nondet_double();
  f.rot.q.q0 = cvm::real(v[0]); f.rot.q.q1 = cvm::real(v[1]); f.rot.q.q2 = cvm::real(v[2]); f.rot.q.q3 = cvm::real(v[3]); f.ref_quat.q0 = cvm::real(v[4]);
  g_node[0] = f.rot.q.q0.id; g_node[1] = f.rot.q.q1.id; g_node[2] = f.rot.q.q2.id; g_node[3] = f.rot.q.q3.id; g_node[4] = f.ref_quat.q0.id; }
extern "C" void k_ori_calc_value() { g_tn = 0; K_ori f; atoms_stub at; deriv_stub dv; setup(f, at, dv); f.calc_value();
  g_node[10] = f.x.quaternion_value.q0.nid(); g_node[11] = f.x.quaternion_value.q1.nid(); g_node[12] = f.x.quaternion_value.q2.nid(); g_node[13] = f.x.quaternion_value.q3.nid(); }
extern "C" void k_ori_apply_force(bool noforce) { g_tn = 0; K_ori f; atoms_stub at; deriv_stub dv; setup(f, at, dv); at.noforce = noforce; e_l[0] = noforce;
  colvarvalue force; double w[4]; for (int k = 0; k < 4; k++) w[k] = nondet_double();
  force.quaternion_value.q0 = cvm::real(w[0]); force.quaternion_value.q1 = cvm::real(w[1]); force.quaternion_value.q2 = cvm::real(w[2]); force.quaternion_value.q3 = cvm::real(w[3]);
  g_node[5] = force.quaternion_value.q0.id; g_node[6] = force.quaternion_value.q1.id; g_node[7] = force.quaternion_value.q2.id; g_node[8] = force.quaternion_value.q3.id;
  f.apply_force(force); }

"""Slice function bodies verbatim out of /repo/src and apply the fixed rewrite rules.

The body is copied byte for byte; the only textual rules are R1 (message
argument of logging/error calls replaced by CVS_MSG) and R5 (compound
assignment on class types written as an explicit operator call), both logged.
"""
import hashlib
import re


class ExtractionError(Exception):
    pass


def _skip_noncode(s, i):
    """If s[i:] starts a comment/string/char literal return index after it, else None."""
    n = len(s)
    if s.startswith('//', i):
        j = s.find('\n', i)
        return n if j < 0 else j
    if s.startswith('/*', i):
        j = s.find('*/', i + 2)
        if j < 0:
            raise ExtractionError('unterminated comment')
        return j + 2
    if s[i] == '"':
        # raw strings are not used in the sliced functions
        j = i + 1
        while j < n:
            if s[j] == '\\':
                j += 2
                continue
            if s[j] == '"':
                return j + 1
            j += 1
        raise ExtractionError('unterminated string literal')
    if s[i] == "'":
        j = i + 1
        while j < n:
            if s[j] == '\\':
                j += 2
                continue
            if s[j] == "'":
                return j + 1
            j += 1
        raise ExtractionError('unterminated char literal')
    return None


def match_brace(s, i, open_c='{', close_c='}'):
    """s[i] == open_c; return index of the matching close_c."""
    assert s[i] == open_c
    depth = 0
    n = len(s)
    j = i
    while j < n:
        k = _skip_noncode(s, j)
        if k is not None:
            j = k
            continue
        c = s[j]
        if c == open_c:
            depth += 1
        elif c == close_c:
            depth -= 1
            if depth == 0:
                return j
        j += 1
    raise ExtractionError('unbalanced %s' % open_c)


def slice_function(src_text, sig_regex, which=0):
    """Return (body_text_with_braces, start_line, end_line).

    sig_regex must match the function's declarator (up to but not necessarily
    including the opening brace); the first '{' after the match that is not in
    a comment is the body start.  A ';' before that '{' means a declaration
    was matched, which is an error of the spec.
    """
    ms = list(re.finditer(sig_regex, src_text))
    # keep only matches followed by a body
    cands = []
    for m in ms:
        j = m.end()
        n = len(src_text)
        ok = None
        while j < n:
            k = _skip_noncode(src_text, j)
            if k is not None:
                j = k
                continue
            if src_text[j] == ';':
                break
            if src_text[j] == '{':
                ok = j
                break
            j += 1
        if ok is not None:
            cands.append((m, ok))
    if len(cands) <= which:
        raise ExtractionError('function not found for /%s/ (definitions matched: %d)' % (sig_regex, len(cands)))
    if which == 0 and len(cands) > 1:
        raise ExtractionError('signature regex /%s/ is ambiguous (%d definitions)' % (sig_regex, len(cands)))
    m, b = cands[which]
    e = match_brace(src_text, b)
    body = src_text[b:e + 1]
    l0 = src_text.count('\n', 0, b) + 1
    l1 = src_text.count('\n', 0, e) + 1
    return body, l0, l1


R1_CALLEES = ['cvm::log', 'cvm::error', 'cvm::error_static', 'colvarmodule::log', 'colvarmodule::error',
              'cvm::fatal_error', 'add_error_msg', 'set_result_str', 'cvm::set_error_bits_msg',
              'cvmodule->log', 'cvmodule->error', 'cvm::main()->log', 'proxy->log', 'proxy->error',
              'cvm::cite_feature']


def _first_arg_end(s, i):
    """s[i] is just after '('; return index of the top-level ',' or ')' ending the first argument."""
    depth = 0
    n = len(s)
    j = i
    while j < n:
        k = _skip_noncode(s, j)
        if k is not None:
            j = k
            continue
        c = s[j]
        if c in '([{':
            depth += 1
        elif c in ')]}':
            if depth == 0:
                return j
            depth -= 1
        elif c == ',' and depth == 0:
            return j
        j += 1
    raise ExtractionError('R1: unterminated call')


_SIDE_EFFECT = re.compile(r'\+\+|--|(?<![=!<>+\-*/%&|^])=(?!=)')


def apply_R1(body, callees=None):
    """Replace the first (message) argument of logging/error calls by CVS_MSG."""
    callees = callees or R1_CALLEES
    out = []
    log = []
    i = 0
    n = len(body)
    pat = re.compile('|'.join(re.escape(c) + r'\s*\(' for c in sorted(callees, key=len, reverse=True)))
    while i < n:
        k = _skip_noncode(body, i)
        if k is not None:
            out.append(body[i:k])
            i = k
            continue
        m = pat.match(body, i)
        if m and (i == 0 or not (body[i - 1].isalnum() or body[i - 1] in '_')):
            a0 = m.end()
            a1 = _first_arg_end(body, a0)
            arg = body[a0:a1]
            # strip string literals before looking for side effects
            stripped = re.sub(r'"(\\.|[^"\\])*"', '""', arg)
            if _SIDE_EFFECT.search(stripped):
                raise ExtractionError('R1: dropped message argument has a side effect: %r' % arg[:80])
            line = body.count('\n', 0, i) + 1
            log.append({'rule': 'R1', 'line_in_body': line, 'callee': m.group(0).rstrip('( \t'),
                        'dropped': ' '.join(arg.split())[:160]})
            out.append(body[i:a0])
            out.append('CVS_MSG')
            i = a1
            continue
        out.append(body[i])
        i += 1
    return ''.join(out), log


def apply_R5(body, class_lvalues):
    """Rewrite `L op= E;` as `L.operator op=(E);` for the lvalues (regex strings) listed."""
    log = []
    if not class_lvalues:
        return body, log
    for lv in class_lvalues:
        pat = re.compile(r'(?<![\w.>])(' + lv + r')\s*(\+=|-=|\*=|/=)\s*([^;]*);')

        def rep(m):
            log.append({'rule': 'R5', 'lvalue': m.group(1), 'op': m.group(2)})
            return '%s.operator%s(%s);' % (m.group(1), m.group(2), m.group(3))
        body = pat.sub(rep, body)
    return body, log


def sha(text):
    return hashlib.sha256(text.encode()).hexdigest()


def norm_ws(s):
    return ' '.join(s.split())

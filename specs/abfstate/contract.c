#include "contract.h"
int e_i[16]; int g_nkey, g_key_log[8], g_key_ok[8], g_nraw, g_raw_log[8], g_raw_ok[8], g_ncopy, g_copy_dst[4], g_copy_src[4], g_nsetdiv;
int g_throw, g_debug, g_vec_alloc; unsigned g_errors, g_error_bits; size_t g_alloc_bytes;
long long g_step_rel, g_step_abs; int g_sim_continuing, g_sim_running;
size_t nondet_size_t(void); int nondet_int(void); long long nondet_ll(void); _Bool nondet_bool(void);
double k_floor(double x) { return x; } double k_sqrt(double x) { return x; } double k_pow(double x, double y) { return x; }
double k_boltzmann(void) { return 0.0; } double k_target_temperature(void) { return 0.0; } double k_dt(void) { return 1.0; } int k_same_step(void) { return 0; }
void h_read_state_data(void) { g_debug = 0; g_step_abs = nondet_ll(); for (int k = 0; k < 8; k++) { g_key_ok[k] = nondet_bool(); g_raw_ok[k] = nondet_bool(); }
  _Bool so = nondet_bool(); size_t sf = nondet_size_t(); k_read_state_data(nondet_bool(), so, sf, nondet_bool(), nondet_ll());
  if (g_ncopy == 2 && sf == 0) __CPROVER_assert(0, "canary: complete shared state with script-driven sharing (frequency 0)");
  if (g_nkey == 3) __CPROVER_assert(0, "canary: truncated state reachable"); }

// Stub of class colvar as seen by biases: every mutator forwards to a contract-specified, call-logging C function.
#ifndef CVS_COLVAR_STUB_H
#define CVS_COLVAR_STUB_H
#include <colvarvalue_scalar.h>
extern "C" void k_add_bias_force(int cv_tag, double f);
extern "C" void k_add_bias_force_actual_value(int cv_tag, double f);
extern "C" double k_cv_value(int cv_tag);
struct colvar {
  int tag;
  void add_bias_force(colvarvalue const &force) { k_add_bias_force(tag, force.real_value); }
  void add_bias_force_actual_value(colvarvalue const &force) { k_add_bias_force_actual_value(tag, force.real_value); }
  colvarvalue value() const { double v = k_cv_value(tag); colvarvalue r(v); return r; }
};
// products involving a colvarvalue are uninterpreted and logged (operand provenance, no floating-point reasoning):
// k_mul returns an unconstrained value and records (a, b, result) in the ghost multiplication log
extern "C" double k_mul(double a, double b);
inline colvarvalue operator*(cvm::real const &a, colvarvalue const &x) { double r = k_mul(a, x.real_value); colvarvalue v(r); return v; }
inline colvarvalue operator*(colvarvalue const &x, cvm::real const &a) { double r = k_mul(x.real_value, a); colvarvalue v(r); return v; }
#endif

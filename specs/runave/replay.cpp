// Native replay for colvar::calc_runave: the real module (stub proxy) computes the running average / standard deviation of a known
// sequence of distances with runAveLength 3; the written values are compared with the textbook definitions over the last 3 values.
#include "replay_util.h"
#include <cmath>
#include <vector>
#include <unistd.h>
#include "colvarmodule.h"
#include "colvarproxy.h"
#include "colvarproxy_stub.h"
#include "colvarproxy_stub.cpp"
int main(int argc, char **argv) {
  if (argc < 3) return 2; std::string task(argv[1]);
  char dir[] = "./cvrunaveXXXXXX"; if (!mkdtemp(dir)) return 2; if (chdir(dir)) return 2;
  colvarproxy_stub *proxy = new colvarproxy_stub();
  proxy->set_unit_system("real", false); proxy->set_output_prefix("ra");
  proxy->colvars->setup_input(); proxy->colvars->setup_output();
  for (int ai = 0; ai < 2; ai++) proxy->init_atom(ai + 1);
  int err = proxy->colvars->read_config_string("colvarsTrajFrequency 0\ncolvarsRestartFrequency 0\ncolvar {\n  name d\n  distance {\n    group1 { atomNumbers 1 }\n    group2 { atomNumbers 2 }\n  }\n  runAve on\n  runAveLength 3\n  runAveStride 1\n}\n");
  if (err) { std::cout << "REPLAY: configuration rejected\n"; return 3; }
  double const seq[8] = {1.0, 2.0, 4.0, 8.0, 5.0, 3.0, 9.0, 7.0};
  std::vector<cvm::atom_pos> &pos = *(proxy->modify_atom_positions());
  for (int step = 0; step < 8; step++) { pos[0] = cvm::atom_pos(0.0, 0.0, 0.0); pos[1] = cvm::atom_pos(seq[step], 0.0, 0.0); proxy->colvars->it++; proxy->colvars->calc(); }
  proxy->post_run(); delete proxy;
  std::ifstream is("ra.d.runave.traj"); if (!is) { std::cout << "REPLAY: no running-average output written\n"; return 3; }
  std::string line; int nbad_mean = 0, nbad_sd = 0, nlines = 0; std::ostringstream first;
  while (std::getline(is, line)) {
    if (line.size() == 0 || line[0] == '#') continue; std::istringstream ls(line); long st; double mean, sd; if (!(ls >> st >> mean >> sd)) continue;
    int k = int(st) - 1; if (k < 2 || k > 7) continue; nlines++;
    double m = (seq[k] + seq[k - 1] + seq[k - 2]) / 3.0; double var = ((seq[k] - m) * (seq[k] - m) + (seq[k - 1] - m) * (seq[k - 1] - m) + (seq[k - 2] - m) * (seq[k - 2] - m)) / 2.0;
    bool bm = std::fabs(mean - m) > 1e-9 * (1.0 + std::fabs(m)), bs = std::fabs(sd - std::sqrt(var)) > 1e-9 * (1.0 + std::sqrt(var));
    if ((bm || bs) && first.str().empty()) first << "step " << st << ": written mean " << mean << " stddev " << sd << ", textbook over the last 3 values: mean " << m << " stddev " << std::sqrt(var);
    nbad_mean += bm; nbad_sd += bs;
  }
  if (nlines == 0) { std::cout << "REPLAY: no data lines\n"; return 3; }
  if ((task == "runave_push" && nbad_mean) || (task == "runave_compute" && nbad_sd))
    REPLAY_FAIL("runAveLength 3 over distances 1 2 4 8 5 3 9 7: " << nbad_mean << " of " << nlines << " means and " << nbad_sd << " standard deviations differ from the textbook values; " << first.str());
  REPLAY_PASS("runAveLength 3: " << nlines << " lines agree with the textbook mean" << (task == "runave_compute" ? " and standard deviation" : ""));
}

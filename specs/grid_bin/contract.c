#include "contract.h"
double e_value, e_lower, e_width; int e_i, e_nxi, e_peri, e_ibin;
int g_throw, g_debug; unsigned g_errors, g_error_bits;
double nondet_double(void); int nondet_int(void); _Bool nondet_bool(void);
/* cvm::floor is std::floor: CBMC's IEEE model of floor() */
double k_floor(double x) { return floor(x); }
double k_sqrt(double x) { return sqrt(x); }

void h_value_to_bin_scalar(void) {
  int r = k_value_to_bin_scalar(nondet_double(), nondet_double(), nondet_double(), nondet_int(), nondet_double());
  if (r == 5) __CPROVER_assert(0, "canary: value_to_bin_scalar can return bin 5");
  if (r == -2) __CPROVER_assert(0, "canary: value_to_bin_scalar can return bin -2");
}
void h_value_to_bin_scalar_bound(void) {
  int nxi = nondet_int();
  int r = k_value_to_bin_scalar_bound(nondet_double(), nondet_double(), nondet_double(), nxi, nondet_bool(), nondet_int(), nondet_double());
  if (r == 5) __CPROVER_assert(0, "canary: value_to_bin_scalar_bound can return bin 5");
}
void h_bin_to_value_scalar(void) {
  double r = k_bin_to_value_scalar(nondet_int(), nondet_double(), nondet_double(), nondet_int());
  if (r == 2.5) __CPROVER_assert(0, "canary: bin_to_value_scalar can return 2.5");
}
void h_value_to_bin_scalar_fraction(void) {
  double r = k_value_to_bin_scalar_fraction(nondet_double(), nondet_double(), nondet_double(), nondet_int(), nondet_double());
  if (r == 0.25) __CPROVER_assert(0, "canary: fraction can be 0.25");
}

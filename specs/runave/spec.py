def s(name, src, sig, **kw): d = {'name': name, 'src': src, 'sig': sig, 'inc': name + '.body.inc'}; d.update(kw); return d
UNIT = {
 'cxxflags': ['-DCVS_SREAL'],
 'slices': [
  s('runave_compute', 'colvar.cpp', r'int colvar::calc_runave\(\)', R5=['runave', 'runave_variance'], **{'from': r'runave = x;\n', 'until': r'\n        if \(runave_outfile\.size\(\) > 0\) \{'}),
  s('runave_push', 'colvar.cpp', r'int colvar::calc_runave\(\)', **{'from': r'history_add_value\([^;]*\*x_history_p, x\);', 'until': r'\n    \}\n  \}\n\n  return error_code;'}),
 ],
 'assumed': ['two statement ranges of colvar::calc_runave are sliced (mean/variance computation; the push into the window); the stride/step guards, file output and first-call initialisation are not under contract',
             'symbolic reals; the window is a list view of L-1 opaque values, L = 2 or 3; history_add_value is a logging stub'],
 'tasks': [
  {'id': 'runave_compute', 'properties': ['C19'], 'slices': ['runave_compute'], 'harness': 'h_runave_compute', 'enforce': 'k_runave_compute', 'unwind': 20, 'object_bits': 10, 'unwind_body': 4,
   'bounded': 'window length 2 or 3 (loops over the window unwound)',
   'mutants': [('this->dist2((*xs_i), runave)', 'this->dist2(x, (*xs_i))'), ('1.0 / cvm::real(runave_length-1)', '1.0 / cvm::real(runave_length)'), ('runave = x;', 'runave.reset();')]},
  {'id': 'runave_push', 'properties': ['C19'], 'slices': ['runave_push'], 'harness': 'h_runave_push', 'enforce': 'k_runave_push', 'replace': ['k_history_add_value'], 'unwind': 20, 'mutants': [('runave_length-1, *x_history_p', 'runave_length, *x_history_p')]},
 ],
}

#include "contract.h"
TERM_GHOST_DEFS
int g_node[16]; int e_l[8]; int g_k;
int g_throw, g_debug, g_vec_alloc; unsigned g_errors, g_error_bits; size_t g_alloc_bytes;
long long g_step_rel, g_step_abs; int g_sim_continuing, g_sim_running;
size_t nondet_size_t(void); int nondet_int(void); double nondet_double(void); _Bool nondet_bool(void);
double k_floor(double x) { return x; } double k_sqrt(double x) { return x; } double k_pow(double x, double y) { return x; }
double k_boltzmann(void) { return 0.0; } double k_target_temperature(void) { return 0.0; } double k_dt(void) { return 1.0; } int k_same_step(void) { return 0; }
void h_integrate_1d(void) { g_debug = 0; g_tn = 0; g_k = nondet_int(); int ng = nondet_int(); _Bool per = nondet_bool();
  k_integrate_1d(ng, per, nondet_bool());
  if (ng == 3 && g_k == 3 && !per) __CPROVER_assert(0, "canary: extra point of a non-periodic PMF reachable");
  if (ng == 3 && g_k == 2 && per) __CPROVER_assert(0, "canary: periodic PMF reachable"); }

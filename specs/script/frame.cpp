// Frame TU for colvarscript argument helpers (C20).  Bodies sliced verbatim from src/colvarscript.h.
// real: function templates over colvarscript::Object_type T; here T is bound by #define to the enumerator of one frame per instantiation
// and the explicit template argument in the call cmd_arg_shift<T>() is dropped (declared substitution).
#include <vector>
#include <cvm_stub.h>
#include <cvs_echo.h>
#define NULL 0
#define COLVARSCRIPT_OK 0
#define COLVARSCRIPT_ERROR -1
extern "C" { extern int e_i[8]; }
enum Object_type
#include "Object_type.body.inc"
;
#define SCRIPT_FRAME(NAME, TVAL) \
struct NAME { \
  void add_error_msg(CVS_MSG_T const &) { g_errors = g_errors + 1; }
#define SCRIPT_END };

#define T use_module
SCRIPT_FRAME(KS_module, use_module)
  int cmd_arg_shift()
#include "cmd_arg_shift.body.inc"
  unsigned char *get_cmd_arg(int iarg, int objc, unsigned char *const objv[])
#include "get_cmd_arg.body.inc"
  int check_cmd_nargs(char const *cmd, int objc, int n_args_min, int n_args_max)
#include "check_cmd_nargs.body.inc"
SCRIPT_END
#undef T
#define T use_colvar
SCRIPT_FRAME(KS_colvar, use_colvar)
  int cmd_arg_shift()
#include "cmd_arg_shift.body.inc"
  unsigned char *get_cmd_arg(int iarg, int objc, unsigned char *const objv[])
#include "get_cmd_arg.body.inc"
  int check_cmd_nargs(char const *cmd, int objc, int n_args_min, int n_args_max)
#include "check_cmd_nargs.body.inc"
SCRIPT_END
#undef T
#define T use_bias
SCRIPT_FRAME(KS_bias, use_bias)
  int cmd_arg_shift()
#include "cmd_arg_shift.body.inc"
  unsigned char *get_cmd_arg(int iarg, int objc, unsigned char *const objv[])
#include "get_cmd_arg.body.inc"
  int check_cmd_nargs(char const *cmd, int objc, int n_args_min, int n_args_max)
#include "check_cmd_nargs.body.inc"
SCRIPT_END
#undef T

#define WRAP(SUF, K) \
extern "C" int k_cmd_arg_shift_##SUF() { K f; return f.cmd_arg_shift(); } \
extern "C" unsigned char *k_get_cmd_arg_##SUF(int iarg, int objc, unsigned char **objv) { K f; e_i[0] = iarg; e_i[1] = objc; return f.get_cmd_arg(iarg, objc, objv); } \
extern "C" int k_check_cmd_nargs_##SUF(int objc, int n_args_min, int n_args_max) { K f; e_i[1] = objc; e_i[2] = n_args_min; e_i[3] = n_args_max; return f.check_cmd_nargs("cmd", objc, n_args_min, n_args_max); }
WRAP(module, KS_module)
WRAP(colvar, KS_colvar)
WRAP(bias, KS_bias)

"""Violation reports and native replay of counterexamples against the real code."""
import glob
import json
import os
import re
import shutil
import threading

from . import core

_build_lock = threading.Lock()
_built = {}


def build_native_lib(scratch):
    """Compile /repo/src/*.cpp (current working tree, hooks on) into a static library in scratch."""
    with _build_lock:
        if scratch in _built:
            return _built[scratch]
        d = os.path.join(scratch, 'native')
        os.makedirs(d, exist_ok=True)
        srcs = sorted(glob.glob(os.path.join(core.REPO, 'src', '*.cpp')))
        mk = ['all: libcolvars_cv.a\n']
        objs = []
        for s in srcs:
            o = os.path.basename(s)[:-4] + '.o'
            objs.append(o)
            mk.append('%s: %s\n\tg++ -std=c++11 -O1 -g -w -DCOLVARS_VERIF -I%s/src -c %s -o %s\n' % (o, s, core.REPO, s, o))
        mk.append('libcolvars_cv.a: %s\n\tar rcs $@ $^\n' % ' '.join(objs))
        open(os.path.join(d, 'Makefile'), 'w').write(''.join(mk))
        rc, out, dt = core.run(['make', '-j', str(core.NCPU), '-C', d], 1200)
        lib = os.path.join(d, 'libcolvars_cv.a')
        if rc != 0 or not os.path.exists(lib):
            _built[scratch] = (None, out[-3000:])
        else:
            _built[scratch] = (lib, '')
        return _built[scratch]


def native_replay(unit, task_id, vals, scratch):
    """Returns dict(status=reproduced|not_reproduced|unavailable|error, output=...)."""
    drv = os.path.join(unit['dir'], 'replay.cpp')
    if not os.path.exists(drv):
        return {'status': 'unavailable', 'output': 'no native replay driver for unit %s' % unit['name']}
    lib, err = build_native_lib(scratch)
    if not lib:
        return {'status': 'error', 'output': 'native build of /repo/src failed:\n' + err}
    d = os.path.dirname(lib)
    exe = os.path.join(d, 'replay_' + unit['name'])
    if not os.path.exists(exe):
        cmd = ['g++', '-std=c++11', '-O1', '-g', '-w', '-DCOLVARS_VERIF', '-I', os.path.join(core.REPO, 'src'),
               '-I', os.path.join(core.SPECS_MAIN, 'common'), '-I', os.path.join(core.REPO, 'misc_interfaces', 'stubs'),
               drv, lib, '-o', exe]
        rc, out, dt = core.run(cmd, 600)
        if rc != 0:
            return {'status': 'error', 'output': 'replay driver does not compile against the working tree:\n' + out[-3000:]}
    vf = os.path.join(d, 'vals_%s_%d.txt' % (task_id, threading.get_ident()))
    with open(vf, 'w') as f:
        for k, v in sorted(vals.items()):
            f.write('%s %s\n' % (k, v))
    rc, out, dt = core.run([exe, task_id, vf], 120, cwd=d)
    if rc == 1 and 'REPLAY:' in out:
        st = 'reproduced'
    elif rc == 0:
        st = 'not_reproduced'
    elif rc is None:
        st = 'reproduced_hang'
    elif rc == 3:
        st = 'unavailable'
    else:
        st = 'reproduced_crash' if rc < 0 or rc >= 128 else 'error'
    return {'status': st, 'exit': rc, 'output': out[-4000:]}


def clause_text(unit, loc):
    """Source text of the contract clause at file:line (best effort)."""
    try:
        f, ln = loc.rsplit(':', 1)
        for d in (unit['dir'], os.path.join(core.SPECS, 'common'), core.STUBS):
            p = os.path.join(d, f)
            if os.path.exists(p):
                lines = open(p).read().splitlines()
                return ' '.join(l.strip() for l in lines[int(ln) - 1:int(ln) + 2])[:400]
    except Exception:
        pass
    return ''


def report_violation(prop, unit, r, o, scratch, tier, others=None):
    d = os.environ.get('CVS_REPLAY_DIR') or os.path.join(core.VERIF, 'replays')
    os.makedirs(d, exist_ok=True)
    path = os.path.join(d, '%s_%s_%s.json' % (prop, r['task'], re.sub(r'[^\w.\-]', '_', o['name'])))
    task = [t for t in unit['tasks'] if t['id'] == r['task']][0]
    usc = os.path.join(scratch, unit['name'])
    trace = None
    small = False
    if task.get('small_harness'):
        # same contract, same body, harness with small concrete-sized inputs: a counterexample that can be rebuilt natively
        try:
            t2 = dict(task)
            t2['harness'] = task['small_harness']
            gb2 = core.instrument(unit, t2, usc, r['task'] + '_small')
            trace = core.get_trace(t2, gb2, usc, o['name'])
            small = trace is not None
        except core.Undecided as e:
            core.log('  small-input harness unavailable: %s' % str(e)[:200])
    if trace is None:
        trace = core.get_trace(task, r['gb'], usc, o['name'])
    vals = core.trace_values(trace) if trace else {}
    echo = {k: v for k, v in vals.items() if re.match(r'(e_|g_|h_)', k)}
    doc = {'property': prop, 'unit': unit['name'], 'task': r['task'], 'obligation': o['name'],
           'obligation_text': o['description'], 'contract_clause': clause_text(unit, o['loc']),
           'location': o['loc'], 'solver': o['solver'], 'bounded': r.get('bounded'),
           'sliced_functions': r.get('slices'),
           'counterexample_inputs': echo, 'counterexample_from_small_input_harness': small,
           'other_failed_obligations_of_task': [{'obligation': x['name'], 'text': x['description'][:160], 'location': x['loc']} for x in (others or [])][:80]}
    suffix = ''
    if not echo:
        suffix = ' no-failing-input-found'
        doc['verifier_output'] = ('obligation %s FAILED under %s; the verifier produced no usable model values '
                                  'for the wrapper inputs' % (o['name'], o['solver']))
        doc['native_replay'] = {'status': 'unavailable', 'output': 'no counterexample values'}
    else:
        try:
            doc['native_replay'] = native_replay(unit, task.get('replay_task', r['task']), echo, scratch)
        except Exception as e:  # replay problems never hide the failed obligation
            doc['native_replay'] = {'status': 'error', 'output': 'replay machinery error: %s' % e}
    json.dump(doc, open(path, 'w'), indent=1)
    core.log('  replay %s: %s' % (o['name'], doc['native_replay']['status']))
    return path, suffix


def cmd_replay(args):
    doc = json.load(open(args[0]))
    print(json.dumps(doc, indent=1))
    unit = core.load_unit(doc['unit'])
    from .cli import mk_scratch
    sc = mk_scratch()
    try:
        res = native_replay(unit, doc['task'], doc.get('counterexample_inputs', {}), sc)
        print(res['status'])
        print(res['output'])
        return 1 if res['status'].startswith('reproduced') else 0
    finally:
        shutil.rmtree(sc, ignore_errors=True)

#include "contract.h"
TERM_GHOST_DEFS
int e_l[64]; int g_node[32]; int g_nsetvalue; int g_fid[12]; double g_dt;
int g_throw, g_debug, g_vec_alloc; unsigned g_errors, g_error_bits; size_t g_alloc_bytes;
long long g_step_rel, g_step_abs; int g_sim_continuing, g_sim_running;
int nondet_int(void); double nondet_double(void); long long nondet_ll(void);
double k_floor(double x) { return x; } double k_sqrt(double x) { return x; } double k_pow(double x, double y) { return x; }
double k_boltzmann(void) { return 0.0; } double k_target_temperature(void) { return 0.0; } int k_same_step(void) { return 0; }
void cvs_set_fids(void);
void h_update_extended_Lagrangian(void) { g_debug = 0; g_tn = 0; g_errors = 0; cvs_set_fids(); g_dt = nondet_double(); g_step_rel = nondet_ll(); _Bool *en;
  k_update_extended_Lagrangian(en, nondet_int(), nondet_ll());
  if (g_errors == 1) __CPROVER_assert(0, "canary: activation-interval error reachable");
  if (g_errors == 0 && g_tn > 40) __CPROVER_assert(0, "canary: full integration step reachable"); }

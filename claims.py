"""Per-property claims; MANIFEST.json is generated from this by `./cv manifest`."""
NA_DEFAULT = "check not built yet (build phase in progress)"
CLAIMS = {
 'C15': {
  'text': "Function contracts on the verbatim bodies of colvar_grid's index functions (index_ok for every nd by loop contract; incr, wrap, wrap_detect_edge, address for nd <= 3 with full-domain values) discharged by CBMC dfcc: in-range test is exact, incr is the lexicographic successor ending in the sentinel index_ok rejects (every bin visited once), periodic wrapping maps into [0,nx) by a multiple of nx and non-periodic out-of-range is flagged. Grid-file round trips and floating-point binning of the whole pipeline are not decided.",
  'note': "Trusted: CBMC C++ front end + stub std::vector; frame/wrapper marshalling; nd<=3 tasks are bounded stand-ins (reported separately, not counted as proved). n/d: text/multicolumn file round trip, histogram update path.",
  'design_ref': '§4 C15',
 },
}
CLAIMS['C11'] = {
  'text': "Function contracts on the verbatim bodies of cvm::memory_stream (has_remaining, expand_output_buffer, read/write_object<T>, read/write_vector<T> for 8-, 4- and 1-byte T) discharged by CBMC dfcc for every buffer length, position, state and length prefix: no uncaught exception, no read or write outside the data, damaged or truncated vectors set failbit, and lemma harnesses over the contracts show that what is written is read back byte for byte. Crash consistency of file replacement and text-state parsing are not decided here.",
  'note': "Trusted: CBMC C++ front end + stub std::vector (growth beyond the frame's capacity modelled as fresh allocation); memcpy by assumed contract (specs/common/memcpy_contract.h); class template instead of member templates. n/d: std::string/colvarvalue specialisations, backup_file/rename ordering, text state.",
  'design_ref': '§4 C11',
}
NOT_APPLICABLE = {
 'C12': "quantifies over thread schedules; sequential contract verification (CBMC dfcc) cannot express it and the C++ front end has no OpenMP (DESIGN.md §4 C12)",
}

/* Contracts on call order and guards. */
#ifndef ORDERS_CONTRACT_H
#define ORDERS_CONTRACT_H
#include <stddef.h>
extern int e_i[16]; extern void *g_io_p, *g_main2_p;
extern int g_throw, g_debug; extern unsigned g_errors, g_error_bits;
extern int g_nio, g_io_log[8], g_io_rc[8], g_stream_ok, g_write_ok;
/* file-system events of the proxy: 1 remove(tmp) 2 open(tmp) 3 write state 4 close(tmp) 5 rename(tmp -> state) */
int k_io(int kind) __CPROVER_requires(0 <= g_nio && g_nio < 8) __CPROVER_assigns(g_nio, g_io_log[g_nio])
  __CPROVER_ensures(g_nio == __CPROVER_old(g_nio) + 1 && g_io_log[g_nio - 1] == kind && __CPROVER_return_value == g_io_rc[g_nio - 1]);
int k_stream_ok(void) __CPROVER_assigns() __CPROVER_ensures(__CPROVER_return_value == g_stream_ok);
int k_write_state_ok(void) __CPROVER_assigns() __CPROVER_ensures(__CPROVER_return_value == g_write_ok);
#define O(x) __CPROVER_old(x)
/* colvarbias_meta::write_replica_state_file (C11): the shared state file is replaced by writing a temporary file, CLOSING it,
   and only then renaming it over the live file -- at no instant is the live name bound to an unflushed file */
int k_write_replica_state_file(void)
__CPROVER_requires(g_nio == 0 && (g_stream_ok == 0 || g_stream_ok == 1) && (g_write_ok == 0 || g_write_ok == 1))
__CPROVER_assigns(__CPROVER_object_whole(e_i), g_io_p, g_nio, __CPROVER_object_whole(g_io_log), g_errors, g_error_bits)
__CPROVER_ensures(g_stream_ok ==> (g_nio == 5 && g_io_log[0] == 1 && g_io_log[1] == 2 && g_io_log[2] == 3 && g_io_log[3] == 4 && g_io_log[4] == 5))
__CPROVER_ensures(!g_stream_ok ==> (g_nio == 4 && g_io_log[0] == 1 && g_io_log[1] == 2 && g_io_log[2] == 4 && g_io_log[3] == 5))
__CPROVER_ensures((g_stream_ok && !g_write_ok) ==> (__CPROVER_return_value != 0 && g_errors == O(g_errors) + 1))
;
/* colvarproxy::parse_module_config (C20): every queued configuration is handed to the module exactly once, in order, and leaves
   the queue whether or not it was accepted, so that a rejected entry cannot block later ones */
extern int g_ncfg, g_cfg_kind[4], g_cfg_tag[4], g_cfg_rc[4], g_left;
int k_read_config(int kind, int tag) __CPROVER_requires(0 <= g_ncfg && g_ncfg < 4) __CPROVER_assigns(g_ncfg, g_cfg_kind[g_ncfg], g_cfg_tag[g_ncfg])
  __CPROVER_ensures(g_ncfg == O(g_ncfg) + 1 && g_cfg_kind[g_ncfg - 1] == kind && g_cfg_tag[g_ncfg - 1] == tag && __CPROVER_return_value == g_cfg_rc[g_ncfg - 1]);
#define VALID(k) ((k) == 1 || (k) == 2)
int k_parse_module_config(size_t n, int kind0, int kind1)
__CPROVER_requires(n <= 2 && g_ncfg == 0 && kind0 >= 1 && kind0 <= 3 && kind1 >= 1 && kind1 <= 3 && g_cfg_rc[0] >= 0 && g_cfg_rc[0] <= 64 && g_cfg_rc[1] >= 0 && g_cfg_rc[1] <= 64)
__CPROVER_assigns(__CPROVER_object_whole(e_i), g_ncfg, __CPROVER_object_whole(g_cfg_kind), __CPROVER_object_whole(g_cfg_tag), g_errors, g_error_bits)
__CPROVER_ensures(e_i[3] == 0)
__CPROVER_ensures(g_ncfg == ((n > 0 && VALID(kind0)) ? 1 : 0) + ((n > 1 && VALID(kind1)) ? 1 : 0))
__CPROVER_ensures((n == 2 && VALID(kind0) && VALID(kind1)) ==> (g_cfg_tag[0] == 'a' && g_cfg_tag[1] == 'b' && g_cfg_kind[0] == kind0 && g_cfg_kind[1] == kind1))
__CPROVER_ensures((n == 2 && VALID(kind0) && VALID(kind1)) ==> __CPROVER_return_value == (g_cfg_rc[0] | g_cfg_rc[1]))
__CPROVER_ensures(g_errors == O(g_errors) + ((n > 0 && !VALID(kind0)) ? 1 : 0) + ((n > 1 && !VALID(kind1)) ? 1 : 0))
;
/* cvm::atom_group::~atom_group (C13): an allocated fitting group is destroyed (its atoms released) whenever it exists, whether or
   not the corresponding feature was ever enabled; scalable groups are unregistered from the engine; the name is unregistered */
extern int g_ndelfit, g_ndelrot, g_nclear, g_nunreg;
void k_delete_fitting(void) __CPROVER_requires(g_ndelfit < 4) __CPROVER_assigns(g_ndelfit) __CPROVER_ensures(g_ndelfit == O(g_ndelfit) + 1);
void k_delete_rot(void) __CPROVER_requires(g_ndelrot < 4) __CPROVER_assigns(g_ndelrot) __CPROVER_ensures(g_ndelrot == O(g_ndelrot) + 1);
void k_clear_atom_group(void) __CPROVER_requires(g_nclear < 4) __CPROVER_assigns(g_nclear) __CPROVER_ensures(g_nclear == O(g_nclear) + 1);
void k_unregister(void) __CPROVER_requires(g_nunreg < 4) __CPROVER_assigns(g_nunreg) __CPROVER_ensures(g_nunreg == O(g_nunreg) + 1);
int k_atom_group_dtor(_Bool scalable, _Bool dummy, _Bool has_fit, _Bool fit_feature, _Bool has_rot)
__CPROVER_requires(g_ndelfit == 0 && g_ndelrot == 0 && g_nclear == 0 && g_nunreg == 0)
__CPROVER_assigns(__CPROVER_object_whole(e_i), g_main2_p, g_ndelfit, g_ndelrot, g_nclear, g_nunreg)
__CPROVER_ensures(g_ndelfit == (has_fit ? 1 : 0) && g_ndelrot == (has_rot ? 1 : 0) && g_nclear == ((scalable && !dummy) ? 1 : 0) && g_nunreg == 1)
__CPROVER_ensures(__CPROVER_return_value == 3)
;
#endif

// Frame TU for the width statements of colvarbias_meta::init (C05: the hill widths and the width, in grid points, that decides which hills are
// kept for the analytic sum near the grid boundaries).
#define CVS_SMAX 6
#include <vector>
#include <string>
#include <cvm_stub.h>
#include <cvs_echo.h>
#include <colvar_sym.h>
extern "C" int k_cv_is_enabled(int cv_tag, int f) { return 0; }
extern "C" void k_add_bias_force(int cv_tag, int node) {} extern "C" void k_add_bias_force_actual_value(int cv_tag, int node) {}
extern "C" { extern int g_node[12]; extern int e_l[8]; extern int g_give_sigmas, g_give_width; extern double g_sig[2], g_hw; }
struct K_iw {
  std::vector<colvar *> colvars;                               //@real colvarbias.h
  std::vector<cvm::real> colvar_sigmas;                        //@real colvarbias_meta.h
  cvm::real hill_width;                                        //@real colvarbias_meta.h
  inline size_t num_variables() const
#include "num_variables.body.inc"
  inline colvar *variables(int i) const
#include "variables.body.inc"
  // the two keywords of this range: deliver the ghost values when the user gave them
  bool get_keyval(std::string const &, char const *key, std::vector<cvm::real> &v, std::vector<cvm::real> const &) { if (!g_give_sigmas) return false; v.n_ = 2; v.p_[0] = cvm::real(g_sig[0]); v.p_[1] = cvm::real(g_sig[1]); g_node[0] = v.p_[0].id; g_node[1] = v.p_[1].id; return true; }
  bool get_keyval(std::string const &, char const *key, cvm::real &v, cvm::real const &) { if (!g_give_width) return false; v = cvm::real(g_hw); g_node[2] = v.id; return true; }
  int body(std::string const &conf, int error_code, size_t i)
#include "init_widths.body.inc"
};
extern "C" int k_init_widths() {
  g_tn = 0; K_iw f; colvar cvs[2]; colvar *cvp[2]; cvm::real sg[2];
  for (int k = 0; k < 2; k++) { cvs[k].tag = k; double w = nondet_double(); cvs[k].width = cvm::real(w); g_node[3 + k] = cvs[k].width.id; cvp[k] = &cvs[k]; }
  CVS_VIEW(f.colvars, cvp, 2); f.colvar_sigmas.p_ = sg; f.colvar_sigmas.n_ = 0; f.colvar_sigmas.cap_ = 2; f.hill_width = cvm::real(0.0);
  e_l[0] = g_give_sigmas; e_l[1] = g_give_width;
  std::string conf; int r = f.body(conf, 0, 0);
  g_node[5] = f.hill_width.nid(); g_node[6] = f.colvar_sigmas.n_ > 0 ? sg[0].nid() : -7; g_node[7] = f.colvar_sigmas.n_ > 1 ? sg[1].nid() : -7; e_l[2] = (int) f.colvar_sigmas.n_;
  return r;
}

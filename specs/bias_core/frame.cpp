// Frame TU for colvarbias base-class functions (C03, C08, C01, C15).  Bodies sliced verbatim from src/colvarbias.cpp.
#include <vector>
#include <cvm_stub.h>
#include <cvs_echo.h>
#include <colvar_stub.h>

extern "C" { extern int e_en[32]; extern size_t e_n; extern double e_cf[4]; extern int e_tsf; }

// feature ids: the enum is sliced verbatim from src/colvardeps.h
enum features_biases
#include "features_biases.body.inc"
;

struct BiasF {
  bool en_[f_cvb_ntot];
  bool is_enabled(int f = f_cvb_active) const { return en_[f]; }   // stands for colvardeps::is_enabled (feature_states[f].enabled)
  std::vector<colvar *> colvars;                               //@real colvarbias.h
  std::vector<colvarvalue> colvar_forces;                      //@real colvarbias.h
  std::vector<colvarvalue> previous_colvar_forces;             //@real colvarbias.h
  int   time_step_factor;                                      //@real colvardeps.h
  inline size_t num_variables() const
#include "num_variables.body.inc"
  inline colvar *variables(int i) const
#include "variables.body.inc"
};

struct K_can_acc : BiasF {
  bool body()
#include "can_accumulate_data.body.inc"
};

// grid used for force scaling: calls forwarded to contract-specified functions
extern "C" int k_sf_current_bin_scalar(int i);
extern "C" int k_sf_index_ok(int *bin, size_t n);
extern "C" double k_sf_value(int *bin, size_t n);
struct scaling_grid_stub {
  int current_bin_scalar(int i) const { return k_sf_current_bin_scalar(i); }
  bool index_ok(std::vector<int> const &ix) const { return k_sf_index_ok(ix.p_, ix.n_) != 0; }
  double value(std::vector<int> const &ix) const { return k_sf_value(ix.p_, ix.n_); }
};
struct K_comm : BiasF {
  scaling_grid_stub *biasing_force_scaling_factors;
  std::vector<int> biasing_force_scaling_factors_bin;          //@real colvarbias.h
  int body()
#include "communicate_forces.body.inc"
};

static void load_en(BiasF &f, bool *en) { for (int k = 0; k < f_cvb_ntot; k++) { f.en_[k] = en[k]; e_en[k] = en[k]; } }

extern "C" int k_can_accumulate_data(bool *en) {
  K_can_acc f; load_en(f, en);
  return f.body();
}

// n <= 3 variables; cf = colvar_forces, pcf = previous_colvar_forces (out)
extern "C" int k_communicate_forces(bool *en, size_t n, double *cf, double *pcf, int tsf) {
  K_comm f; load_en(f, en);
  colvar cvs[3]; colvar *cvp[3]; colvarvalue cfv[3], pcfv[3]; int bin[3]; scaling_grid_stub sg;
  for (int k = 0; k < 3; k++) { cvs[k].tag = k; cvp[k] = &cvs[k]; if ((size_t) k < n) { cfv[k] = colvarvalue(cf[k]); pcfv[k] = colvarvalue(pcf[k]); e_cf[k] = cf[k]; } }
  CVS_VIEW(f.colvars, cvp, n); CVS_VIEW(f.colvar_forces, cfv, n); CVS_VIEW(f.previous_colvar_forces, pcfv, n);
  CVS_VIEW(f.biasing_force_scaling_factors_bin, bin, n); f.biasing_force_scaling_factors = &sg;
  f.time_step_factor = tsf; e_n = n; e_tsf = tsf;
  int r = f.body();
  for (int k = 0; k < 3; k++) { if ((size_t) k < n) pcf[k] = pcfv[k].real_value; }
  return r;
}

// Frame TU for stream-position logic of state reading (C03 text-state restart, C14 partially written peer files).
// Bodies sliced verbatim from src/colvarbias_meta.cpp (hill_stream_error) and src/colvarmodule.cpp (read_objects_state(std::istream &)).
#define CVS_SMAX 8
#include <vector>
#include <string>
#include <cvm_stub.h>
#include <cvs_echo.h>
#define NULL 0
extern "C" { extern long e_l[16]; extern long g_pos; extern int g_state; }
extern "C" int k_obj_read_state(int kind, int tag); extern "C" void k_discard_block(); extern "C" int k_next_word();
struct read_block_t { int dummy; };
namespace std {
  struct ios { typedef int iostate; static const int goodbit = 0; static const int badbit = 1; static const int eofbit = 2; static const int failbit = 4; };
  // position/state model of an input stream: a seek on a stream whose failbit or badbit is set has no effect (ISO C++)
  struct istream {
    void clear() { g_state = 0; }
    void setstate(int s) { g_state = g_state | s; }
    istream &seekg(long p) { if ((g_state & 5) == 0) g_pos = p; return *this; }
    long tellg() { return (g_state & 5) ? -1 : g_pos; }
    bool operator!() const { return (g_state & 5) != 0; }
    // formatted extraction of a word, and of a discarded block (colvarparse::read_block): members because the front end has no ADL
    istream &operator>>(string &w) { if ((g_state & 5) == 0) { int k = k_next_word(); if (k == 0) { g_state = g_state | 6; } else { if (k == 1) w = string("colvar"); else w = string("harmonic"); g_pos = g_pos + 1; } } return *this; }
    istream &operator>>(read_block_t const &) { k_discard_block(); return *this; }
  };
}
typedef std::istream IST;
struct K_hse {
  IST &body(IST &is, size_t start_pos, std::string const &key)
#include "hill_stream_error.body.inc"
};
// ---- read_objects_state ----
struct obj_s { int kind, tag; std::string name, state_keyword, bias_type; bool read_state(IST &is) { return k_obj_read_state(kind, tag) != 0; } };
struct colvarparse_s { static read_block_t read_block(std::string const &, void *) { read_block_t r; return r; } };
static void cvm_depth() {}
#define colvarparse colvarparse_s
#define colvar obj_s
#define colvarbias obj_s
struct K_ros {
  std::vector<colvar *> colvars;               //@real colvarmodule.h
  std::vector<colvarbias *> biases;            //@real colvarmodule.h
  std::istream *isp_;
  // zero-argument member (comma-free mangled name for --unwindset); the parameter `is` of the real function is this local reference
  std::istream &body() { std::istream &is = *isp_;
#include "read_objects_state.body.inc"
  }
};
#undef colvar
#undef colvarbias
#undef colvarparse
extern "C" int k_hill_stream_error(size_t start_pos) { K_hse f; IST is; e_l[0] = (long) start_pos; e_l[1] = g_pos; e_l[2] = g_state; std::string key("hill"); f.body(is, start_pos, key); return 0; }
extern "C" int k_read_objects_state() {
  K_ros f; IST is; obj_s cv0, b0, b1; obj_s *cvp[1], *bp[2];
  cv0.kind = 1; cv0.tag = 0; b0.kind = 2; b0.tag = 0; b1.kind = 2; b1.tag = 1; b0.state_keyword = std::string("harmonic"); b0.bias_type = std::string("harmonic"); b1.state_keyword = std::string("harmonic"); b1.bias_type = std::string("harmonic");
  cvp[0] = &cv0; bp[0] = &b0; bp[1] = &b1; CVS_VIEW(f.colvars, cvp, 1); CVS_VIEW(f.biases, bp, 2);
  f.isp_ = &is; f.body();
  return 0;
}

#include "contract.h"
TERM_GHOST_DEFS
int g_node[24]; int e_l[8]; int g_nf, g_f_atom[4], g_f_node[4];
int g_throw, g_debug, g_vec_alloc; unsigned g_errors, g_error_bits; size_t g_alloc_bytes;
long long g_step_rel, g_step_abs; int g_sim_continuing, g_sim_running;
size_t nondet_size_t(void); int nondet_int(void); double nondet_double(void); _Bool nondet_bool(void);
double k_floor(double x) { return x; } double k_sqrt(double x) { return x; } double k_pow(double x, double y) { return x; }
double k_boltzmann(void) { return 0.0; } double k_target_temperature(void) { return 0.0; } double k_dt(void) { return 1.0; } int k_same_step(void) { return 0; }
void h_ori_calc_value(void) { g_debug = 0; g_tn = 0; k_ori_calc_value(); int I = find_inner();
  if (I >= 0 && t_v(I) < 0.0) __CPROVER_assert(0, "canary: flipped representative reachable"); if (I >= 0 && t_v(I) >= 0.0) __CPROVER_assert(0, "canary: unflipped representative reachable"); }
void h_ori_apply_force(void) { g_debug = 0; g_tn = 0; g_nf = 0; _Bool nf = nondet_bool(); k_ori_apply_force(nf); int I = find_inner();
  if (!nf && I >= 0 && t_v(I) < 0.0) __CPROVER_assert(0, "canary: force with the flipped representative reachable"); if (nf) __CPROVER_assert(0, "canary: noforce reachable"); }

"""Per-property claims; MANIFEST.json is generated from this by `./cv manifest`."""
NA_DEFAULT = "check not built yet (build phase in progress)"
CLAIMS = {
 'C15': {
  'text': "Function contracts on the verbatim bodies of colvar_grid's index functions (index_ok for every nd by loop contract; incr, wrap, wrap_detect_edge, address for nd <= 3 with full-domain values) discharged by CBMC dfcc: in-range test is exact, incr is the lexicographic successor ending in the sentinel index_ok rejects (every bin visited once), periodic wrapping maps into [0,nx) by a multiple of nx and non-periodic out-of-range is flagged. Grid-file round trips and floating-point binning of the whole pipeline are not decided.",
  'note': "Trusted: CBMC C++ front end + stub std::vector; frame/wrapper marshalling; nd<=3 tasks are bounded stand-ins (reported separately, not counted as proved). n/d: text/multicolumn file round trip, histogram update path.",
  'design_ref': '§4 C15',
 },
}
NOT_APPLICABLE = {
 'C12': "quantifies over thread schedules; sequential contract verification (CBMC dfcc) cannot express it and the C++ front end has no OpenMP (DESIGN.md §4 C12)",
}

// Native replay for task toplevel_survives (C13): real module + stub proxy.  A distance variable is defined, then a harmonic bias on it; one step
// is taken; the bias is deleted; the atoms are moved and another step is taken.  The variable must behave as if the bias had never existed:
// still active, its value following the atoms.
#include "replay_util.h"
#include <cmath>
#include <vector>
#include "colvarmodule.h"
#include "colvarproxy.h"
#include "colvarbias.h"
#include "colvar.h"
#include "colvarproxy_stub.h"
#include "colvarproxy_stub.cpp"
static void step(colvarproxy_stub *p, long s, double x) { std::vector<cvm::atom_pos> &pos = *(p->modify_atom_positions()); pos[0] = cvm::atom_pos(0, 0, 0); pos[1] = cvm::atom_pos(x, 0, 0); p->colvars->it = s; p->colvars->calc(); }
int main(int argc, char **argv) {
  if (argc < 3) return 2; if (std::string(argv[1]) != "toplevel_survives") { std::cout << "REPLAY: no native driver for task " << argv[1] << "\n"; return 3; }
  colvarproxy_stub *p = new colvarproxy_stub(); p->set_unit_system("real", false); p->colvars->setup_input(); p->colvars->setup_output(); for (int a = 0; a < 2; a++) p->init_atom(a + 1);
  if (p->colvars->read_config_string("colvarsTrajFrequency 0\ncolvarsRestartFrequency 0\ncolvar {\n  name d\n  distance {\n    group1 { atomNumbers 1 }\n    group2 { atomNumbers 2 }\n  }\n}\n")) { std::cout << "REPLAY: configuration rejected\n"; return 3; }
  step(p, 0, 2.0); bool const active_alone = colvarmodule::colvar_by_name("d")->is_enabled(); double const v_alone = colvarmodule::colvar_by_name("d")->value().real_value;
  if (p->colvars->read_config_string("harmonic {\n  name h\n  colvars d\n  forceConstant 2.0\n  centers 1.0\n}\n")) { std::cout << "REPLAY: bias rejected\n"; return 3; }
  step(p, 1, 3.0);
  delete colvarmodule::bias_by_name("h");
  step(p, 2, 4.0); bool const active_after = colvarmodule::colvar_by_name("d")->is_enabled(); double const v_after = colvarmodule::colvar_by_name("d")->value().real_value;
  delete p;
  if (!active_alone || std::fabs(v_alone - 2.0) > 1e-9) { std::cout << "REPLAY: the variable is not active on its own\n"; return 3; }
  if (!active_after || std::fabs(v_after - 4.0) > 1e-9) REPLAY_FAIL("a variable that was active before a bias was defined on it: after the bias is deleted it is " << (active_after ? "active" : "switched off") << " and reports " << v_after << " with the atoms at distance 4");
  REPLAY_PASS("the variable stays active and follows the atoms after the only bias using it is deleted");
}

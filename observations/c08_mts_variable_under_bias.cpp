#include <cmath>
#include <iostream>
#include <vector>
#include "colvarmodule.h"
#include "colvarproxy.h"
#include "colvarbias.h"
#include "colvar.h"
#include "colvarproxy_stub.h"
#include "colvarproxy_stub.cpp"
int main() {
  colvarproxy_stub *p = new colvarproxy_stub(); p->set_unit_system("real", false); p->colvars->setup_input(); p->colvars->setup_output(); for (int a = 0; a < 2; a++) p->init_atom(a + 1);
  if (p->colvars->read_config_string("colvarsTrajFrequency 0\ncolvarsRestartFrequency 0\ncolvar {\n  name d\n  timeStepFactor 3\n  distance {\n    group1 { atomNumbers 1 }\n    group2 { atomNumbers 2 }\n  }\n}\n"
     "harmonic {\n  name h\n  colvars d\n  forceConstant 2.0\n  centers 1.0\n}\n")) return 2;
  p->colvars->it = p->colvars->it_restart = 0;
  for (long s = 0; s <= 7; s++) { std::vector<cvm::atom_pos> &pos = *(p->modify_atom_positions()); pos[0] = cvm::atom_pos(0, 0, 0); pos[1] = cvm::atom_pos(3.0, 0, 0);
    std::vector<cvm::rvector> &f = *(p->modify_atom_applied_forces()); f[0] = f[1] = cvm::rvector(0, 0, 0);
    p->colvars->it = s; p->colvars->calc(); std::cout << "step " << s << " force on atom 2: " << (*(p->modify_atom_applied_forces()))[1].x << " (expected " << ((s % 3 == 0) ? -12.0 : 0.0) << ")\n"; }
}

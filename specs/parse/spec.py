def s(name, src, sig, **kw): d = {'name': name, 'src': src, 'sig': sig, 'inc': name + '.body.inc'}; d.update(kw); return d
B = 'strings of at most 6 characters (stub std::string; loops bounded by the string bound)'
UNIT = {
 'slices': [
  s('getline', 'colvarmodule.cpp', r'std::istream & colvarmodule::getline\(std::istream &is, std::string &line\)'),
  s('check_braces', 'colvarparse.cpp', r'int colvarparse::check_braces\(std::string const &conf,\s*size_t const start_pos\)'),
  s('to_lower_cppstr', 'colvarparse.h', r'static inline std::string to_lower_cppstr\(std::string const &in\)', subst=[('::tolower(', 'cvs_tolower(')]),
 ],
 'assumed': ['std::string is a bounded character array (stubs/string); std::getline delivers an arbitrary next line or fails; ::tolower is the "C"-locale folding'],
 'tasks': [
  {'id': 'getline', 'properties': ['C09'], 'slices': ['getline'], 'harness': 'h_getline', 'enforce': 'k_getline', 'replace': ['k_stream_line_ok'], 'unwind': 20, 'bounded': B,
   'mutants': [('if (sz > 0) {\n      if (l[sz-1] == \'\\r\' ) {', 'if (sz > 1) {\n      if (l[sz-1] == \'\\r\' ) {'), ('l.substr(0, sz-1)', 'l.substr(0, sz)'), ('line.clear();', '')]},
  {'id': 'check_braces', 'properties': ['C09'], 'slices': ['check_braces'], 'harness': 'h_check_braces', 'enforce': 'k_check_braces', 'unwind': 20, 'bounded': B, 'unwind_body': 8,
   'mutants': [("if (conf[brace] == '}') brace_count--;", "if (conf[brace] == '}') brace_count++;"), ('brace++;', 'brace += 2;'), ('(brace_count != 0)', '(brace_count > 0)')]},
  {'id': 'to_lower_cppstr', 'properties': ['C09'], 'slices': ['to_lower_cppstr'], 'harness': 'h_to_lower_cppstr', 'enforce': 'k_to_lower_cppstr', 'unwind': 20, 'bounded': B, 'unwind_body': 8,
   'mutants': [('i < in.size()', 'i + 1 < in.size()')]},
 ],
}

#ifndef MODULE64_CONTRACT_H
#define MODULE64_CONTRACT_H
#include <stddef.h>
extern long long e_l[16];
extern int g_throw, g_debug; extern unsigned g_errors, g_error_bits;
extern long long g_step_rel, g_step_abs; extern int g_sim_continuing, g_sim_running;
/* colvarmodule::calc_colvars, head (C08): an object with time-step factor n > 1 is woken exactly on absolute steps that are
   multiples of n and put to sleep otherwise; objects with factor <= 1 are left alone; the active list is the enabled variables, in order */
extern int g_nawake, g_aw_kind[6], g_aw_tag[6], g_aw_on[6]; extern int g_active_tag[2]; extern size_t g_nactive; extern int g_state[6];
void k_awake(int kind, int tag, int on) __CPROVER_requires(0 <= g_nawake && g_nawake < 6)
  __CPROVER_assigns(g_nawake, g_aw_kind[g_nawake], g_aw_tag[g_nawake], g_aw_on[g_nawake])
  __CPROVER_ensures(g_nawake == __CPROVER_old(g_nawake) + 1 && g_aw_kind[g_nawake - 1] == kind && g_aw_tag[g_nawake - 1] == tag && g_aw_on[g_nawake - 1] == on);
#define DUE(n) ((g_step_abs % (n)) == 0 ? 1 : 0)
int k_calc_colvars_head(int btsf, int vtsf0, int vtsf1, _Bool en0, _Bool en1, _Bool bawake, _Bool vawake)
__CPROVER_requires((btsf == 1 || btsf == 3) && (vtsf0 == 1 || vtsf0 == 3) && vtsf1 == 1 && g_nawake == 0 && g_step_abs >= 0 && g_step_abs <= 4000000000000LL)
__CPROVER_assigns(__CPROVER_object_whole(e_l), g_nawake, __CPROVER_object_whole(g_aw_kind), __CPROVER_object_whole(g_aw_tag), __CPROVER_object_whole(g_aw_on), __CPROVER_object_whole(g_active_tag), g_nactive, __CPROVER_object_whole(g_state))
/* a bias with factor n > 1 is active after the head exactly on absolute steps that are multiples of n -- whether it was awake before, or
   still active from its initialisation without ever having been woken up (a run that does not start on a multiple of n) */
__CPROVER_ensures(btsf > 1 ==> (g_state[0] == DUE(3) && g_state[1] == DUE(3)))
__CPROVER_ensures(btsf <= 1 ==> (g_state[0] == 1 && g_state[1] == bawake))
/* its first event is the wake-up or the sleep request for this step */
__CPROVER_ensures(btsf > 1 ==> (g_nawake >= 1 && g_aw_kind[0] == 0 && g_aw_tag[0] == 0 && g_aw_on[0] == DUE(3)))
/* variables: the wake-up / sleep request is issued for the right step (their activity also depends on the biases that use them: n/d) */
__CPROVER_ensures(vtsf0 > 1 ==> (g_aw_kind[g_nawake - 1] == 1 && g_aw_tag[g_nawake - 1] == 0 && g_aw_on[g_nawake - 1] == DUE(3)))
__CPROVER_ensures(vtsf0 <= 1 ==> (g_state[2] == en0))
#define A0 (g_state[2] != 0)
__CPROVER_ensures(g_nactive == (A0 ? 1 : 0) + (en1 ? 1 : 0))
__CPROVER_ensures((A0 && en1) ==> (g_active_tag[0] == 0 && g_active_tag[1] == 1))
__CPROVER_ensures((!A0 && en1) ==> g_active_tag[0] == 1)
;
#endif

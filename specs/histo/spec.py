def s(name, src, sig, **kw): d = {'name': name, 'src': src, 'sig': sig, 'inc': name + '.body.inc'}; d.update(kw); return d
UNIT = {
 'slices': [
  s('histogram_update', 'colvarbias_histogram.cpp', r'int colvarbias_histogram::update\(\)'),
 ],
 'assumed': ['the grid is a stand-in: current_bin_scalar returns ghost bins, index_ok a ghost verdict per sample, acc_value is logged; colvarbias::update() and can_accumulate_data() are stand-ins (the real body of can_accumulate_data is under contract in unit bias_core)',
             'one variable; vector variables of at most 2 elements',
             'observation (not a finding): the gatherVectorColvars branch adds samples without asking can_accumulate_data(); a histogram over a vector variable cannot be constructed at this commit (colvar feature f_cv_grid requires f_cv_scalar), so the branch is unreachable through the public API and the eligibility clause is stated for scalar variables only'],
 'tasks': [
  {'id': 'histogram_update', 'properties': ['C15', 'C03'], 'slices': ['histogram_update'], 'harness': 'h_histogram_update', 'enforce': 'k_histogram_update', 'replace': ['k_acc'], 'unwind': 4, 'unwind_body': 4,
   'bounded': 'one variable, vector variables of at most 2 elements (loops unwound)',
   'mutants': [('if (grid->index_ok(bin)) {\n        grid->acc_value(bin, 1.0);', 'if (true) {\n        grid->acc_value(bin, 1.0);'), ('grid->acc_value(bin, weights[iv]);', 'grid->acc_value(bin, 1.0);'), ('bin[i] = grid->current_bin_scalar(i, iv);', 'bin[i] = grid->current_bin_scalar(i);'),
               ('if (can_accumulate_data()) {\n      if (grid->index_ok(bin)) {\n        grid->acc_value(bin, 1.0);', 'if (true) {\n      if (grid->index_ok(bin)) {\n        grid->acc_value(bin, 1.0);')]},
 ],
}

// Stub of the colvarmodule (cvm) static interface as used by sliced bodies.
#ifndef CVM_STUB_H
#define CVM_STUB_H
#include <cvs_base.h>
#ifdef CVS_SREAL
#include <sreal.h>
#endif
#define COLVARS_OK 0
#define COLVARS_ERROR 1
#define COLVARS_NOT_IMPLEMENTED (1<<1)
#define COLVARS_INPUT_ERROR     (1<<2)
#define COLVARS_BUG_ERROR       (1<<3)
#define COLVARS_FILE_ERROR      (1<<4)
#define COLVARS_MEMORY_ERROR    (1<<5)
#define COLVARS_NO_SUCH_FRAME   (1<<6)
struct CVS_MSG_T {};
extern CVS_MSG_T CVS_MSG;
extern "C" int g_debug;
extern "C" double k_floor(double);
extern "C" double k_sqrt(double);
extern "C" double k_pow(double, double);
#ifndef CVS_STEP_T
#define CVS_STEP_T long long
#endif
extern "C" CVS_STEP_T g_step_rel, g_step_abs;
extern "C" int g_sim_continuing, g_sim_running;
extern "C" int k_same_step();
extern "C" double k_boltzmann(); extern "C" double k_target_temperature(); extern "C" double k_dt();
struct colvarproxy_stub_t {
  bool simulation_continuing() const { return g_sim_continuing != 0; }
  bool simulation_running() const { return g_sim_running != 0; }
  bool total_forces_same_step() const { return k_same_step() != 0; }
#ifdef CVS_SREAL
  sreal boltzmann() { double v = k_boltzmann(); sreal r(v); return r; }
  sreal target_temperature() { double v = k_target_temperature(); sreal r(v); return r; }
#else
  double boltzmann() { return k_boltzmann(); }
  double target_temperature() { return k_target_temperature(); }
#endif
};
struct colvarmodule;
struct colvarmodule_main_t { colvarproxy_stub_t *proxy; };
static colvarproxy_stub_t cvs_proxy;
static colvarmodule_main_t cvs_main = { &cvs_proxy };
typedef colvarproxy_stub_t colvarproxy;
// call ids of uninterpreted functions in symbolic-real mode
#define CID_FLOOR 1
#define CID_SQRT 2
#define CID_POW 3
#define CID_EXP 4
#define CID_VALUE 5
#define CID_ACTUAL_VALUE 6
#define CID_DIST2 7
#define CID_DIST2_LGRAD 8
#define CID_DIST2_RGRAD 9
#define CID_WRAP 10
#define CID_CVV_DIST2 11
#define CID_CVV_DIST2_GRAD 12
#define CID_INTERPOLATE 13
#define CID_WIDTH 14
#define CID_USER 15
#define CID_ACOS 40
#define CID_SIN 41
#define CID_COS 42
#define CID_FABS 43
struct colvarmodule {
#ifdef CVS_SREAL
  typedef sreal real;
#else
  typedef double real;
#endif
  typedef CVS_STEP_T step_number;   // real: long long; a unit may narrow it (stated as a bound on step numbers)
  static colvarmodule_main_t *main() { return &cvs_main; }
  static colvarproxy_stub_t *proxy;
  static step_number step_relative() { return g_step_rel; }
  static step_number step_absolute() { return g_step_abs; }
  static bool debug() { return g_debug != 0; }
  static void increase_depth() {}   // log indentation only
  static void decrease_depth() {}
  static void log(CVS_MSG_T const &, int = 10) {}
  static int error(CVS_MSG_T const &, int code = COLVARS_ERROR) { g_errors = g_errors + 1; g_error_bits = g_error_bits | (unsigned)code; return code; }
  static int get_error() { return (int) g_error_bits; }
#ifdef CVS_SREAL
  static real pow(real const &x, real const &y) { return sreal_call(CID_POW, x.nid(), y.nid()); }
  static real floor(real const &x) { return sreal_call(CID_FLOOR, x.nid()); }
  static real sqrt(real const &x) { return sreal_call(CID_SQRT, x.nid()); }
  static real exp(real const &x) { return sreal_call(CID_EXP, x.nid()); }
  static real acos(real const &x) { return sreal_call(CID_ACOS, x.nid()); }
  static real sin(real const &x) { return sreal_call(CID_SIN, x.nid()); }
  static real cos(real const &x) { return sreal_call(CID_COS, x.nid()); }
  static real fabs(real const &x) { return sreal_call(CID_FABS, x.nid()); }
#else
  static real pow(real const &x, real const &y) { return k_pow(x, y); }
  static real floor(real const &x) { return k_floor(x); }
  static real sqrt(real const &x) { return k_sqrt(x); }
  static real fabs(real const &x) { return x < 0.0 ? -x : x; }
#endif
};
colvarproxy_stub_t *colvarmodule::proxy = &cvs_proxy;
#define cvm colvarmodule
#endif

/* Contracts for colvar_grid<T> index functions.  One text per function, used both for
   --enforce-contract (against the sliced real body) and --replace-call-with-contract. */
#ifndef GRID_INDEX_CONTRACT_H
#define GRID_INDEX_CONTRACT_H
#include <stddef.h>
#define NDMAX 1048576
extern size_t g_nd, g_k, g_k2, e_nd;
extern int *g_ix, *g_nx, *g_eb;
extern _Bool *g_per;
extern int g_old_k, g_old_k2;
extern int e_ix[4], e_nx[4], e_per[4];
extern int g_throw, g_debug; extern unsigned g_errors, g_error_bits;

#define GI_GHOSTS g_nd, g_k, g_k2, g_ix, g_nx, g_per, g_old_k, g_old_k2, e_nd, \
  __CPROVER_object_whole(e_ix), __CPROVER_object_whole(e_nx), __CPROVER_object_whole(e_per)
#define GI_PRE(ix, nx, nd) ((nd) <= NDMAX && __CPROVER_is_fresh(ix, (nd) * sizeof(int)) \
  && __CPROVER_is_fresh(nx, (nd) * sizeof(int)))
#define INRANGE(ix, nx, k) (0 <= (ix)[k] && (ix)[k] < (nx)[k])
#define BAD(ix, nx, nd, k) ((k) < (nd) && !INRANGE(ix, nx, k))

/* index_ok: true iff every component is in [0, nx).  Soundness for every nd (ghost index gk
   stands for "for all k"); completeness written out for nd <= 3. */
int k_index_ok(int *ix, int *nx, size_t nd, size_t gk)
__CPROVER_requires(GI_PRE(ix, nx, nd))
__CPROVER_assigns(GI_GHOSTS)
__CPROVER_ensures(__CPROVER_return_value == 0 || __CPROVER_return_value == 1)
__CPROVER_ensures((__CPROVER_return_value == 1 && gk < nd) ==> INRANGE(ix, nx, gk))
__CPROVER_ensures((__CPROVER_return_value == 0 && nd <= 3) ==>
                  (BAD(ix, nx, nd, 0) || BAD(ix, nx, nd, 1) || BAD(ix, nx, nd, 2)))
;

/* ---- functions below are specified exactly for nd <= NDB = 3 (bounded in nd, full domain in values) ---- */
#define NDB 3
/* bounded tasks: the index arrays are NDB ints long whatever nd is (the vector views still have length nd) */
#define GI_PRE3(ix, nx, nd) ((nd) <= NDB && __CPROVER_is_fresh(ix, NDB * sizeof(int)) && __CPROVER_is_fresh(nx, NDB * sizeof(int)))
#define ALL3(nd, P) ((0 < (nd) ==> P(0)) && (1 < (nd) ==> P(1)) && (2 < (nd) ==> P(2)))
#define ANY3(nd, P) ((0 < (nd) && P(0)) || (1 < (nd) && P(1)) || (2 < (nd) && P(2)))
#define NXMAX 536870911

/* wrap_detect_edge: periodic components are mapped by (ix+nx)%nx, which for ix in [-nx, 2nx) (the callers'
   range: a neighbour of an in-range bin) is the representative in [0,nx) differing by a multiple of nx;
   non-periodic components are left alone; the result says whether some non-periodic one is out of range. */
#define WDE_PRE(k) (nx[k] >= 1 && nx[k] <= NXMAX && ix[k] >= -nx[k] && ix[k] < 2 * nx[k])
#define WDE_POST(k) ((per[k] ==> (INRANGE(ix, nx, k) && (ix[k] == __CPROVER_old(ix[k]) || ix[k] == __CPROVER_old(ix[k]) + nx[k] \
                                                     || ix[k] == __CPROVER_old(ix[k]) - nx[k]))) \
                  && (!per[k] ==> ix[k] == __CPROVER_old(ix[k])))
#define WDE_EDGE(k) (!per[k] && !INRANGE(ix, nx, k))
int k_wrap_detect_edge(int *ix, int *nx, _Bool *per, size_t nd)
__CPROVER_requires(GI_PRE3(ix, nx, nd) && __CPROVER_is_fresh(per, NDB * sizeof(_Bool)))
__CPROVER_requires(ALL3(nd, WDE_PRE))
__CPROVER_assigns(GI_GHOSTS, __CPROVER_object_whole(ix))
__CPROVER_ensures(__CPROVER_return_value == 0 || __CPROVER_return_value == 1)
__CPROVER_ensures(ALL3(nd, WDE_POST))
__CPROVER_ensures((__CPROVER_return_value == 1) == ANY3(nd, WDE_EDGE))
;

/* wrap: same mapping for periodic components; an out-of-range non-periodic component is a (bug) error,
   after which the remaining components are not processed. */
#define WDE_EDGE_OLD(k) (!per[k] && !(0 <= __CPROVER_old(ix[k]) && __CPROVER_old(ix[k]) < nx[k]))
#define WRAP_WEAK(k) ((!per[k] ==> ix[k] == __CPROVER_old(ix[k])) && (per[k] ==> (ix[k] == __CPROVER_old(ix[k]) || \
   (INRANGE(ix, nx, k) && (ix[k] == __CPROVER_old(ix[k]) + nx[k] || ix[k] == __CPROVER_old(ix[k]) - nx[k])))))
int k_wrap(int *ix, int *nx, _Bool *per, size_t nd)
__CPROVER_requires(GI_PRE3(ix, nx, nd) && __CPROVER_is_fresh(per, NDB * sizeof(_Bool)))
__CPROVER_requires(ALL3(nd, WDE_PRE))
__CPROVER_assigns(GI_GHOSTS, __CPROVER_object_whole(ix), g_errors, g_error_bits)
__CPROVER_ensures(ALL3(nd, WRAP_WEAK))
__CPROVER_ensures((g_errors == __CPROVER_old(g_errors)) ==> (ALL3(nd, WDE_POST) && !ANY3(nd, WDE_EDGE_OLD)))
__CPROVER_ensures((g_errors != __CPROVER_old(g_errors)) ==> ANY3(nd, WDE_EDGE_OLD))
__CPROVER_ensures(ANY3(nd, WDE_EDGE_OLD) ==> g_errors == __CPROVER_old(g_errors) + 1)
;

/* incr: on an in-range index, the lexicographic successor with the last dimension fastest;
   from the last index, the sentinel ix[0] == nx[0] (rejected by index_ok), other components 0. */
#define INCR_PRE(k) (nx[k] >= 1 && nx[k] <= NXMAX && INRANGE(ix, nx, k))
#define O(k) __CPROVER_old(ix[k])
#define ATMAX(k) (O(k) == nx[k] - 1)
int k_incr(int *ix, int *nx, size_t nd)
__CPROVER_requires(1 <= nd && GI_PRE3(ix, nx, nd))
__CPROVER_requires(ALL3(nd, INCR_PRE))
__CPROVER_assigns(GI_GHOSTS, __CPROVER_object_whole(ix))
__CPROVER_ensures(nd == 1 ==> ix[0] == O(0) + 1)
__CPROVER_ensures(nd == 2 ==> (ATMAX(1) ? (ix[1] == 0 && ix[0] == O(0) + 1) : (ix[1] == O(1) + 1 && ix[0] == O(0))))
__CPROVER_ensures(nd == 3 ==> (ATMAX(2) ? (ix[2] == 0 && (ATMAX(1) ? (ix[1] == 0 && ix[0] == O(0) + 1) : (ix[1] == O(1) + 1 && ix[0] == O(0))))
                                       : (ix[2] == O(2) + 1 && ix[1] == O(1) && ix[0] == O(0))))
;

/* address: no out-of-range subscript (safety obligations), error only in debug mode on an index beyond nx.
   That the result is the row-major sum is not stated: 64-bit product equalities time out on every back end (DESIGN T8). */
#define ADDR_QUIET(k) (ix[k] < nx[k])
size_t k_address(int *ix, int *nx, int *nxc, size_t nd)
__CPROVER_requires(GI_PRE3(ix, nx, nd) && __CPROVER_is_fresh(nxc, NDB * sizeof(int)))
__CPROVER_assigns(GI_GHOSTS, g_errors, g_error_bits)
__CPROVER_ensures((g_debug == 0 || ALL3(nd, ADDR_QUIET)) ==> g_errors == __CPROVER_old(g_errors))
__CPROVER_ensures(nd == 0 ==> __CPROVER_return_value == 0)
;
#endif

// Frame TU for configuration-text helpers (C09).  Bodies sliced verbatim from src/colvarmodule.cpp, colvarparse.{h,cpp}.
#define CVS_SMAX 6
#include <vector>
#include <string>
#include <cvm_stub.h>
#include <cvs_echo.h>
extern "C" { extern char e_s[16]; extern size_t e_n[4]; }
extern "C" int k_stream_line_ok();
namespace std {
  struct istream { string next_; };
  // std::getline: delivers the stream's next line (ghost content) or fails
  inline bool getline(istream &is, string &l) { if (k_stream_line_ok() == 0) return false; l = is.next_; return true; }
}
inline int cvs_tolower(int c) { return (c >= 'A' && c <= 'Z') ? c + ('a' - 'A') : c; }   // ::tolower in the "C" locale

struct K_getline { std::istream *isp; std::string *linep;
  std::istream &body(std::istream &is, std::string &line)
#include "getline.body.inc"
};
struct K_braces { std::string conf; size_t start_pos; int body()
#include "check_braces.body.inc"
};
struct K_lower { std::string in; std::string body()
#include "to_lower_cppstr.body.inc"
};
static void to_str(std::string &s, char const *p, size_t n) { s.n_ = n; for (size_t i = 0; i < CVS_SMAX; i++) { if (i < n) s.b_[i] = p[i]; } s.b_[n] = 0; }
static void from_str(std::string const &s, char *p, size_t *n) { *n = s.n_; for (size_t i = 0; i < CVS_SMAX; i++) { if (i < s.n_) p[i] = s.b_[i]; } }
extern "C" int k_getline(char *in, size_t nin, char *line, size_t *nline) {
  K_getline f; std::istream is; std::string ln; to_str(is.next_, in, nin); to_str(ln, line, *nline);
  for (int k = 0; k < 6; k++) e_s[k] = in[k]; e_n[0] = nin; e_n[1] = *nline;
  f.body(is, ln);
  from_str(ln, line, nline);
  return 0;
}
extern "C" int k_check_braces(char *conf, size_t n, size_t start_pos) {
  K_braces f; to_str(f.conf, conf, n); f.start_pos = start_pos; for (int k = 0; k < 6; k++) e_s[k] = conf[k]; e_n[0] = n; e_n[1] = start_pos;
  return f.body();
}
extern "C" int k_to_lower_cppstr(char *in, size_t n, char *out, size_t *nout) {
  K_lower f; to_str(f.in, in, n); for (int k = 0; k < 6; k++) e_s[k] = in[k]; e_n[0] = n;
  std::string r = f.body(); from_str(r, out, nout);
  return 0;
}

C = 'colvarcomp.cpp'
def s(name, src, sig, **kw): d = {'name': name, 'src': src, 'sig': sig, 'inc': name + '.body.inc'}; d.update(kw); return d
def t(id, sl, mutants): return {'id': id, 'properties': ['C18'], 'slices': [sl], 'harness': 'h_' + id, 'enforce': 'k_' + id, 'unwind': 20, 'object_bits': 10, 'mutants': mutants}
UNIT = {
 'cxxflags': ['-DCVS_SREAL'],
 'slices': [
  s('features_cvc', 'colvardeps.h', r'enum features_cvc'),
  s('dist2', C, r'cvm::real colvar::cvc::dist2\(colvarvalue const &x1, colvarvalue const &x2\) const', R5=['diff']),
  s('dist2_lgrad', C, r'colvarvalue colvar::cvc::dist2_lgrad\(colvarvalue const &x1, colvarvalue const &x2\) const', R5=['diff']),
  s('dist2_rgrad', C, r'colvarvalue colvar::cvc::dist2_rgrad\(colvarvalue const &x1, colvarvalue const &x2\) const', subst=[('cvc::dist2_lgrad(', 'dist2_lgrad(')]),
  s('wrap', C, r'void colvar::cvc::wrap\(colvarvalue &x_unwrapped\) const', R5=[r'x_unwrapped\.real_value']),
 ],
 'assumed': ['real arithmetic is symbolic: the contracts fix the minimum-image formula structurally (same displacement in value and gradient); that floor(d/P+1/2)P selects the nearest image numerically is real analysis, not decided',
             'in dist2_rgrad the qualified call cvc::dist2_lgrad( is written unqualified (non-virtual call to the class\'s own function) and that callee is an uninterpreted call'],
 'tasks': [
  t('cvc_dist2', 'dist2', [('cvm::floor(diff / period + 0.5)', 'cvm::floor(diff / period)'), ('diff * diff', 'diff'), ('x1.real_value - x2.real_value', 'x1.real_value + x2.real_value')]),
  t('cvc_dist2_lgrad', 'dist2_lgrad', [('cvm::real const shift = cvm::floor(diff / period + 0.5);\n    diff -= shift * period;', 'if (diff >= period/2.0) diff -= period; else if (diff < -1.0*period/2.0) diff += period;'), ('2.0 * diff', 'diff'), ('diff -= shift * period;', 'diff += shift * period;')]),
  t('cvc_dist2_rgrad', 'dist2_rgrad', [('dist2_lgrad(x1, x2)', 'dist2_lgrad(x2, x1)')]),
  t('cvc_wrap', 'wrap', [('x_unwrapped.real_value - wrap_center', 'x_unwrapped.real_value'), ('+ 0.5', '')]),
 ],
}

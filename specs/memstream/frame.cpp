// Frame TU for cvm::memory_stream (C11, C03).  Bodies sliced verbatim from src/colvars_memstream.{h,cpp}.
#include <vector>
#include <cstring>
#include <ios_stub.h>
#include <cvm_stub.h>
#include <cvs_echo.h>
#define IS_TRIVIALLY_COPYABLE(T) true

extern "C" { extern size_t e_dl, e_rp, e_bufsz, e_add, e_max, e_tcap, e_vlen, e_isz; extern int e_st, e_ext; extern unsigned char e_buf[32], e_v[32]; }
#define E1(dst, src, n, k) if ((size_t)(k) < (n)) dst[k] = ((unsigned char const *)(src))[k];
#define E8(dst, src, n, k) E1(dst, src, n, k) E1(dst, src, n, k+1) E1(dst, src, n, k+2) E1(dst, src, n, k+3) E1(dst, src, n, k+4) E1(dst, src, n, k+5) E1(dst, src, n, k+6) E1(dst, src, n, k+7)
#define E32(dst, src, n) do { E8(dst, src, n, 0) E8(dst, src, n, 8) E8(dst, src, n, 16) E8(dst, src, n, 24) } while (0)

struct MSF {
  std::vector<unsigned char> *external_output_buffer_ = nullptr;   //@real colvars_memstream.h
  unsigned char const *external_input_buffer_ = nullptr;           //@real colvars_memstream.h
  std::vector<unsigned char> internal_buffer_;                     //@real colvars_memstream.h
  size_t data_length_ = 0L;                                        //@real colvars_memstream.h
  size_t max_length_;   // real: size_t const max_length_ (const dropped so that the wrapper can set it)
  std::ios::iostate state_ = std::ios::goodbit;                    //@real colvars_memstream.h
  size_t read_pos_ = 0L;                                           //@real colvars_memstream.h

  // one-line helpers of the class: signature lines from the class definition, bodies sliced verbatim
  inline unsigned char *output_buffer()
#include "output_buffer.body.inc"
  inline unsigned char *output_location()
#include "output_location.body.inc"
  inline unsigned char const *input_buffer() const
#include "input_buffer.body.inc"
  inline unsigned char const *input_location() const
#include "input_location.body.inc"
  // real: inline explicit operator bool() const; CBMC's front end cannot call a conversion operator, so the
  // same body is bound to a named member and `bool(*this)` in expand_output_buffer is rewritten to call it
  inline bool cvs_operator_bool() const
#include "operator_bool.body.inc"
  inline void setstate(std::ios::iostate new_state)
#include "setstate.body.inc"
  inline void clear()
#include "clear.body.inc"
  inline void incr_write_pos(size_t c)
#include "incr_write_pos.body.inc"
  inline void begin_reading()
#include "begin_reading.body.inc"
  inline void done_reading()
#include "done_reading.body.inc"
  inline void incr_read_pos(size_t c)
#include "incr_read_pos.body.inc"
  inline bool has_remaining(size_t c)
#include "has_remaining.body.inc"
};

// expand_output_buffer itself
struct K_expand : MSF {
  bool expand_output_buffer(size_t add_bytes)
#include "expand_output_buffer.body.inc"
};

// callers see expand_output_buffer through its contract
extern "C" int k_expand(size_t *st, unsigned char *buf, size_t bufsz, size_t maxlen, size_t add_bytes);
struct MSC : MSF {
  unsigned char *raw_; size_t rawsz_;
  bool expand_output_buffer(size_t add_bytes) {
    size_t st[4]; st[0] = data_length_; st[1] = read_pos_; st[2] = (size_t) state_; st[3] = internal_buffer_.n_;
    int r = k_expand(st, raw_, rawsz_, max_length_, add_bytes);
    state_ = (int) st[2]; internal_buffer_.n_ = st[3];
    return r != 0;
  }
};
// real: member templates of cvm::memory_stream; CBMC's front end cannot instantiate member templates
// (sizeof(T) fails), so T is bound by a class template around the same verbatim bodies
template <typename T> struct MSCT : MSC {
  void write_object(T const &t)
#include "write_object.body.inc"
  void write_vector(std::vector<T> const &t)
#include "write_vector.body.inc"
  void read_object(T &t)
#include "read_object.body.inc"
  void read_vector(std::vector<T> &t)
#include "read_vector.body.inc"
};

// ---------------------------------------------------------------------------------------------
// wrappers.  st: [0]=data_length_, [1]=read_pos_, [2]=state_, [3]=internal_buffer_.size()  (in/out)
static void ms_load(MSF &f, size_t *st, unsigned char *buf, size_t bufsz, size_t maxlen, int ext) {
  f.data_length_ = st[0]; f.read_pos_ = st[1]; f.state_ = (int) st[2]; f.max_length_ = maxlen;
  f.external_output_buffer_ = 0; f.external_input_buffer_ = 0; // (default member initialisers are not run by the front end)
  f.internal_buffer_.p_ = 0; f.internal_buffer_.n_ = 0; f.internal_buffer_.cap_ = 0;
  if (ext) { f.external_input_buffer_ = buf; }
  else { f.internal_buffer_.p_ = buf; f.internal_buffer_.n_ = st[3]; f.internal_buffer_.cap_ = bufsz; }
  e_dl = st[0]; e_rp = st[1]; e_st = (int) st[2]; e_bufsz = bufsz; e_max = maxlen; e_ext = ext;
  E32(e_buf, buf, bufsz);
}
static void ms_store(MSF &f, size_t *st) {
  st[0] = f.data_length_; st[1] = f.read_pos_; st[2] = (size_t) f.state_; st[3] = f.internal_buffer_.n_;
}

extern "C" int k_expand(size_t *st, unsigned char *buf, size_t bufsz, size_t maxlen, size_t add_bytes) {
  K_expand f; ms_load(f, st, buf, bufsz, maxlen, 0); e_add = add_bytes;
  bool r = f.expand_output_buffer(add_bytes);
  ms_store(f, st);
  return r;
}

extern "C" int k_has_remaining(size_t *st, size_t c) {
  MSF f; unsigned char dummy[1]; ms_load(f, st, dummy, 0, 0, 1); e_add = c;
  bool r = f.has_remaining(c);
  ms_store(f, st);
  return r;
}

#define MS_INST(SUF, T) \
extern "C" void k_write_object_##SUF(size_t *st, unsigned char *buf, size_t bufsz, size_t maxlen, T const *t) { \
  MSCT<T> f; f.raw_ = buf; f.rawsz_ = bufsz; ms_load(f, st, buf, bufsz, maxlen, 0); e_isz = sizeof(T); e_vlen = 1; E32(e_v, t, sizeof(T)); \
  f.write_object(*t); ms_store(f, st); } \
extern "C" void k_read_object_##SUF(size_t *st, unsigned char *buf, size_t bufsz, int ext, T *t) { \
  MSCT<T> f; f.raw_ = buf; f.rawsz_ = bufsz; ms_load(f, st, buf, bufsz, bufsz, ext); e_isz = sizeof(T); \
  f.read_object(*t); ms_store(f, st); } \
extern "C" void k_write_vector_##SUF(size_t *st, unsigned char *buf, size_t bufsz, size_t maxlen, T *v, size_t vlen) { \
  MSCT<T> f; f.raw_ = buf; f.rawsz_ = bufsz; ms_load(f, st, buf, bufsz, maxlen, 0); \
  std::vector<T> t; CVS_VIEW(t, v, vlen); e_isz = sizeof(T); e_vlen = vlen; E32(e_v, v, vlen * sizeof(T)); \
  f.write_vector(t); ms_store(f, st); } \
extern "C" T *k_read_vector_##SUF(size_t *st, unsigned char *buf, size_t bufsz, int ext, T *v, size_t *vlen, size_t vcap) { \
  MSCT<T> f; f.raw_ = buf; f.rawsz_ = bufsz; ms_load(f, st, buf, bufsz, bufsz, ext); \
  std::vector<T> t; t.p_ = v; t.n_ = *vlen; t.cap_ = vcap; e_tcap = vcap; e_isz = sizeof(T); e_vlen = *vlen; \
  g_vec_alloc = 1; \
  f.read_vector(t); ms_store(f, st); *vlen = t.n_; return t.p_; }

MS_INST(u64, unsigned long)
MS_INST(i32, int)
MS_INST(u8, unsigned char)

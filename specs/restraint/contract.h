/* Contracts for restraint biases (documented closed forms, closest-wall rule, schedules as functions of the absolute step).
   Real arithmetic is symbolic (specs/common/term.h): a postcondition P_...(g_ret, ...) says which expression the function returns. */
#ifndef RESTRAINT_CONTRACT_H
#define RESTRAINT_CONTRACT_H
#include <stddef.h>
#include "../common/term.h"
#include "echo.h"
extern int g_throw, g_debug; extern unsigned g_errors, g_error_bits;
extern CVS_STEP_T g_step_rel, g_step_abs; extern int g_sim_continuing, g_sim_running;
extern int g_ret, g_f_cv_periodic, g_cv_periodic[3], g_cv_feat_other;
#define FIN(x) ((x) >= -1.0e100 && (x) <= 1.0e100)
#define R_ECHO __CPROVER_object_whole(e_d), __CPROVER_object_whole(e_l), g_f_cv_periodic, g_ret
int k_cv_is_enabled(int cv_tag, int f) __CPROVER_requires(0 <= cv_tag && cv_tag < 3) __CPROVER_assigns()
  __CPROVER_ensures(__CPROVER_return_value == (f == g_f_cv_periodic ? g_cv_periodic[cv_tag] : g_cv_feat_other));

#define PARAMS_OK (i < 2 && FIN(force_k) && FIN(width) && FIN(center) && g_tn == 0)
/* leaves */
#define L_HALF(n) P_LEAF(n, 0.5)
#define L_MHALF(n) P_LEAF(n, -0.5)
#define L_K(n) P_LEAF(n, force_k)
#define L_W(n) P_LEAF(n, width)
#define L_C(n) P_LEAF(n, center)
/* w*w, value of variable 0, its own metric to the centre */
#define T_WW(n) P_BIN3(n, T_MUL, L_W, L_W)
#define T_X0(n) P_VCALL0(n, CID_VALUE, 0)
#define T_D2C(n) P_VCALL2_2(n, CID_DIST2, 0, T_X0, L_C)
#define T_LGC(n) P_VCALL2_2(n, CID_DIST2_LGRAD, 0, T_X0, L_C)

/* harmonic: U = (1/2 k / w^2) d^2(x, x0), d the variable's own (shortest-image) distance */
#define T_HK(n) P_BIN5(n, T_MUL, L_HALF, L_K)
#define T_HK_WW(n) P_BIN2(n, T_DIV, T_HK, T_WW)
double k_harmonic_restraint_potential(size_t i, double force_k, double width, double center)
__CPROVER_requires(PARAMS_OK)
__CPROVER_assigns(R_ECHO, TERM_FRAME)
__CPROVER_ensures(P_BIN1(g_ret, T_MUL, T_HK_WW, T_D2C))
;
/* F = (-1/2 k / w^2) grad_x d^2(x, x0) */
#define T_MHK(n) P_BIN5(n, T_MUL, L_MHALF, L_K)
#define T_MHK_WW(n) P_BIN2(n, T_DIV, T_MHK, T_WW)
double k_harmonic_restraint_force(size_t i, double force_k, double width, double center)
__CPROVER_requires(PARAMS_OK)
__CPROVER_assigns(R_ECHO, TERM_FRAME)
__CPROVER_ensures(P_BIN1(g_ret, T_MUL, T_MHK_WW, T_LGC))
;
/* dU/dk = (1/2 / w^2) d^2 */
#define T_H_WW(n) P_BIN2(n, T_DIV, L_HALF, T_WW)
double k_harmonic_d_restraint_potential_dk(size_t i, double force_k, double width, double center)
__CPROVER_requires(PARAMS_OK)
__CPROVER_assigns(R_ECHO, TERM_FRAME)
__CPROVER_ensures(P_BIN1(g_ret, T_MUL, T_H_WW, T_D2C))
;

/* linear: U = (k / w) * (x - x0);  F = ((-1 k) / w) * 1;  dU/dk = (1 / w) * (x - x0) */
#define L_ONE(n) P_LEAF(n, 1.0)
#define L_MONE(n) P_LEAF(n, -1.0)
#define T_XMC(n) P_BIN2(n, T_SUB, T_X0, L_C)
#define T_K_W(n) P_BIN2(n, T_DIV, L_K, L_W)
double k_linear_restraint_potential(size_t i, double force_k, double width, double center)
__CPROVER_requires(PARAMS_OK)
__CPROVER_assigns(R_ECHO, TERM_FRAME)
__CPROVER_ensures(P_BIN1(g_ret, T_MUL, T_K_W, T_XMC))
;
#define T_MK(n) P_BIN3(n, T_MUL, L_MONE, L_K)
#define T_MK_W(n) P_BIN2(n, T_DIV, T_MK, L_W)
double k_linear_restraint_force(size_t i, double force_k, double width, double center)
__CPROVER_requires(PARAMS_OK)
__CPROVER_assigns(R_ECHO, TERM_FRAME)
__CPROVER_ensures(P_BIN1(g_ret, T_MUL, T_MK_W, L_ONE))
;
#define T_1_W(n) P_BIN2(n, T_DIV, L_ONE, L_W)
double k_linear_d_restraint_potential_dk(size_t i, double force_k, double width, double center)
__CPROVER_requires(PARAMS_OK)
__CPROVER_assigns(R_ECHO, TERM_FRAME)
__CPROVER_ensures(P_BIN1(g_ret, T_MUL, T_1_W, T_XMC))
;
/* colvarbias_restraint::update: the base class is updated first (it zeroes the energy), then the energy is the sum over the variables, in
   order, of restraint_potential(i) and the force on variable i is restraint_force(i) */
#define CID_RPOT (CID_USER + 5)
#define CID_RFORCE (CID_USER + 6)
extern int g_un[12], g_uo[4], g_nbu, g_bu_tn;
void k_bias_update(void) __CPROVER_assigns(g_nbu, g_bu_tn) __CPROVER_ensures(g_nbu == __CPROVER_old(g_nbu) + 1 && g_bu_tn == g_tn);
static int r_op(int n) { return TVALID(n) ? g_top(n) : -1; }
static int r_a(int n) { return TVALID(n) ? g_ta(n) : -2; }
static int r_b(int n) { return TVALID(n) ? g_tb(n) : -2; }
static int r_c(int n) { return TVALID(n) ? g_tc(n) : -2; }
static _Bool upd_energy_ok(void) { int e = g_un[1], m = r_a(e);
  return r_op(e) == T_ADD && r_op(r_b(e)) == T_CALL + CID_RPOT && r_a(r_b(e)) == 1 && r_op(m) == T_ADD && r_a(m) == g_un[0] && r_op(r_b(m)) == T_CALL + CID_RPOT && r_a(r_b(m)) == 0; }
static _Bool upd_force_ok(int k) { int f = g_un[2 + k]; return r_op(f) == T_CALL + CID_RFORCE && r_a(f) == k; }
int k_restraint_update(void)
__CPROVER_requires(g_tn == 0 && g_nbu == 0)
__CPROVER_assigns(R_ECHO, TERM_FRAME, __CPROVER_object_whole(g_un), g_nbu, g_bu_tn)
__CPROVER_ensures(g_nbu == 1 && upd_energy_ok() && upd_force_ok(0) && upd_force_ok(1))
/* the base-class update comes before any potential or force is evaluated (only the 3 input leaves exist at that point) */
__CPROVER_ensures(g_bu_tn == 3)
;
/* update_centers(lambda): c_new = interpolate(initial_i, target_i, lambda) on the value's manifold; the increment used for the accumulated
   work is 1/2 grad of the VARIABLE'S OWN squared distance (shortest image for a periodic variable) between c_new and the old centre, taken
   BEFORE the centre is replaced; the new centre is c_new wrapped by its variable */
static _Bool uc_cnew(int n, int k) { return r_op(n) == T_CALL + CID_INTERPOLATE && r_a(n) == g_un[5 + k] && r_b(n) == g_un[7 + k] && r_c(n) == g_un[4]; }
static _Bool uc_incr_ok(int k) { int r = g_uo[k], g = r_b(r); return r_op(r) == T_MUL && P_LEAF(r_a(r), 0.5) && r_op(g) == T_CALL + CID_DIST2_LGRAD && r_a(g) == k && uc_cnew(r_b(g), k) && r_c(g) == g_un[9 + k]; }
static _Bool uc_centre_ok(int k) { int r = g_uo[2 + k]; return r_op(r) == T_CALL + CID_WRAP && r_a(r) == k && uc_cnew(r_b(r), k); }
int k_update_centers_body(void)
__CPROVER_requires(g_tn == 0)
__CPROVER_assigns(R_ECHO, TERM_FRAME, __CPROVER_object_whole(g_un), __CPROVER_object_whole(g_uo), g_errors, g_error_bits)
__CPROVER_ensures(uc_incr_ok(0) && uc_incr_ok(1) && uc_centre_ok(0) && uc_centre_ok(1))
/* same interpolated value in increment and centre */
__CPROVER_ensures(r_b(r_b(g_uo[0])) == r_b(g_uo[2]) && r_b(r_b(g_uo[1])) == r_b(g_uo[3]))
;

/* walls: signed displacement beyond the applicable wall (0 between the walls).
   non-periodic: the lower wall applies iff present and its gradient < 0, else the upper wall iff present and gradient > 0;
   periodic: only the closer wall (smaller squared distance) is considered.
   The position used is the actual value iff the bias bypasses the extended Lagrangian. */
#define T_XV(n) (bypass ? P_VCALL0(n, CID_ACTUAL_VALUE, 0) : P_VCALL0(n, CID_VALUE, 0))
#define L_LW(n) P_LEAF(n, lw)
#define L_UW(n) P_LEAF(n, uw)
#define T_LG_L(n) P_VCALL2_2(n, CID_DIST2_LGRAD, 0, T_XV, L_LW)
#define T_LG_U(n) P_VCALL2_2(n, CID_DIST2_LGRAD, 0, T_XV, L_UW)
#define T_D2_L(n) P_VCALL2_2(n, CID_DIST2, 0, T_XV, L_LW)
#define T_D2_U(n) P_VCALL2_2(n, CID_DIST2, 0, T_XV, L_UW)
#define L_ZERO(n) P_LEAF(n, 0.0)
/* ghost witnesses chosen by the harness: nodes claimed to be the lower / upper gradient and squared distances */
extern int g_wl, g_wu, g_wdl, g_wdu;
#define WIT_L (T_LG_L(g_wl))
#define WIT_U (T_LG_U(g_wu))
#define HALF_OF(n, m) (TVALID(n) && g_top(n) == T_MUL && L_HALF(g_ta(n)) && g_tb(n) == (m))
static _Bool wd_is(int n, _Bool bypass, double wall) { return TVALID(n) && g_top(n) == T_CALL + CID_DIST2 && g_ta(n) == 0 && TVALID(g_tb(n)) && g_top(g_tb(n)) == T_CALL + (bypass ? CID_ACTUAL_VALUE : CID_VALUE) && g_ta(g_tb(n)) == 0 && P_LEAF(g_tc(n), wall); }
static _Bool wd_exists(int which, _Bool bypass, double wall) { for (int k = 0; k < 16; k++) if (wd_is(k, bypass, wall)) return 1; return 0; }
double k_walls_colvar_distance(size_t i, double lw, double uw, int has_lower, int has_upper, _Bool bypass)
__CPROVER_requires(i < 2 && FIN(lw) && FIN(uw) && lw < uw && g_tn == 0)
__CPROVER_requires((has_lower == 0 || has_lower == 1) && (has_upper == 0 || has_upper == 1) && (g_cv_periodic[0] == 0 || g_cv_periodic[0] == 1))
__CPROVER_requires(g_cv_periodic[0] ==> (has_lower && has_upper))
__CPROVER_assigns(R_ECHO, TERM_FRAME)
/* whatever is returned is 0, half the lower-wall gradient, or half the upper-wall gradient */
__CPROVER_ensures(L_ZERO(g_ret) || (TVALID(g_ret) && g_top(g_ret) == T_MUL && L_HALF(g_ta(g_ret)) && (T_LG_L(g_tb(g_ret)) || T_LG_U(g_tb(g_ret)))))
/* non-periodic selection (witness nodes g_wl / g_wu: if they are the wall gradients, the result follows their signs) */
__CPROVER_ensures((!g_cv_periodic[0] && has_lower && WIT_L && g_tv[g_wl] < 0.0) ==> (HALF_OF(g_ret, g_wl) || (TVALID(g_ret) && T_LG_L(g_tb(g_ret)) && g_tv[g_tb(g_ret)] < 0.0)))
__CPROVER_ensures((!g_cv_periodic[0] && !has_lower) ==> (L_ZERO(g_ret) || T_LG_U(g_tb(g_ret))))
__CPROVER_ensures((!g_cv_periodic[0] && !has_upper) ==> (L_ZERO(g_ret) || T_LG_L(g_tb(g_ret))))
__CPROVER_ensures((!L_ZERO(g_ret) && T_LG_L(g_tb(g_ret))) ==> g_tv[g_tb(g_ret)] < 0.0)
__CPROVER_ensures((!L_ZERO(g_ret) && T_LG_U(g_tb(g_ret))) ==> g_tv[g_tb(g_ret)] > 0.0)
__CPROVER_ensures((!g_cv_periodic[0] && L_ZERO(g_ret) && has_lower && WIT_L) ==> !(g_tv[g_wl] < 0.0))
__CPROVER_ensures((!g_cv_periodic[0] && L_ZERO(g_ret) && has_upper && WIT_U) ==> !(g_tv[g_wu] > 0.0))
/* periodic: closest-wall rule (witnesses for the two squared distances) */
__CPROVER_ensures((g_cv_periodic[0] && T_D2_L(g_wdl) && T_D2_U(g_wdu) && g_tv[g_wdl] < g_tv[g_wdu]) ==> (L_ZERO(g_ret) || T_LG_L(g_tb(g_ret))))
__CPROVER_ensures((g_cv_periodic[0] && T_D2_L(g_wdl) && T_D2_U(g_wdu) && !(g_tv[g_wdl] < g_tv[g_wdu])) ==> (L_ZERO(g_ret) || T_LG_U(g_tb(g_ret))))
__CPROVER_ensures((g_cv_periodic[0] && L_ZERO(g_ret) && WIT_L && T_D2_L(g_wdl) && T_D2_U(g_wdu) && g_tv[g_wdl] < g_tv[g_wdu]) ==> !(g_tv[g_wl] < 0.0))
__CPROVER_ensures((g_cv_periodic[0] && L_ZERO(g_ret) && WIT_U && T_D2_L(g_wdl) && T_D2_U(g_wdu) && !(g_tv[g_wdl] < g_tv[g_wdu])) ==> !(g_tv[g_wu] > 0.0))
/* periodic: the two squared distances that are compared ARE computed, over the variable's own (shortest-image) metric -- without this clause
   the witness clauses above would hold vacuously for a comparison made over another metric */
__CPROVER_ensures(g_cv_periodic[0] ==> (wd_exists(0, bypass, lw) && wd_exists(1, bypass, uw)))
;
/* callers of colvar_distance see it through this stand-in (result = ghost g_wdist) */
extern double g_wdist; extern int g_nwd;
double k_walls_colvar_distance_stub(size_t i)
__CPROVER_assigns(g_nwd) __CPROVER_ensures(g_nwd == __CPROVER_old(g_nwd) + 1 && __CPROVER_return_value == g_wdist);
#define WPARAMS_OK (i < 2 && FIN(force_k) && FIN(width) && FIN(lk) && FIN(uk) && FIN(g_wdist) && g_nwd == 0 && g_tn == 0)
#define L_DIST(n) P_LEAF(n, g_wdist)
#define L_SCALE(n) P_LEAF(n, (g_wdist > 0.0 ? uk : lk))
/* U = ((1/2 k s) / w^2) dist dist, s the relative constant of the wall that is exceeded (upper iff dist > 0) */
#define T_HKS(n) P_BIN4(n, T_MUL, T_HK, L_SCALE)
#define T_HKS_WW(n) P_BIN6(n, T_DIV, T_HKS, T_WW)
#define T_HKS_WW_D(n) P_BIN2(n, T_MUL, T_HKS_WW, L_DIST)
double k_walls_restraint_potential(size_t i, double force_k, double width, double lk, double uk)
__CPROVER_requires(WPARAMS_OK)
__CPROVER_assigns(R_ECHO, TERM_FRAME, g_nwd)
__CPROVER_ensures(P_BIN1(g_ret, T_MUL, T_HKS_WW_D, L_DIST))
;
/* F = ((-k s) / w^2) dist */
#define T_NK(n) P_NEG5(n, L_K)
#define T_NKS(n) P_BIN4(n, T_MUL, T_NK, L_SCALE)
#define T_NKS_WW(n) P_BIN2(n, T_DIV, T_NKS, T_WW)
double k_walls_restraint_force(size_t i, double force_k, double width, double lk, double uk)
__CPROVER_requires(WPARAMS_OK)
__CPROVER_assigns(R_ECHO, TERM_FRAME, g_nwd)
__CPROVER_ensures(P_BIN1(g_ret, T_MUL, T_NKS_WW, L_DIST))
;
/* dU/dk = ((1/2 s) / w^2) dist dist */
#define T_HS(n) P_BIN4(n, T_MUL, L_HALF, L_SCALE)
#define T_HS_WW(n) P_BIN6(n, T_DIV, T_HS, T_WW)
#define T_HS_WW_D(n) P_BIN2(n, T_MUL, T_HS_WW, L_DIST)
double k_walls_d_restraint_potential_dk(size_t i, double force_k, double width, double lk, double uk)
__CPROVER_requires(WPARAMS_OK)
__CPROVER_assigns(R_ECHO, TERM_FRAME, g_nwd)
__CPROVER_ensures(P_BIN1(g_ret, T_MUL, T_HS_WW_D, L_DIST))
;

/* moving centres: the schedule is a function of the absolute step alone.
   staged: the stage advances by one, with lambda = stage/nstages of the stage being left, exactly on steps with
   (step - first) % n == 1 that are not the repeated first step of a run segment (relative step 0), while stages remain;
   continuous: lambda = (step - first)/n while step - first <= n.  Otherwise the centre increments are zeroed. */
extern int g_nuc, g_uc_lambda;
int k_update_centers(int lambda_node)
__CPROVER_assigns(g_nuc, g_uc_lambda) __CPROVER_ensures(g_nuc == __CPROVER_old(g_nuc) + 1 && g_uc_lambda == lambda_node);
#define STEP_OK (g_step_abs >= 0 && g_step_abs <= 1000000000 && g_step_rel >= 0 && g_step_rel <= g_step_abs && first_step >= 0 && first_step <= 1000000000 \
                 && (target_nsteps == 10) && target_nstages >= 0 && target_nstages <= 100000 && *stage >= 0 && *stage <= 100000)
#define O(x) __CPROVER_old(x)
#define STAGED_ADVANCE (O(*stage) <= target_nstages && g_step_rel > 0 && ((g_step_abs - first_step) % target_nsteps) == 1)
#define L_STAGE0(n) P_LEAF(n, (double)O(*stage))
#define L_NSTAGES(n) P_LEAF(n, (double)target_nstages)
#define L_ELAPSED(n) P_LEAF(n, (double)(g_step_abs - first_step))
#define L_NSTEPS(n) P_LEAF(n, (double)target_nsteps)
int k_centers_moving_update(int *stage, int target_nstages, CVS_STEP_T target_nsteps, CVS_STEP_T first_step, _Bool b_chg_centers, double *incr)
__CPROVER_requires(__CPROVER_is_fresh(stage, sizeof(int)) && __CPROVER_is_fresh(incr, 2 * sizeof(double)) && STEP_OK && g_nuc == 0 && g_tn == 0 && FIN(incr[0]) && FIN(incr[1]))
__CPROVER_requires(g_sim_running == 0 || g_sim_running == 1)
__CPROVER_assigns(R_ECHO, TERM_FRAME, *stage, __CPROVER_object_whole(incr), g_nuc, g_uc_lambda)
__CPROVER_ensures((!g_sim_running || !b_chg_centers) ==> (g_nuc == 0 && *stage == O(*stage) && incr[0] == O(incr[0]) && incr[1] == O(incr[1])))
__CPROVER_ensures((g_sim_running && b_chg_centers && target_nstages && STAGED_ADVANCE) ==>
                  (g_nuc == 1 && *stage == O(*stage) + 1 && P_BIN1(g_uc_lambda, T_DIV, L_STAGE0, L_NSTAGES)))
__CPROVER_ensures((g_sim_running && b_chg_centers && target_nstages && !STAGED_ADVANCE) ==> (g_nuc == 0 && *stage == O(*stage)))
__CPROVER_ensures((g_sim_running && b_chg_centers && target_nstages && !STAGED_ADVANCE && O(*stage) <= target_nstages) ==> (incr[0] == 0.0 && incr[1] == 0.0))
__CPROVER_ensures((g_sim_running && b_chg_centers && !target_nstages && g_step_abs - first_step <= target_nsteps) ==>
                  (g_nuc == 1 && *stage == O(*stage) && P_BIN1(g_uc_lambda, T_DIV, L_ELAPSED, L_NSTEPS)))
__CPROVER_ensures((g_sim_running && b_chg_centers && !target_nstages && !(g_step_abs - first_step <= target_nsteps)) ==>
                  (g_nuc == 0 && incr[0] == 0.0 && incr[1] == 0.0))
__CPROVER_ensures((g_sim_running && b_chg_centers && g_step_rel == 0) ==> (incr[0] == 0.0 && incr[1] == 0.0))
;
/* accumulated work: one term force_i * increment_i per variable, added once, on advancing steps within the schedule only */
extern int g_cf_node[2], g_incr_node[2], g_acc_in, g_acc_out;
#define N_ACC_IN(n) P_SAME(n, g_acc_in)
#define N_CF0(n) P_SAME(n, g_cf_node[0])
#define N_CF1(n) P_SAME(n, g_cf_node[1])
#define N_IN0(n) P_SAME(n, g_incr_node[0])
#define N_IN1(n) P_SAME(n, g_incr_node[1])
#define T_W0(n) P_BIN3(n, T_MUL, N_CF0, N_IN0)
#define T_W1(n) P_BIN4(n, T_MUL, N_CF1, N_IN1)
#define T_ACC1(n) P_BIN2(n, T_ADD, N_ACC_IN, T_W0)
int k_centers_moving_update_acc_work(CVS_STEP_T target_nsteps, CVS_STEP_T first_step, _Bool b_chg_centers, _Bool out_work)
__CPROVER_requires(g_step_abs >= 0 && g_step_abs <= 1000000000 && g_step_rel >= 0 && g_step_rel <= g_step_abs && first_step >= 0 && first_step <= 1000000000
                   && target_nsteps >= 1 && target_nsteps <= 1000000000 && g_tn == 0 && (g_sim_running == 0 || g_sim_running == 1))
__CPROVER_assigns(R_ECHO, TERM_FRAME, __CPROVER_object_whole(g_cf_node), __CPROVER_object_whole(g_incr_node), g_acc_in, g_acc_out)
__CPROVER_ensures((g_sim_running && b_chg_centers && out_work && g_step_rel > 0 && g_step_abs - first_step <= target_nsteps) ==> P_BIN1(g_acc_out, T_ADD, T_ACC1, T_W1))
__CPROVER_ensures(!(g_sim_running && b_chg_centers && out_work && g_step_rel > 0 && g_step_abs - first_step <= target_nsteps) ==> g_acc_out == g_acc_in)
;
#endif

#include "contract.h"
int e_l[8]; int g_nread; int g_out[6]; int g_nkept; int g_proj_first, g_proj_last, g_nproj; double g_mindist, g_hillwidth;
int g_throw, g_debug, g_vec_alloc; unsigned g_errors, g_error_bits; size_t g_alloc_bytes;
long long g_step_rel, g_step_abs; int g_sim_continuing, g_sim_running;
size_t nondet_size_t(void); int nondet_int(void); _Bool nondet_bool(void);
double k_floor(double x) { return (double)(long long) x; } double k_sqrt(double x) { return x; } double k_pow(double x, double y) { return x; }
double k_boltzmann(void) { return 0.0; } double k_target_temperature(void) { return 0.0; } double k_dt(void) { return 1.0; } int k_same_step(void) { return 0; }
void h_read_hills(void) { g_debug = 0; g_nread = nondet_int(); size_t n = nondet_size_t(); _Bool ug = nondet_bool(); k_read_hills(n, ug, nondet_bool());
  if (n == 1 && g_nread == 2 && !ug) __CPROVER_assert(0, "canary: two hills restored over an existing one, no grids");
  if (g_nread == 0) __CPROVER_assert(0, "canary: state without hills reachable"); }
long long nondet_ll(void);
void h_hill_skip(void) { g_debug = 0; g_nkept = 0; k_hill_skip(nondet_ll(), nondet_ll(), nondet_bool()); if (g_nkept == 0) __CPROVER_assert(0, "canary: skipped hill reachable"); if (g_nkept == 1) __CPROVER_assert(0, "canary: kept hill reachable"); }
void h_write_project(void) { g_debug = 0; g_nproj = 0; size_t nh = nondet_size_t(), m = nondet_size_t(); k_write_project(nh, m); if (m < nh) __CPROVER_assert(0, "canary: pending hills at a state write reachable"); }
double nondet_double(void);
void h_add_hill_once(void) { g_debug = 0; g_mindist = nondet_double(); g_hillwidth = nondet_double(); size_t n0 = nondet_size_t(), m = nondet_size_t(); _Bool ug = nondet_bool(); k_add_hill_once(n0, m, ug);
  if (ug && g_mindist < 1.0) __CPROVER_assert(0, "canary: hill near the grid boundary reachable"); if (m == n0) __CPROVER_assert(0, "canary: first pending hill reachable"); }

A = 'colvarbias_abf.cpp'
def s(name, src, sig, **kw): d = {'name': name, 'src': src, 'sig': sig, 'inc': name + '.body.inc'}; d.update(kw); return d
REPL = ['k_current_bin_scalar', 'k_cv_enabled', 'k_can_accumulate', 'k_same_step', 'k_index_ok', 'k_acc_force', 'k_update_div_neighbors_stub', 'k_update_system_force',
        'k_replica_share', 'k_calc_biasing_force_stub', 'k_vector_value_smoothed', 'k_average']
UNIT = {
 'cxxflags': ['-DCVS_SREAL'],
 'slices': [
  s('features_biases', 'colvardeps.h', r'enum features_biases'),
  s('features_colvar', 'colvardeps.h', r'enum features_colvar'),
  s('num_variables', 'colvarbias.h', r'inline size_t num_variables\(\) const'),
  s('update', A, r'int colvarbias_abf::update\(\)', until=r'  // \*+\n  // \*+  End of ABF proper', until_close='return COLVARS_OK;'),
  s('calc_biasing_force', A, r'int colvarbias_abf::calc_biasing_force\(std::vector<cvm::real> &force\)', R5=[r'force\[i\]'], R8=True),
 ],
 'assumed': ['colvarbias_abf::update is sliced up to the comment "End of ABF proper": output-prefix handling, the UI estimator and calc_energy are not under contract',
             'grids (samples, gradients, pmf), update_system_force, replica_share are counting/logging stubs; shared ABF, projected ABF and CZAR branches are disabled in the frame',
             'real arithmetic is symbolic; the cap comparison branches on unconstrained payloads (all four outcomes are explored)'],
 'tasks': [
  {'id': 'abf_update', 'properties': ['C04'], 'slices': ['update', 'num_variables'], 'harness': 'h_abf_update', 'enforce': 'k_abf_update', 'replace': REPL, 'unwind': 30, 'object_bits': 10, 'unwind_body': 3,
   'bounded': '1 or 2 variables (loops over variables unwound)',
   'mutants': [('if (colvars[i]->is_enabled(f_cv_total_force_current_step)) {\n      force_bin[i] = bin[i];\n    }', 'force_bin[i] = bin[i];'), ('force_bin = bin;', ''), ('cvm::step_relative() > 0 || cvm::proxy->total_forces_same_step()', 'cvm::step_relative() >= 0'),
               ('gradients->acc_force(force_bin, system_force);', 'gradients->acc_force(bin, system_force);'), ('is_enabled(f_cvb_apply_force) && samples->index_ok(bin)', 'is_enabled(f_cvb_apply_force)'),
               ('colvar_forces[i].reset();', '')]},
  {'id': 'calc_biasing_force', 'properties': ['C04'], 'slices': ['calc_biasing_force', 'num_variables'], 'harness': 'h_calc_biasing_force', 'enforce': 'k_calc_biasing_force', 'replace': REPL, 'unwind': 30, 'object_bits': 10, 'unwind_body': 3,
   'bounded': '1 or 2 variables (loops over variables unwound)',
   'mutants': [('force[0] = force[0] - gradients->average();', 'force[0] = force[0] + gradients->average();'), ('(num_variables() == 1) && gradients->periodic[0]', '(num_variables() == 1)'),
               ('force[i] > 0 ? max_force[i] : -1.0 * max_force[i]', 'force[i] > 0 ? max_force[i] : max_force[i]')]},
 ],
}

def s(name, src, sig, **kw): d = {'name': name, 'src': src, 'sig': sig, 'inc': name + '.body.inc'}; d.update(kw); return d
UNIT = {
 'slices': [s('features_biases', 'colvardeps.h', r'enum features_biases'), s('features_colvar', 'colvardeps.h', r'enum features_colvar'),
  s('calc_colvars_head', 'colvarmodule.cpp', r'int colvarmodule::calc_colvars\(\)', until=r'\n  // if SMP support is available', until_close='return error_code;')],
 'assumed': ['colvarmodule::calc_colvars is sliced up to the comment "if SMP support is available" (the evaluation of the variables is not under contract); biases and variables are stand-ins with the awake/active semantics of colvardeps (awake requires active; an object is active from initialisation; disabling an enabled awake puts the object to sleep; disabling what is off does nothing); their enable/disable calls are logged'],
 'tasks': [
  {'id': 'calc_colvars_head', 'properties': ['C08'], 'slices': ['calc_colvars_head'], 'harness': 'h_calc_colvars_head', 'enforce': 'k_calc_colvars_head', 'replace': ['k_awake'], 'unwind': 20, 'unwind_body': 4,
   'solvers': ['kissat'], 'timeout': 600, 'bounded': 'one bias, two variables; time-step factors 1 or 3 (constant divisor)',
   'mutants': [('if (step_absolute() % tsf == 0) {\n        (*bi)->enable', 'if (step_absolute() % tsf == 1) {\n        (*bi)->enable'), ('if ((*cvi)->is_enabled()) {', 'if (true) {'), ('if (tsf > 1) {\n      if (step_absolute() % tsf == 0) {\n        (*cvi)', 'if (tsf > 0) {\n      if (step_absolute() % tsf == 0) {\n        (*cvi)')]},
 ],
}

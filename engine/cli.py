"""cv: driver.  cv check <PROP> [--tier quick|thorough] | cv unit <unit> [task...] | cv mutants <unit> [task...]"""
import concurrent.futures as cf
import json
import os
import re
import shutil
import subprocess
import sys
import tempfile
import time

from . import core
from .core import Undecided, log

KNOWN = os.path.join(core.VERIF, 'known_findings.txt')


def mk_scratch():
    base = os.environ.get('CVS_SCRATCH') or os.environ.get('XDG_RUNTIME_DIR') or '/var/tmp'
    if not os.path.isdir(base) or not os.access(base, os.W_OK):
        base = '/var/tmp'
    return tempfile.mkdtemp(prefix='cv.', dir=base)


def run_unit(unit, scratch, tier, task_filter=None, mutate=None):
    """Slice, build and decide all (selected) tasks of a unit.  Returns (slice_recs, task_results)."""
    os.makedirs(scratch, exist_ok=True)
    recs = core.do_slices(unit, scratch, mutate)
    nfields = core.check_fields(unit)
    core.build_unit(unit, scratch)
    tasks = [t for t in unit['tasks'] if (task_filter is None or task_filter(t))]
    if tier != 'thorough':
        tasks = [t for t in tasks if not t.get('thorough_only')]
    results = []
    with cf.ThreadPoolExecutor(max_workers=max(1, min(len(tasks), core.NCPU))) as ex:
        futs = {ex.submit(core.decide_task, unit, t, scratch, t['id'], tier): t for t in tasks}
        for f in cf.as_completed(futs):
            t = futs[f]
            r = f.result()
            r['unit'] = unit['name']
            r['slices'] = t.get('slices', [])
            r['properties'] = t.get('properties', [])
            results.append(r)
    results.sort(key=lambda r: r['task'])
    return recs, results, nfields


def summarize(r):
    ob = r['obligations']
    fails = [o for o in ob if o['status'] == 'FAILURE' and not o['canary']]
    und = [o for o in ob if o['status'] == 'UNDECIDED']
    can_bad = [o for o in ob if o['canary'] and o['status'] != 'FAILURE']
    ok = [o for o in ob if o['status'] == 'SUCCESS' and not o['canary']]
    return ok, fails, und, can_bad


def print_task(r, verbose=False):
    ok, fails, und, can_bad = summarize(r)
    ncan = len([o for o in r['obligations'] if o['canary']])
    log('  task %-28s %4d obligations: %d discharged, %d FAILED, %d undecided, canaries %d/%d fired  (%.1fs)%s'
        % (r['task'], len(r['obligations']) - ncan, len(ok), len(fails), len(und), ncan - len(can_bad), ncan,
           r['seconds'], '  [bounded: %s]' % r['bounded'] if r.get('bounded') else ''))
    for o in fails:
        log('     FAILED    %s  %s  [%s]' % (o['name'], o['description'][:110], o['loc']))
    for o in und[:10]:
        log('     UNDECIDED %s  %s' % (o['name'], o['description'][:110]))
    for o in can_bad:
        log('     CANARY-NOT-FIRED %s  %s (%s)' % (o['name'], o['description'][:90], o['status']))


def cmd_unit(args):
    name = args[0]
    sel = set(args[1:])
    unit = core.load_unit(name)
    scratch = mk_scratch()
    try:
        recs, results, nf = run_unit(unit, scratch, os.environ.get('VERIF_TIER', 'quick'),
                                     (lambda t: t['id'] in sel) if sel else None)
        for r in results:
            print_task(r)
        bad = 0
        for r in results:
            ok, fails, und, can_bad = summarize(r)
            bad += len(fails) + len(und) + len(can_bad)
        return 1 if bad else 0
    except Undecided as e:
        log('UNDECIDED: %s' % e)
        return 2
    finally:
        if not os.environ.get('CVS_KEEP'):
            shutil.rmtree(scratch, ignore_errors=True)
        else:
            log('scratch kept: ' + scratch)


def run_mutants(unit, tier='quick', sel=None):
    """Mutation self-test: each stored mutant of a sliced body should fail a named obligation."""
    out = []
    jobs = []
    for t in unit['tasks']:
        if sel and t['id'] not in sel:
            continue
        for mi, mu in enumerate(t.get('mutants', [])):
            sl = mu[2] if len(mu) > 2 else t['slices'][0]
            jobs.append((t, mi, sl, mu[0], mu[1], mu[3] if len(mu) > 3 else 0))

    def one(job):
        t, mi, sl, old, new, nth = job
        scratch = mk_scratch()
        try:
            recs, results, nf = run_unit(unit, scratch, tier, lambda x: x['id'] == t['id'], (sl, old, new, nth))
            ok, fails, und, can_bad = summarize(results[0])
            return {'task': t['id'], 'slice': sl, 'old': old, 'new': new, 'killed': bool(fails),
                    'by': [o['name'] for o in fails][:4], 'undecided': len(und)}
        except Undecided as e:
            return {'task': t['id'], 'slice': sl, 'old': old, 'new': new, 'killed': False, 'by': [],
                    'undecided': -1, 'note': str(e)[:300]}
        finally:
            shutil.rmtree(scratch, ignore_errors=True)

    with cf.ThreadPoolExecutor(max_workers=int(os.environ.get('CVS_MUTANT_JOBS', '3'))) as ex:
        for r in ex.map(one, jobs):
            out.append(r)
    return out


def cmd_mutants(args):
    unit = core.load_unit(args[0])
    res = run_mutants(unit, 'quick', set(args[1:]) or None)
    surv = 0
    und = 0
    for r in res:
        st = 'KILLED' if r['killed'] else ('UNDECIDED' if r.get('undecided') else 'SURVIVED')
        log('  %-9s %-24s %r -> %r  %s %s' % (st, r['task'], r['old'], r['new'], ','.join(r['by']), r.get('note', '')))
        surv += 0 if r['killed'] else 1
        und += 1 if st == 'UNDECIDED' else 0
    log('%d mutants, %d not killed (%d of them undecided: solver time-outs or build problems, not survivors)' % (len(res), surv, und))
    return 1 if surv else 0


# ---------------------------------------------------------------------------
# property-level check

def load_known():
    known, fixed = [], []
    if os.path.exists(KNOWN):
        for line in open(KNOWN):
            line = line.strip()
            if not line or line.startswith('#'):
                continue
            if line.startswith('fixed:'):
                fixed.append(line)
                continue
            m = re.match(r'known:\s+property=(\S+)\s+task=(\S+)\s+obligation=(\S+)\s+(.*)$', line)
            if m:
                known.append({'property': m.group(1), 'task': m.group(2), 'obligation': m.group(3),
                              'what': m.group(4)})
    return known, fixed


def tasks_for(prop):
    out = []
    for un in core.all_units():
        u = core.load_unit(un)
        ts = [t for t in u['tasks'] if prop in t.get('properties', [])]
        if ts:
            out.append((u, ts))
    return out


def cmd_check(args):
    prop = args[0]
    tier = os.environ.get('VERIF_TIER', 'quick')
    if '--tier' in args:
        tier = args[args.index('--tier') + 1]
    seed = int(os.environ.get('VERIF_SEED', '0') or 0)
    t0 = time.time()
    scratch = mk_scratch()
    ev_path = os.path.join(os.environ.get('CVS_EVIDENCE_DIR') or os.path.join(core.VERIF, 'evidence'), prop + '.json')
    os.makedirs(os.path.dirname(ev_path), exist_ok=True)
    try:
        os.unlink(ev_path)
    except OSError:
        pass
    known, fixed = load_known()
    rc = 0
    all_results = []
    all_recs = []
    undecided_msgs = []
    units = tasks_for(prop)
    if not units:
        log('no tasks registered for ' + prop)
        return 2

    def one_unit(ut):
        u, ts = ut
        ids = set(t['id'] for t in ts)
        sc = os.path.join(scratch, u['name'])
        try:
            return u, run_unit(u, sc, tier, lambda t: t['id'] in ids), None
        except Undecided as e:
            return u, None, str(e)

    with cf.ThreadPoolExecutor(max_workers=max(1, min(len(units), 8))) as ex:
        outs = list(ex.map(one_unit, units))
    violations = []
    known_hits = []
    for u, res, err in outs:
        if err:
            undecided_msgs.append('%s: %s' % (u['name'], err))
            log('UNDECIDED unit %s: %s' % (u['name'], err))
            continue
        recs, results, nf = res
        all_recs += [dict(r, unit=u['name']) for r in recs]
        for r in results:
            print_task(r)
            all_results.append(r)
            ok, fails, und, can_bad = summarize(r)
            for o in und:
                undecided_msgs.append('%s/%s: %s undecided' % (u['name'], r['task'], o['name']))
            for o in can_bad:
                undecided_msgs.append('%s/%s: vacuity canary %s did not fire' % (u['name'], r['task'], o['name']))
            for o in fails:
                k = [x for x in known if x['property'] == prop and x['task'] == r['task']
                     and x['obligation'] == o['name']]
                if k:
                    known_hits.append((r, o, k[0]))
                else:
                    violations.append((u, r, o))
    # replay / report
    from . import replay
    vio_lines = []
    # one report per task: the primary failed obligation (contract-class first) carries trace + native replay,
    # the task's other failed obligations are listed in the same replay file
    by_task = {}
    for u, r, o in violations:
        by_task.setdefault((u['name'], r['task']), []).append((u, r, o))
    for key in sorted(by_task):
        grp = by_task[key]
        pref = {'postcondition': 0, 'assertion': 1, 'precondition': 2, 'loop_invariant_step': 3, 'loop_invariant_base': 3}
        grp.sort(key=lambda x: (pref.get(x[2]['class'], 5), x[2]['name']))
        u, r, o = grp[0]
        path, suffix = replay.report_violation(prop, u, r, o, scratch, tier, others=[x[2] for x in grp[1:]])
        vio_lines.append('VIOLATION property=%s replay=%s%s' % (prop, path, suffix))
    for r, o, k in known_hits:
        print('KNOWN-FINDING: property=%s %s (task %s obligation %s)' % (prop, k['what'], r['task'], o['name']))
    # mutants (thorough tier): self-test of the contracts' strength; informational
    mut = []
    if tier == 'thorough':
        for u, ts in units:
            try:
                mut += run_mutants(u, 'quick', set(t['id'] for t in ts))
            except Exception as e:  # informational only
                log('mutant self-test problem: %s' % e)
    ev = build_evidence(prop, tier, seed, all_recs, all_results, undecided_msgs, violations, known_hits, mut,
                        time.time() - t0, units)
    json.dump(ev, open(ev_path, 'w'), indent=1)
    shutil.rmtree(scratch, ignore_errors=True)
    for l in vio_lines:
        print(l)
    if vio_lines:
        return 1
    if undecided_msgs:
        log('check undecided (%d problems) -- not a violation' % len(undecided_msgs))
        return 2
    nobl = ev['coverage']['obligations']
    print('OK property=%s tier=%s obligations=%d discharged=%d bounded_extra=%d wall=%.0fs'
          % (prop, tier, nobl, ev['coverage']['discharged'], ev['coverage']['bounded_obligations'], time.time() - t0))
    return 0


def build_evidence(prop, tier, seed, recs, results, undecided, violations, known_hits, mut, wall, units):
    proof_obl = proof_dis = bnd_obl = bnd_dis = 0
    samples = []
    functions = []
    solver_time = {}
    canaries = {'expected_fail': 0, 'fired': 0}
    assumed = []
    for u, ts in units:
        assumed += u.get('assumed', [])
    known_set = set((r['task'], o['name']) for r, o, k in known_hits)
    for r in results:
        b = bool(r.get('bounded'))
        n = d = 0
        for o in r['obligations']:
            if (r['task'], o['name']) in known_set:
                continue   # a listed known finding: reported under known_findings_hit, counted neither as obligation nor as discharged
            if o['canary']:
                canaries['expected_fail'] += 1
                canaries['fired'] += 1 if o['status'] == 'FAILURE' else 0
                continue
            n += 1
            d += 1 if o['status'] == 'SUCCESS' else 0
            solver_time[o['solver'] or 'none'] = solver_time.get(o['solver'] or 'none', 0.0) + o['seconds']
        if b:
            bnd_obl += n
            bnd_dis += d
        else:
            proof_obl += n
            proof_dis += d
        cc = [o for o in r['obligations'] if o['class'] in core.CONTRACT_CLASSES and not o['canary']]
        for o in cc[:6]:
            samples.append({'task': r['task'], 'obligation': o['name'], 'text': o['description'][:200],
                            'status': o['status'], 'solver': o['solver'], 'seconds': o['seconds']})
        functions.append({'unit': r['unit'], 'task': r['task'], 'harness': r['harness'], 'enforced_contract': r['enforce'],
                          'callees_replaced_by_contract': r['replace'], 'sliced_functions': r['slices'],
                          'loop_contracts': r['loops'], 'bounded': r.get('bounded') or None,
                          'obligations': n, 'discharged': d,
                          'contract_obligations': len(cc), 'wall_s': r['seconds']})
    trusted = [
        'CBMC 6.11 C++ front end + /verif/stubs (std::vector as pointer/length view with in-range assertions; scalar colvarvalue; cvm:: static interface) as the semantic model of g++/libstdc++ for the sliced bodies',
        'frame structs and extern "C" wrappers in specs/*/frame.cpp (member fields checked textually against the class definition; argument marshalling; ghost mirrors)',
        'rule R1: message-building argument of cvm::log/cvm::error dropped (checked free of side effects)',
        'callees replaced by their contracts are proved against their own bodies only where a task enforces them; others are listed under assumed',
        'machine integers are bit-vectors with overflow checks; floating point is IEEE-754 binary64 round-to-nearest (no x87, FMA, -ffast-math)',
        'termination only where a decreases clause is given',
        'allocation below max_size never fails (--no-malloc-may-fail; operator new throwing std::bad_alloc on exhaustion is outside the model)',
    ]
    level = 'proof'
    try:
        import importlib.util
        sp = importlib.util.spec_from_file_location('claims', os.path.join(core.VERIF, 'claims.py'))
        cl = importlib.util.module_from_spec(sp)
        sp.loader.exec_module(cl)
        level = cl.CLAIMS.get(prop, {}).get('category', 'proof')
    except Exception:
        pass
    if proof_obl == 0:
        level = 'other'   # nothing but bounded stand-ins: never reported as proof
    ev = {
        'property_id': prop, 'tier': tier, 'seed': seed, 'level': level,
        'coverage': {
            'obligations': proof_obl, 'discharged': proof_dis,
            'bounded_obligations': bnd_obl, 'bounded_discharged': bnd_dis,
            'checker_cmd': 'goto-cc -nostdinc (verbatim sliced bodies) ; goto-instrument --dfcc <h> --enforce-contract <k_fn> [--replace-call-with-contract ...] [--apply-loop-contracts] ; cbmc ' + ' '.join(core.CHECK_FLAGS) + ' --unwinding-assertions',
            'trusted_base': trusted,
            'functions': functions,
            'sliced_sources': recs,
            'samples': samples[:60],
            'canaries': canaries,
            'solver_seconds': {k: round(v, 1) for k, v in solver_time.items()},
            'undecided': undecided[:50],
            'known_findings_hit': [{'task': r['task'], 'obligation': o['name'], 'what': k['what']} for r, o, k in known_hits],
            'violations': [{'task': r['task'], 'obligation': o['name'], 'text': o['description'][:200]} for u, r, o in violations],
            'mutants': {'run': len(mut), 'killed': len([m for m in mut if m['killed']]),
                        'survivors': [m for m in mut if not m['killed']]} if mut else None,
            'explanation': 'obligations/discharged count only tasks whose loops are closed by loop contracts or that are loop-free (unbounded); tasks verified by unwinding under a stated bound are counted separately under bounded_*',
        },
        'assumptions': sorted(set(assumed)),
        'wall_s': round(wall, 1),
        'violations': len(violations),
    }
    return ev


def cmd_setup(args):
    import py_compile
    for f in os.listdir(os.path.join(core.VERIF, 'engine')):
        if f.endswith('.py'):
            py_compile.compile(os.path.join(core.VERIF, 'engine', f), doraise=True)
    for t in ['goto-cc', 'goto-instrument', 'cbmc', 'cvc5', 'g++']:
        if not shutil.which(t):
            log('missing tool: ' + t)
            return 1
    for un in core.all_units():
        core.load_unit(un)
    print('setup ok: %d units' % len(core.all_units()))
    return 0


def cmd_manifest(args):
    import importlib.util
    sp = importlib.util.spec_from_file_location('claims', os.path.join(core.VERIF, 'claims.py'))
    cl = importlib.util.module_from_spec(sp)
    sp.loader.exec_module(cl)
    props = [json.loads(l)['id'] for l in open(os.path.join(core.VERIF, 'properties.jsonl'))]
    hooks_path = os.path.join(core.VERIF, 'hooks.json')
    hooks = json.load(open(hooks_path)) if os.path.exists(hooks_path) else {
        'guard': 'COLVARS_VERIF', 'enable': 'replay drivers compile /repo/src with -DCOLVARS_VERIF (no hook commits yet)',
        'baseline_off_cmd': 'cmake --build /repo/_build && ctest --test-dir /repo/_build -j8 --timeout 900',
        'source_commits': [], 'add_only': True}
    m = {'version': 1, 'setup_cmd': './cv setup', 'hooks': hooks,
         'engines': [{'name': 'cv', 'path': '/verif/cv', 'serves_properties': sorted(cl.CLAIMS.keys()),
                      'kind_free_text': 'contract-based deductive verification: verbatim C++ bodies sliced from /repo/src each run, C-declared CBMC code contracts enforced per function with goto-instrument --dfcc, cbmc (SAT, cvc5, z3) discharging every obligation; native replay of counterexamples on the real code'}],
         'checks': [], 'not_applicable': []}
    for p in props:
        if p in cl.CLAIMS:
            c = cl.CLAIMS[p]
            m['checks'].append({
                'property_id': p, 'quick_cmd': './cv check %s --tier quick' % p,
                'thorough_cmd': './cv check %s --tier thorough' % p,
                'evidence_file': '/verif/evidence/%s.json' % p,
                'replay_cmd_template': './cv replay {path}', 'engine': 'cv',
                'level_claimed': {'category': c.get('category', 'proof'), 'text': c['text'], 'design_ref': c.get('design_ref', '')},
                'level_note': c['note'],
                'technique': c.get('technique', 'CBMC code contracts (requires/ensures/assigns, loop invariants) enforced with goto-instrument --dfcc on verbatim function bodies; bounded unwinding stand-ins labelled'),
            })
        else:
            m['not_applicable'].append({'property_id': p, 'reason': cl.NOT_APPLICABLE.get(p, cl.NA_DEFAULT)})
    json.dump(m, open(os.path.join(core.VERIF, 'MANIFEST.json'), 'w'), indent=1)
    print('MANIFEST.json: %d checks, %d not_applicable' % (len(m['checks']), len(m['not_applicable'])))
    return 0


def main(argv):
    if not argv:
        log(__doc__)
        return 2
    c = argv[0]
    import signal

    def on_term(sig, frm):
        core.kill_all()
        os._exit(2)
    signal.signal(signal.SIGTERM, on_term)
    signal.signal(signal.SIGINT, on_term)
    try:
        if c == 'unit':
            return cmd_unit(argv[1:])
        if c == 'mutants':
            return cmd_mutants(argv[1:])
        if c == 'check':
            return cmd_check(argv[1:])
        if c == 'manifest':
            return cmd_manifest(argv[1:])
        if c == 'setup':
            return cmd_setup(argv[1:])
        if c == 'replay':
            from . import replay
            return replay.cmd_replay(argv[1:])
    except Undecided as e:
        log('UNDECIDED: %s' % e)
        return 2
    except Exception:
        # a failure of the machinery itself is never a verdict about the code
        import traceback
        traceback.print_exc()
        core.kill_all()
        return 2
    log('unknown command ' + c)
    return 2

/* Contract for the width statements of colvarbias_meta::init (C05), symbolic reals, two variables.
   hillWidth h (in grid points):  sigma_i = (width_i * h) / 2  for every variable, and the width used for the boundary logic is h.
   gaussianSigmas s_i: the sigmas are the given ones, and the width in grid points used to decide which hills stay available for the analytic sum
   near the grid boundaries (and how far grids are expanded) must cover the widest hill: it is  (2 s_i) / width_i  of some variable i and not smaller
   than that of the other -- never left at 0, which would keep only the hills within one grid point of the boundary.
   Both keywords: error; neither: error. */
#ifndef METAWIDTH_CONTRACT_H
#define METAWIDTH_CONTRACT_H
#include <stddef.h>
#include "../common/term.h"
extern int g_node[12]; extern int e_l[8]; extern int g_give_sigmas, g_give_width; extern double g_sig[2], g_hw;
extern int g_throw, g_debug; extern unsigned g_errors, g_error_bits;
#define N(k) g_node[k]
static int t_op(int n) { return TVALID(n) ? g_top(n) : -1; }
static int t_a(int n) { return TVALID(n) ? g_ta(n) : -2; }
static int t_b(int n) { return TVALID(n) ? g_tb(n) : -2; }
static double t_v(int n) { return TVALID(n) ? g_tv[n] : 0.0; }
static _Bool is_leaf(int n, double x) { return P_LEAF(n, x); }
/* (width_i * h) / 2 */
static _Bool is_sigma_from_width(int n, int i) { int m = t_a(n); return t_op(n) == T_DIV && is_leaf(t_b(n), 2.0) && t_op(m) == T_MUL && t_a(m) == N(3 + i) && t_b(m) == N(2); }
/* (2 * s_i) / width_i */
static _Bool is_bins(int n, int i) { int m = t_a(n); return t_op(n) == T_DIV && t_b(n) == N(3 + i) && t_op(m) == T_MUL && is_leaf(t_a(m), 2.0) && t_b(m) == N(i); }
static _Bool exists_bins(int i) { return is_bins(5, i) || is_bins(6, i) || is_bins(7, i) || is_bins(8, i) || is_bins(9, i) || is_bins(10, i) || is_bins(11, i) || is_bins(12, i) || is_bins(13, i) || is_bins(14, i); }
extern int g_wb[2];   /* ghost witnesses: the nodes of the two candidate widths */
int k_init_widths(void)
__CPROVER_requires(g_tn == 0 && g_errors == 0 && (g_give_sigmas == 0 || g_give_sigmas == 1) && (g_give_width == 0 || g_give_width == 1)
                   && g_sig[0] > 0.0 && g_sig[0] <= 1.0e6 && g_sig[1] > 0.0 && g_sig[1] <= 1.0e6 && g_hw > 0.0 && g_hw <= 1.0e6)
__CPROVER_assigns(__CPROVER_object_whole(g_node), __CPROVER_object_whole(e_l), TERM_FRAME, g_errors, g_error_bits)
__CPROVER_ensures((g_give_sigmas && g_give_width) ==> g_errors >= 1)
__CPROVER_ensures((!g_give_sigmas && !g_give_width) ==> g_errors >= 1)
__CPROVER_ensures((g_give_sigmas != g_give_width) ==> (g_errors == 0 && e_l[2] == 2))
/* hillWidth */
__CPROVER_ensures((!g_give_sigmas && g_give_width) ==> (N(5) == N(2) && is_sigma_from_width(N(6), 0) && is_sigma_from_width(N(7), 1)))
/* gaussianSigmas */
__CPROVER_ensures((g_give_sigmas && !g_give_width) ==> (N(6) == N(0) && N(7) == N(1)))
/* the width in grid points of every variable's hills is computed */
__CPROVER_ensures((g_give_sigmas && !g_give_width) ==> (exists_bins(0) && exists_bins(1)))
/* (the numeric results of the symbolic divisions are unconstrained, hence the positivity guard: for real sigmas and widths both candidates are positive) */
__CPROVER_ensures((g_give_sigmas && !g_give_width && is_bins(g_wb[0], 0) && is_bins(g_wb[1], 1) && (t_v(g_wb[0]) > 0.0 || t_v(g_wb[1]) > 0.0)) ==> (N(5) == g_wb[0] || N(5) == g_wb[1]))
__CPROVER_ensures((g_give_sigmas && !g_give_width && is_bins(g_wb[0], 0) && is_bins(g_wb[1], 1)) ==> (t_v(N(5)) >= t_v(g_wb[0]) || t_v(N(5)) >= t_v(g_wb[1])))
__CPROVER_ensures((g_give_sigmas && !g_give_width && is_bins(g_wb[0], 0) && is_bins(g_wb[1], 1) && t_v(g_wb[0]) > 0.0 && t_v(g_wb[1]) > t_v(g_wb[0])) ==> N(5) == g_wb[1])
__CPROVER_ensures((g_give_sigmas && !g_give_width && is_bins(g_wb[0], 0) && is_bins(g_wb[1], 1) && t_v(g_wb[0]) > 0.0 && !(t_v(g_wb[1]) > t_v(g_wb[0]))) ==> N(5) == g_wb[0])
;
#endif

#include "contract.h"
TERM_GHOST_DEFS
int e_l[64]; int g_node[24]; int g_ncollect[2], g_nupd_ext; int g_fid[12]; double g_boltz, g_temp;
int g_throw, g_debug, g_vec_alloc; unsigned g_errors, g_error_bits; size_t g_alloc_bytes;
long long g_step_rel, g_step_abs; int g_sim_continuing, g_sim_running;
size_t nondet_size_t(void); int nondet_int(void); double nondet_double(void); long long nondet_ll(void); _Bool nondet_bool(void);
double k_floor(double x) { return x; } double k_sqrt(double x) { return x; } double k_pow(double x, double y) { return x; } double k_dt(void) { return 1.0; }
void cvs_set_fids(void);
static void init(void) { g_debug = 0; g_tn = 0; cvs_set_fids(); g_boltz = nondet_double(); g_temp = nondet_double(); g_step_rel = nondet_ll(); g_sim_running = nondet_int(); }
void h_collect_cvc_total_forces(void) { init(); _Bool *en, *cen; double *coeff; size_t n = nondet_size_t();
  k_collect_cvc_total_forces(en, n, cen, coeff);
  if (n == 2 && g_tn > 12) __CPROVER_assert(0, "canary: two-component total force with Jacobian term reachable"); }
void h_collect_cvc_Jacobians(void) { init(); _Bool *en, *cen; double *coeff; size_t n = nondet_size_t();
  k_collect_cvc_Jacobians(en, n, cen, coeff);
  if (n == 2 && g_tn > 12) __CPROVER_assert(0, "canary: two-component Jacobian force reachable"); }
void h_collect_cvc_gradients(void) { init(); _Bool *en, *cen; size_t n = nondet_size_t();
  k_collect_cvc_gradients(en, n, cen, nondet_size_t());
  if (g_ncollect[1] == 1) __CPROVER_assert(0, "canary: second component collected"); }
void h_end_of_step(void) { init(); _Bool *en; long long *pt; k_end_of_step(en, pt); __CPROVER_assert(0, "canary: end_of_step returns"); }
void h_update_forces_energy(void) { init(); _Bool *en; k_update_forces_energy(en, nondet_int());
  if (g_nupd_ext == 1) __CPROVER_assert(0, "canary: extended-Lagrangian branch reachable");
  if (g_tn > 12) __CPROVER_assert(0, "canary: full force sum reachable"); }

"""Engine: slice -> frame TU -> goto-cc -> dfcc contract instrumentation -> cbmc -> obligations."""
import concurrent.futures as cf
import importlib.util
import json
import os
import re
import resource
import shutil
import signal
import subprocess
import sys
import threading
import time

from . import slicer

VERIF = os.path.dirname(os.path.dirname(os.path.abspath(__file__)))
REPO = os.environ.get('CVS_REPO', '/repo')
STUBS = os.path.join(VERIF, 'stubs')
SPECS = os.environ.get('CVS_SPECS') or os.path.join(VERIF, 'specs')
SPECS_MAIN = os.path.join(VERIF, 'specs')
SMTWRAP = os.path.join(VERIF, 'engine', 'smtwrap.py')
NCPU = int(os.environ.get('CVS_JOBS', str(os.cpu_count() or 4)))
_sem = threading.BoundedSemaphore(NCPU)

CHECK_FLAGS = ['--bounds-check', '--pointer-check', '--pointer-overflow-check', '--signed-overflow-check',
               '--div-by-zero-check', '--no-malloc-may-fail']

CONTRACT_CLASSES = ('postcondition', 'precondition', 'assertion', 'loop_invariant_base', 'loop_invariant_step',
                    'loop_decreases', 'loop_assigns', 'loop_step_unwinding', 'assigns')
SPLIT_ALONE = ('postcondition', 'precondition', 'assertion', 'loop_invariant_base', 'loop_invariant_step', 'loop_decreases')


class Undecided(Exception):
    """Extraction break / tool failure / timeout: never a violation."""


def log(*a):
    print(*a, file=sys.stderr, flush=True)


def load_unit(name):
    d = os.path.join(SPECS, name)
    p = os.path.join(d, 'spec.py')
    spec = importlib.util.spec_from_file_location('spec_' + name, p)
    m = importlib.util.module_from_spec(spec)
    spec.loader.exec_module(m)
    u = dict(m.UNIT)
    u['name'] = name
    u['dir'] = d
    return u


def all_units():
    out = []
    for n in sorted(os.listdir(SPECS)):
        if os.path.exists(os.path.join(SPECS, n, 'spec.py')):
            out.append(n)
    return out


def _limits():
    os.setsid()
    gb = int(os.environ.get('CVS_MEM_GB', '12'))
    resource.setrlimit(resource.RLIMIT_AS, (gb << 30, gb << 30))


LIVE = set()


def kill_all():
    for pid in list(LIVE):
        try:
            os.killpg(pid, signal.SIGKILL)
        except OSError:
            pass


def run(cmd, timeout, cwd=None, env=None):
    """Run cmd in its own process group; returns (rc, stdout, seconds) or rc=None on timeout."""
    t0 = time.time()
    with _sem:
        e = dict(os.environ)
        if env:
            e.update(env)
        p = subprocess.Popen(cmd, cwd=cwd, env=e, stdout=subprocess.PIPE, stderr=subprocess.STDOUT,
                             preexec_fn=_limits)
        LIVE.add(p.pid)
        try:
            out, _ = p.communicate(timeout=timeout)
            LIVE.discard(p.pid)
            return p.returncode, out.decode(errors='replace'), time.time() - t0
        except subprocess.TimeoutExpired:
            try:
                os.killpg(p.pid, signal.SIGKILL)
            except OSError:
                pass
            try:
                p.communicate(timeout=10)
            except Exception:
                pass
            LIVE.discard(p.pid)
            return None, '', time.time() - t0


def tool(cmd, cwd, what, timeout=600):
    rc, out, dt = run(cmd, timeout, cwd=cwd)
    if rc != 0:
        raise Undecided('%s failed (rc=%s): %s\n%s' % (what, rc, ' '.join(cmd), out[-3000:]))
    return out


# ---------------------------------------------------------------------------
# slicing

def do_slices(unit, scratch, mutate=None):
    """Write <inc> files into scratch; returns list of slice records.  mutate = (slice_name, old, new)."""
    recs = []
    for s in unit['slices']:
        path = os.path.join(REPO, 'src', s['src'])
        try:
            text = open(path, errors='replace').read()
        except OSError as e:
            raise Undecided('cannot read %s: %s' % (path, e))
        try:
            body, l0, l1 = slicer.slice_function(text, s['sig'], s.get('which', 0))
            if s.get('from'):
                # statement-range slice: from the first match of 'from' (inclusive) to the first later match of 'until'
                # (exclusive), wrapped in braces; only that range of the function is under contract
                m0 = re.search(s['from'], body)
                if not m0:
                    raise slicer.ExtractionError('region start /%s/ not found in %s' % (s['from'], s['name']))
                m1 = re.search(s['until'], body[m0.start():])
                if not m1:
                    raise slicer.ExtractionError('region end /%s/ not found in %s' % (s['until'], s['name']))
                body = '{\n  ' + body[m0.start():m0.start() + m1.start()] + '\n  ' + s.get('until_close', '') + '\n}'
            elif s.get('until'):
                # region slice: the body is cut at the first line matching the marker (a comment in the real text)
                # and closed; everything after the marker is NOT under contract (stated in the unit's assumptions)
                m_ = re.search(s['until'], body)
                if not m_:
                    raise slicer.ExtractionError('region marker /%s/ not found in %s' % (s['until'], s['name']))
                body = body[:m_.start()] + '\n  ' + s.get('until_close', 'return COLVARS_OK;') + '\n}'
            raw_sha = slicer.sha(body)
            if mutate and mutate[0] == s['name']:
                if body.count(mutate[1]) < 1:
                    raise Undecided('mutant pattern not found in %s: %r' % (s['name'], mutate[1]))
                nth = mutate[3] if len(mutate) > 3 else 0
                parts = body.split(mutate[1])
                if len(parts) <= nth + 1:
                    raise Undecided('mutant occurrence %d not found in %s' % (nth, s['name']))
                body = mutate[1].join(parts[:nth + 1]) + mutate[2] + mutate[1].join(parts[nth + 1:])
            body2, log1 = slicer.apply_R1(body)
            body2, log5 = slicer.apply_R5(body2, s.get('R5'))
            if s.get('ret_real'):
                # R7: `return <numeric literal>;` in a function returning cvm::real gets the conversion written out
                # (the front end applies no converting constructor on return); same value, same type
                def _r7(m):
                    log5.append({'rule': 'R7', 'literal': m.group(1)})
                    return 'return cvm::real(%s);' % m.group(1)
                body2 = re.sub(r'return\s+(-?[0-9]+\.?[0-9]*(?:[eE][-+]?[0-9]+)?)\s*;', _r7, body2)
            if s.get('R8'):
                # R8: `= C ? A : B;` with class-type operands A, B (named in the spec) is written as a call to
                # cvs_select(C, A, B) (stub: if (c) return a; return b;) -- the front end cannot take a
                # conditional expression of class type
                ids = '|'.join(re.escape(x) for x in s['R8']) if s['R8'] is not True else None

                def _r8(m):
                    log5.append({'rule': 'R8', 'cond': m.group(1), 'a': m.group(2), 'b': m.group(3)})
                    return '= cvs_select(%s, %s, %s);' % (m.group(1), m.group(2), m.group(3))
                if ids:
                    body2 = re.sub(r'=\s*([^;?=]+?)\s*\?\s*(%s)\s*:\s*(%s)\s*;' % (ids, ids), _r8, body2)
                else:
                    body2 = re.sub(r'=\s*\(\s*([^;?=]+?)\s*\?\s*([^;:?]+?)\s*:\s*([^;?]+?)\s*\)\s*;', _r8, body2)
            for a, b in s.get('subst', []):
                # declared, logged token substitutions (R3/R6-style); must fire
                if a not in body2:
                    raise slicer.ExtractionError('declared substitution %r does not fire in %s' % (a, s['name']))
                body2 = body2.replace(a, b)
                log5.append({'rule': 'subst', 'from': a, 'to': b})
        except slicer.ExtractionError as e:
            raise Undecided('extraction break in %s (%s): %s' % (s['name'], s['src'], e))
        with open(os.path.join(scratch, s['inc']), 'w') as f:
            f.write(body2 + '\n')
        recs.append({'name': s['name'], 'file': 'src/' + s['src'], 'lines': [l0, l1], 'sha256': raw_sha,
                     'rules': log1 + log5})
    return recs


def check_fields(unit):
    """Every line of frame.cpp tagged //@real <file> must occur (whitespace-normalised) in that file."""
    fr = open(os.path.join(unit['dir'], unit.get('frame', 'frame.cpp'))).read()
    cache = {}
    n = 0
    for line in fr.splitlines():
        m = re.match(r'\s*(.*?)\s*//@real\s+(\S+)\s*$', line)
        if not m:
            continue
        decl, f = m.group(1), m.group(2)
        if f not in cache:
            try:
                cache[f] = slicer.norm_ws(open(os.path.join(REPO, 'src', f), errors='replace').read())
            except OSError as e:
                raise Undecided('cannot read %s: %s' % (f, e))
        d = slicer.norm_ws(decl)
        d = d.replace('mutable ', '')
        if d not in cache[f]:
            raise Undecided('extraction break: frame field "%s" not found in src/%s' % (d, f))
        n += 1
    return n


# ---------------------------------------------------------------------------
# build

def build_unit(unit, scratch):
    fr = os.path.join(unit['dir'], unit.get('frame', 'frame.cpp'))
    ct = os.path.join(unit['dir'], unit.get('contract', 'contract.c'))
    inc = ['-I', scratch, '-I', unit['dir'], '-I', SPECS, '-I', SPECS_MAIN]
    tool(['goto-cc', '-nostdinc', '-I', STUBS] + inc + unit.get('cxxflags', []) + ['-c', fr, '-o', 'frame.gb'],
         scratch, 'goto-cc (C++ frame TU, verbatim bodies)')
    tool(['goto-cc'] + inc + unit.get('cflags', []) + ['-c', ct, '-o', 'contract.gb'],
         scratch, 'goto-cc (C contract TU)')


def symbol_table(gb, scratch):
    out = tool(['goto-instrument', '--show-symbol-table', gb], scratch, 'show-symbol-table')
    return re.findall(r'^Symbol\.+: (.*)$', out, re.M)


def resolve_loops(task, syms, scratch, tag):
    """Build the loop-contracts JSON for goto-instrument from the task's loop specs."""
    loops = task.get('loops')
    if not loops:
        return None
    by_fn = {}
    for lp in loops:
        fn = lp['function']  # e.g. K_index_ok::body
        full = [s for s in syms if re.fullmatch(re.escape(fn) + r'\(.*?\)', s) or s == fn]
        if len(full) != 1:
            raise Undecided('loop contract: function symbol %s not unique/found: %s' % (fn, full))
        full = full[0]
        smap = []
        for cname, local in lp.get('locals', {}).items():
            # local: base name, optionally 'name#k' for the k-th symbol of that base name in this function
            base, _, ordn = local.partition('#')
            cands = [s for s in syms if s.startswith(full + '::') and s.split('::')[-1] == base
                     and '$tmp' not in s]
            cands.sort(key=lambda s: [int(x) if x.isdigit() else -1 for x in s[len(full) + 2:].split('::')[:-1]])
            if not cands:
                raise Undecided('loop contract: local %s not found in %s' % (base, full))
            k = int(ordn) if ordn else 0
            if not ordn and len(cands) > 1:
                raise Undecided('loop contract: local %s ambiguous in %s: %s' % (base, full, cands))
            if k >= len(cands):
                raise Undecided('loop contract: local %s#%d not found in %s' % (base, k, full))
            smap.append('%s,%s' % (cname, cands[k]))
        ent = {'loop_id': str(lp['loop_id']), 'assigns': lp.get('assigns', ''), 'invariants': lp['invariants'],
               'decreases': lp.get('decreases', '')}
        if not ent['decreases']:
            del ent['decreases']
        if smap:
            ent['symbol_map'] = ';'.join(smap)
        by_fn.setdefault(re.escape(full), []).append(ent)
    doc = {'sources': ['frame.cpp'], 'functions': [{k: v} for k, v in by_fn.items()], 'output': 'OUTPUT'}
    p = os.path.join(scratch, 'loops_%s.json' % tag)
    json.dump(doc, open(p, 'w'), indent=1)
    return p


def count_loops(gb, scratch, fn_prefixes):
    out = tool(['goto-instrument', '--show-loops', gb], scratch, 'show-loops')
    cnt = {}
    for m in re.finditer(r'^Loop (.*?)\.(\d+):', out, re.M):
        f = m.group(1)
        for p in fn_prefixes:
            if f.startswith(p):
                cnt[p] = cnt.get(p, 0) + 1
    return cnt


def instrument(unit, task, scratch, tag):
    h = task['harness']
    a = 'a_%s.gb' % tag
    b = 'b_%s.gb' % tag
    tool(['goto-cc', '--function', h, 'frame.gb', 'contract.gb', '-o', a], scratch, 'goto-cc link')
    syms = symbol_table(a, scratch)
    # loop-ordinal stability: the number of loops in each body under loop contract must be as declared
    if task.get('nloops'):
        cnt = count_loops(a, scratch, list(task['nloops'].keys()))
        for fn, n in task['nloops'].items():
            if cnt.get(fn, 0) != n:
                raise Undecided('extraction break: %s has %d loops, spec declares %d (loop ordinals would shift)'
                                % (fn, cnt.get(fn, 0), n))
    us = {}
    for fn, n in (task.get('unwindset') or {}).items():
        base, _, lid = fn.rpartition('.')
        full = [x for x in syms if re.fullmatch(re.escape(base) + r'\(.*?\)', x) or x == base]
        if len(full) != 1:
            raise Undecided('unwindset: function symbol %s not unique/found: %s' % (base, full))
        us['%s.%s' % (full[0], lid)] = n
    if task.get('unwind_body'):
        # every loop of the sliced bodies (frame members named body) gets the stated small unwinding bound
        out_l = tool(['goto-instrument', '--show-loops', a], scratch, 'show-loops')
        for m in re.finditer(r'^Loop (\S*::body\([^,\s]*\)\.\d+):', out_l, re.M):
            us.setdefault(m.group(1), task['unwind_body'])
    task['_unwindset'] = us
    cmd = ['goto-instrument', '--dfcc', h]
    if task.get('enforce'):
        cmd += ['--enforce-contract', task['enforce']]
    for r in task.get('replace', []):
        cmd += ['--replace-call-with-contract', r]
    lj = resolve_loops(task, syms, scratch, tag)
    if lj:
        cmd += ['--loop-contracts-file', lj, '--apply-loop-contracts']
    cmd += [a, b]
    out = tool(cmd, scratch, 'goto-instrument --dfcc')
    m = re.search(r'assigns clauses of at most (\d+) targets', out)
    task['_min_unwind'] = int(m.group(1)) + 2 if m else 0
    if re.search(r'syntax error|parse error', out, re.I):
        raise Undecided('goto-instrument reported a parse problem:\n' + out[-2000:])
    return b


# ---------------------------------------------------------------------------
# cbmc

def common_flags(task):
    fl = CHECK_FLAGS + ['--object-bits', str(task.get('object_bits', 8)), '--unwind', str(max(task.get('unwind', 12), task.get('_min_unwind', 0))),
                        '--unwinding-assertions']
    us = task.get('_unwindset')
    if us:
        fl += ['--unwindset', ','.join('%s:%d' % kv for kv in us.items())]
    return fl + task.get('cbmc_flags', [])


def cbmc_cmd(task, gb, props=None, trace=False, solver='sat'):
    cmd = ['cbmc', gb] + common_flags(task) + ['--json-ui']
    for p in props or []:
        cmd += ['--property', p]
    if trace:
        cmd += ['--trace']
    if solver == 'kissat':
        cmd += ['--external-sat-solver', 'kissat']
    elif solver == 'cadical':
        cmd += ['--sat-solver', 'cadical']
    if solver in ('cvc5', 'z3', 'z3new'):
        cmd += ['--cvc5', '--external-smt2-solver', SMTWRAP]
    return cmd


def parse_cbmc(out):
    """Returns (results list or None, messages)."""
    try:
        i = out.index('[')
        doc = json.loads(out[i:])
    except (ValueError, json.JSONDecodeError):
        return None, out[-2000:]
    res = None
    msgs = []
    for o in doc:
        if isinstance(o, dict):
            if 'result' in o:
                res = o['result']
            if o.get('messageType') in ('ERROR', 'WARNING'):
                msgs.append(o.get('messageText', ''))
    return res, '\n'.join(msgs)


def list_props(task, gb, scratch):
    rc, out, dt = run(['cbmc', gb] + common_flags(task) + ['--show-properties', '--json-ui'], 600, cwd=scratch)
    if rc is None:
        raise Undecided('cbmc --show-properties timed out')
    try:
        doc = json.loads(out[out.index('['):])
    except Exception:
        raise Undecided('cbmc --show-properties unparsable: ' + out[-1500:])
    props = []
    for o in doc:
        if isinstance(o, dict) and 'properties' in o:
            for p in o['properties']:
                props.append({'name': p['name'], 'description': p.get('description', ''),
                              'class': p.get('class', ''),
                              'file': p.get('sourceLocation', {}).get('file', ''),
                              'line': p.get('sourceLocation', {}).get('line', '')})
    return props


def prop_class(name):
    m = re.match(r'.*\.([A-Za-z_\-]+)\.\d+$', name)
    return m.group(1) if m else 'other'


def is_contract_class(name):
    return prop_class(name) in CONTRACT_CLASSES


def is_canary(p):
    return p['description'].startswith('canary')


def run_props(task, gb, scratch, props, timeout, solver, trace=False, env=None):
    cmd = cbmc_cmd(task, gb, props, trace, solver)
    e = {'TMPDIR': scratch, 'CVS_SMT_SOLVER': {'cvc5': 'cvc5', 'z3': 'z3', 'z3new': 'z3-new'}.get(solver, 'cvc5')}
    if env:
        e.update(env)
    rc, out, dt = run(cmd, timeout, cwd=scratch, env=e)
    if rc is None:
        return None, 'timeout', dt
    res, msgs = parse_cbmc(out)
    if res is None:
        if 'too many addressed objects' in out and task.get('object_bits', 8) < 14:
            task['object_bits'] = task.get('object_bits', 8) + 2
            return run_props(task, gb, scratch, props, timeout, solver, trace, env)
        return None, 'unparsable/err: ' + msgs[-500:], dt
    return res, msgs, dt


def decide_task(unit, task, scratch, tag, tier, want_trace=True):
    """Returns dict with per-obligation status for one proof task."""
    t0 = time.time()
    gb = instrument(unit, task, scratch, tag)
    props = list_props(task, gb, scratch)
    if not props:
        raise Undecided('task %s generated zero obligations' % tag)
    names = [p['name'] for p in props]
    nameset = set(names)
    status = {}
    solver_of = {}
    secs = {}
    T = task.get('timeout', 240 if tier == 'quick' else 900)
    if os.environ.get('CVS_TIMEOUT'):
        T = int(os.environ['CVS_TIMEOUT'])
    fp = task.get('fp', False)
    pool = cf.ThreadPoolExecutor(max_workers=NCPU)

    extra = {}

    def merge(res, solver, dt):
        for r in res:
            n = r['property']
            if n not in nameset and n not in extra:
                # obligations generated during symbolic execution (unwinding assertions): not listed beforehand
                loc = r.get('sourceLocation', {})
                extra[n] = {'name': n, 'description': r.get('description', ''), 'class': '',
                            'file': loc.get('file', ''), 'line': loc.get('line', '')}
            st = r['status']
            if st in ('SUCCESS', 'FAILURE') and status.get(n) not in ('SUCCESS', 'FAILURE'):
                status[n] = st
                solver_of[n] = solver
                secs[n] = round(dt, 2)
            elif n not in status:
                status[n] = st

    solvers = task.get('solvers') or (['sat', 'cvc5'] if fp else ['sat'])
    pending = names
    if not task.get('split_only'):
        T1 = T if len(solvers) == 1 else min(T, task.get('batch_timeout', 120))
        futs = {pool.submit(run_props, task, gb, scratch, None, T1, sv): sv for sv in solvers}
        for f in cf.as_completed(futs):
            res, msg, dt = f.result()
            if res is not None:
                merge(res, futs[f], dt)
        pending = [n for n in names if status.get(n) not in ('SUCCESS', 'FAILURE')]
    if pending:
        # split: contract-class obligations one per run, safety obligations in chunks
        cc = [n for n in pending if prop_class(n) in SPLIT_ALONE and not n.startswith('__CPROVER')]
        sf = [n for n in pending if n not in set(cc)]
        if os.environ.get('CVS_NOSPLIT') or len(cc) > 40:
            cc, sf = [], []
        jobs = []
        for n in cc:
            for sv in solvers:
                jobs.append(([n], sv))
        k = max(1, min(8, len(sf)))
        for i in range(k):
            ch = sf[i::k]
            if ch:
                for sv in solvers:
                    jobs.append((ch, sv))
        futs = {pool.submit(run_props, task, gb, scratch, j[0], T, j[1]): j for j in jobs}
        for f in cf.as_completed(futs):
            j = futs[f]
            res, msg, dt = f.result()
            if res is not None:
                merge([r for r in res if r['property'] in j[0] or r['property'] not in nameset], j[1], dt)
    pool.shutdown(wait=True)
    obl = []
    for p in props + list(extra.values()):
        n = p['name']
        st = status.get(n, 'UNDECIDED')
        if st not in ('SUCCESS', 'FAILURE'):
            st = 'UNDECIDED'
        obl.append({'name': n, 'description': p['description'], 'status': st, 'class': prop_class(n),
                    'canary': is_canary(p), 'solver': solver_of.get(n, ''), 'seconds': secs.get(n, 0.0),
                    'loc': '%s:%s' % (os.path.basename(p['file']), p['line'])})
    return {'task': tag, 'harness': task['harness'], 'enforce': task.get('enforce'),
            'replace': task.get('replace', []), 'loops': len(task.get('loops') or []),
            'bounded': task.get('bounded'), 'obligations': obl, 'gb': gb, 'seconds': round(time.time() - t0, 2)}


def get_trace(task, gb, scratch, prop, timeout=300):
    res, msg, dt = run_props(task, gb, scratch, [prop], timeout, 'sat', trace=True)
    if res is None:
        return None
    for r in res:
        if r['property'] == prop and r['status'] == 'FAILURE':
            return r.get('trace')
    return None


def trace_values(trace):
    """Values of named lhs in the trace.  Echo globals (e_*) take their first assignment made by wrapper code
    (a callee replaced by its contract havocs them again later); everything else takes the last assignment."""
    vals = {}
    fixed = set()
    for st in trace or []:
        if st.get('stepType') != 'assignment':
            continue
        lhs = st.get('lhs')
        v = st.get('value', {})
        if lhs is None or st.get('hidden'):
            continue
        fn = st.get('sourceLocation', {}).get('function', '')
        d = v.get('data')
        if d is None and 'elements' in v:
            continue
        if isinstance(d, str):
            m = re.search(r'/\*\s*(-?\d+)', d)
            if m:
                d = m.group(1)
        if isinstance(d, str) and len(d) >= 3 and d[0] == "'" and d[-1] == "'":
            try:   # character literal as printed by cbmc -> its code
                import ast
                d = str(ord(ast.literal_eval(d)))
            except Exception:
                pass
        if lhs.startswith('e_'):
            if fn.startswith('contract::') or fn.startswith('__CPROVER') or fn == '':
                if lhs not in vals:
                    vals[lhs] = d if d is not None else v.get('name')
                continue
            if lhs in fixed:
                continue
            fixed.add(lhs)
        vals[lhs] = d if d is not None else v.get('name')
        if 'binary' in v and v.get('name') in ('float', 'double'):
            vals[lhs + '#bin'] = v['binary']
    return vals

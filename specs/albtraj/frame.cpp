// Frame TU for colvarbias_alb::write_traj_label / write_traj (C19: a data line carries exactly the columns its label line announces, in order).
// Bodies sliced verbatim from src/colvarbias_alb.cpp; the stream records one token per column.
#define CVS_SMAX 6
#include <vector>
#include <string>
#include <cvm_stub.h>
#include <cvs_echo.h>
extern "C" { extern int e_i[8]; }
extern "C" void k_tok(int line, int kind);   // line 0 = label, 1 = data; kind 1 energy, 2 coupling constant, 3 gradient, 4 centre
struct manip_t { int dummy; };
struct wrapped_t { int dummy; };
struct tagged_real { int kind; };
struct cvv_t { int kind; size_t output_width(int w) const { return (size_t) w; } };
static double cvs_real_of(cvv_t const &) { return 2.0; }
static double fmax(double a, double b) { return a > b ? a : b; }
extern "C" { extern int g_line; }
static int lit_kind(char const *s) {  // " E_" " ForceConst_" "Grad_" " x0_"; " " and "" separators are not columns
  if (s[0] == ' ' && s[1] == 'E' && s[2] == '_') return 1;
  if (s[0] == ' ' && s[1] == 'F') return 2;
  if (s[0] == 'G' || (s[0] == ' ' && s[1] == 'G')) return 3;
  if (s[0] == ' ' && s[1] == 'x' && s[2] == '0') return 4;
  return 0; }
namespace std {
  struct ostream {
    ostream &operator<<(char const *s) { int k = lit_kind(s); if (k) k_tok(g_line, k); return *this; }
    ostream &operator<<(size_t) { return *this; }                       // the index printed after ForceConst_
    ostream &operator<<(wrapped_t const &) { return *this; }
    ostream &operator<<(manip_t const &) { return *this; }
    ostream &operator<<(tagged_real const &v) { k_tok(g_line, v.kind); return *this; }
    ostream &operator<<(cvv_t const &v) { k_tok(g_line, v.kind); return *this; }
    ostream &operator<<(double) { k_tok(g_line, 3); return *this; }       // the only plain number written is the gradient estimate
  };
  inline manip_t setprecision(int) { manip_t m; return m; }
  inline manip_t setw(int) { manip_t m; return m; }
}
struct cvm_fmt : colvarmodule { static const int en_width = 21, en_prec = 14, cv_width = 21, cv_prec = 14; static wrapped_t wrap_string(std::string const &, size_t) { wrapped_t w; return w; } typedef double real; };
#undef cvm
#define cvm cvm_fmt
struct cv_stub { std::string name; cvv_t v_; cvv_t value() const { return v_; } };
struct K_alb {
  std::string name;
  bool b_output_energy;                        //@real colvarbias.h
  bool b_output_centers;                       //@real colvarbias_alb.h
  bool b_output_grad;                          //@real colvarbias_alb.h
  bool b_output_coupling;                      //@real colvarbias_alb.h
  std::vector<tagged_real> current_coupling;   // real: std::vector<cvm::real> current_coupling;
  std::vector<double> means, ssd;              // real: std::vector<cvm::real> means; ... ssd;
  std::vector<cv_stub *> colvars;              // real: std::vector<colvar *> colvars;
  std::vector<cvv_t> colvar_centers;           // real: std::vector<colvarvalue> colvar_centers;
  tagged_real bias_energy;                     // real: cvm::real bias_energy;
  int update_calls;                            //@real colvarbias_alb.h
  size_t num_variables() const { return colvars.n_; }
  std::ostream &label(std::ostream &os)
#include "alb_label.body.inc"
  std::ostream &traj(std::ostream &os)
#include "alb_traj.body.inc"
};
extern "C" void k_alb_columns(bool oe, bool oc, bool og, bool ok) {
  K_alb f; cv_stub cv; cv_stub *cvp[1]; cvp[0] = &cv; cv.v_.kind = 0; tagged_real cc[1]; cc[0].kind = 2; double mv[1], sv[1]; mv[0] = 1.0; sv[0] = 1.0; cvv_t cen[1]; cen[0].kind = 4;
  CVS_VIEW(f.colvars, cvp, 1); CVS_VIEW(f.current_coupling, cc, 1); CVS_VIEW(f.means, mv, 1); CVS_VIEW(f.ssd, sv, 1); CVS_VIEW(f.colvar_centers, cen, 1); f.bias_energy.kind = 1; f.update_calls = 3;
  f.b_output_energy = oe; f.b_output_centers = oc; f.b_output_grad = og; f.b_output_coupling = ok; e_i[0] = oe; e_i[1] = oc; e_i[2] = og; e_i[3] = ok;
  std::ostream os; g_line = 0; f.label(os); g_line = 1; f.traj(os);
}

/* Assumed interface contracts of class colvar / colvarvalue as seen from biases (tags 0..2 identify variables).
   Queries return ghost-controlled values; metric and force entry points log their calls and operands so that
   callers' contracts can state which operation was applied to which operands, how often. */
#ifndef COLVAR_CONTRACT_H
#define COLVAR_CONTRACT_H
#include <stddef.h>
#define NCV 3
#define NLOG 6
#define FIN(x) ((x) >= -1.0e100 && (x) <= 1.0e100)
extern double g_cv_value[NCV], g_cv_actual[NCV]; extern int g_cv_periodic[NCV], g_cv_feat_other;
#define F_CV_PERIODIC_ID g_f_cv_periodic   /* set by the frame from the sliced enum */
extern int g_f_cv_periodic;

/* uninterpreted, logged product */
#define NMUL 8
extern int g_nmul; extern double g_mul_a[NMUL], g_mul_b[NMUL], g_mul_r[NMUL];
double k_mul(double a, double b)
__CPROVER_requires(0 <= g_nmul && g_nmul < NMUL)
__CPROVER_assigns(g_nmul, g_mul_a[g_nmul], g_mul_b[g_nmul], g_mul_r[g_nmul])
__CPROVER_ensures(g_nmul == __CPROVER_old(g_nmul) + 1 && g_mul_a[g_nmul - 1] == a && g_mul_b[g_nmul - 1] == b && g_mul_r[g_nmul - 1] == __CPROVER_return_value)
__CPROVER_ensures(FIN(__CPROVER_return_value))
;
#define IS_MUL(m, r, a, b) (g_mul_a[m] == (a) && g_mul_b[m] == (b) && g_mul_r[m] == (r))

/* force entry points of a variable */
extern int g_ncalls_fb, g_ncalls_fba, g_seen_fb[NCV], g_seen_fba[NCV]; extern double g_val_fb[NCV], g_val_fba[NCV];
void k_add_bias_force(int cv_tag, double f)
__CPROVER_requires(0 <= cv_tag && cv_tag < NCV)
__CPROVER_assigns(g_ncalls_fb, g_seen_fb[cv_tag], g_val_fb[cv_tag])
__CPROVER_ensures(g_ncalls_fb == __CPROVER_old(g_ncalls_fb) + 1 && g_seen_fb[cv_tag] == __CPROVER_old(g_seen_fb[cv_tag]) + 1 && g_val_fb[cv_tag] == f)
;
void k_add_bias_force_actual_value(int cv_tag, double f)
__CPROVER_requires(0 <= cv_tag && cv_tag < NCV)
__CPROVER_assigns(g_ncalls_fba, g_seen_fba[cv_tag], g_val_fba[cv_tag])
__CPROVER_ensures(g_ncalls_fba == __CPROVER_old(g_ncalls_fba) + 1 && g_seen_fba[cv_tag] == __CPROVER_old(g_seen_fba[cv_tag]) + 1 && g_val_fba[cv_tag] == f)
;

/* value queries */
double k_cv_value(int cv_tag) __CPROVER_requires(0 <= cv_tag && cv_tag < NCV) __CPROVER_assigns() __CPROVER_ensures(__CPROVER_return_value == g_cv_value[cv_tag]);
double k_cv_actual_value(int cv_tag) __CPROVER_requires(0 <= cv_tag && cv_tag < NCV) __CPROVER_assigns() __CPROVER_ensures(__CPROVER_return_value == g_cv_actual[cv_tag]);
int k_cv_is_enabled(int cv_tag, int f) __CPROVER_requires(0 <= cv_tag && cv_tag < NCV) __CPROVER_assigns()
  __CPROVER_ensures(__CPROVER_return_value == (f == g_f_cv_periodic ? g_cv_periodic[cv_tag] : g_cv_feat_other));

/* the variable's own metric (minimum-image for periodic variables): logged calls */
extern int g_nd2, g_nlg, g_nwrap, g_ncvv;
extern int g_d2_tag[NLOG], g_lg_tag[NLOG]; extern double g_d2_x1[NLOG], g_d2_x2[NLOG], g_d2_r[NLOG], g_lg_x1[NLOG], g_lg_x2[NLOG], g_lg_r[NLOG];
double k_cv_dist2(int cv_tag, double x1, double x2)
__CPROVER_requires(0 <= cv_tag && cv_tag < NCV && 0 <= g_nd2 && g_nd2 < NLOG)
__CPROVER_assigns(g_nd2, g_d2_tag[g_nd2], g_d2_x1[g_nd2], g_d2_x2[g_nd2], g_d2_r[g_nd2])
__CPROVER_ensures(g_nd2 == __CPROVER_old(g_nd2) + 1 && g_d2_tag[g_nd2 - 1] == cv_tag && g_d2_x1[g_nd2 - 1] == x1 && g_d2_x2[g_nd2 - 1] == x2
                  && g_d2_r[g_nd2 - 1] == __CPROVER_return_value && __CPROVER_return_value >= 0.0 && FIN(__CPROVER_return_value))
;
double k_cv_dist2_lgrad(int cv_tag, double x1, double x2)
__CPROVER_requires(0 <= cv_tag && cv_tag < NCV && 0 <= g_nlg && g_nlg < NLOG)
__CPROVER_assigns(g_nlg, g_lg_tag[g_nlg], g_lg_x1[g_nlg], g_lg_x2[g_nlg], g_lg_r[g_nlg])
__CPROVER_ensures(g_nlg == __CPROVER_old(g_nlg) + 1 && g_lg_tag[g_nlg - 1] == cv_tag && g_lg_x1[g_nlg - 1] == x1 && g_lg_x2[g_nlg - 1] == x2
                  && g_lg_r[g_nlg - 1] == __CPROVER_return_value && FIN(__CPROVER_return_value))
;
extern int g_wrap_tag; extern double g_wrap_x, g_wrap_r;
double k_cv_wrap(int cv_tag, double x)
__CPROVER_requires(0 <= cv_tag && cv_tag < NCV)
__CPROVER_assigns(g_nwrap, g_wrap_tag, g_wrap_x, g_wrap_r)
__CPROVER_ensures(g_nwrap == __CPROVER_old(g_nwrap) + 1 && g_wrap_tag == cv_tag && g_wrap_x == x && g_wrap_r == __CPROVER_return_value && FIN(__CPROVER_return_value))
;
/* colvarvalue's type-based metric: a different function from the variable's metric (not periodic-aware) */
double k_cvv_dist2(double x1, double x2)
__CPROVER_assigns(g_ncvv) __CPROVER_ensures(g_ncvv == __CPROVER_old(g_ncvv) + 1 && __CPROVER_return_value >= 0.0 && FIN(__CPROVER_return_value));
extern double g_cvvg_x1, g_cvvg_x2, g_cvvg_r; extern int g_ncvvg;
double k_cvv_dist2_grad(double x1, double x2)
__CPROVER_assigns(g_ncvvg, g_cvvg_x1, g_cvvg_x2, g_cvvg_r)
__CPROVER_ensures(g_ncvvg == __CPROVER_old(g_ncvvg) + 1 && g_cvvg_x1 == x1 && g_cvvg_x2 == x2 && g_cvvg_r == __CPROVER_return_value && FIN(__CPROVER_return_value));

#define COLVAR_GHOST_DEFS \
  double g_cv_value[NCV], g_cv_actual[NCV]; int g_cv_periodic[NCV], g_cv_feat_other, g_f_cv_periodic; \
  int g_nmul; double g_mul_a[NMUL], g_mul_b[NMUL], g_mul_r[NMUL]; \
  int g_ncalls_fb, g_ncalls_fba, g_seen_fb[NCV], g_seen_fba[NCV]; double g_val_fb[NCV], g_val_fba[NCV]; \
  int g_nd2, g_nlg, g_nwrap, g_ncvv, g_ncvvg; int g_d2_tag[NLOG], g_lg_tag[NLOG]; \
  double g_d2_x1[NLOG], g_d2_x2[NLOG], g_d2_r[NLOG], g_lg_x1[NLOG], g_lg_x2[NLOG], g_lg_r[NLOG]; \
  int g_wrap_tag; double g_wrap_x, g_wrap_r, g_cvvg_x1, g_cvvg_x2, g_cvvg_r;
#define COLVAR_LOG_FRAME g_nmul, __CPROVER_object_whole(g_mul_a), __CPROVER_object_whole(g_mul_b), __CPROVER_object_whole(g_mul_r), \
  g_nd2, g_nlg, g_nwrap, g_ncvv, g_ncvvg, __CPROVER_object_whole(g_d2_tag), __CPROVER_object_whole(g_lg_tag), \
  __CPROVER_object_whole(g_d2_x1), __CPROVER_object_whole(g_d2_x2), __CPROVER_object_whole(g_d2_r), \
  __CPROVER_object_whole(g_lg_x1), __CPROVER_object_whole(g_lg_x2), __CPROVER_object_whole(g_lg_r), \
  g_wrap_tag, g_wrap_x, g_wrap_r, g_cvvg_x1, g_cvvg_x2, g_cvvg_r
#define COLVAR_LOG_EMPTY (g_nmul == 0 && g_nd2 == 0 && g_nlg == 0 && g_nwrap == 0 && g_ncvv == 0 && g_ncvvg == 0)
#define COLVAR_CALLEES 'k_mul', 'k_add_bias_force', 'k_add_bias_force_actual_value', 'k_cv_value', 'k_cv_actual_value', 'k_cv_is_enabled', \
  'k_cv_dist2', 'k_cv_dist2_lgrad', 'k_cv_wrap', 'k_cvv_dist2', 'k_cvv_dist2_grad'
#endif

/* Contract for integrate_potential::update_div_neighbors (C16): after a sample lands in bin ix0 the divergence is
   recomputed at exactly the 2^nd grid points wrap(ix0 + delta), delta in {0,1}^nd, each once (nd = 2, 3; nothing for nd = 1). */
#ifndef GRID_DIV_CONTRACT_H
#define GRID_DIV_CONTRACT_H
#include "../grid_index/contract.h"
extern int e_i[16];
extern int g_nv, g_vis[24];
void k_update_div_local(int *ix, size_t n)
__CPROVER_requires(n >= 2 && n <= 3 && __CPROVER_r_ok(ix, n * sizeof(int)) && 0 <= g_nv && g_nv < 8)
__CPROVER_assigns(g_nv, g_vis[3 * g_nv], g_vis[3 * g_nv + 1], g_vis[3 * g_nv + 2])
__CPROVER_ensures(g_nv == __CPROVER_old(g_nv) + 1 && g_vis[3 * (g_nv - 1)] == ix[0] && g_vis[3 * (g_nv - 1) + 1] == ix[1] && (n < 3 || g_vis[3 * (g_nv - 1) + 2] == ix[2]))
;
#define VIS(m, d) g_vis[3 * (m) + (d)]
#define MATCH(m, d, delta) (per[d] ? ((VIS(m, d) == ix0[d] + (delta) || VIS(m, d) == ix0[d] + (delta) - nx[d]) && 0 <= VIS(m, d) && VIS(m, d) < nx[d]) : (VIS(m, d) == ix0[d] + (delta)))
#define UDN_PRE(d) (nx[d] >= 2 && nx[d] <= NXMAX && 0 <= ix0[d] && ix0[d] < nx[d] && (per[d] || ix0[d] + 1 < nx[d]))
int k_update_div_neighbors(int *ix0, int *nx, _Bool *per, size_t nd)
__CPROVER_requires(nd >= 1 && nd <= 3 && __CPROVER_is_fresh(ix0, 3 * sizeof(int)) && __CPROVER_is_fresh(nx, 3 * sizeof(int)) && __CPROVER_is_fresh(per, 3 * sizeof(_Bool)))
__CPROVER_requires(ALL3(nd, UDN_PRE) && g_nv == 0)
__CPROVER_assigns(__CPROVER_object_whole(e_i), g_nv, __CPROVER_object_whole(g_vis), g_errors, g_error_bits, GI_GHOSTS)
__CPROVER_ensures(g_errors == __CPROVER_old(g_errors))
__CPROVER_ensures(nd == 1 ==> g_nv == 0)
__CPROVER_ensures(nd == 2 ==> (g_nv == 4 && MATCH(0, 0, 0) && MATCH(0, 1, 0) && MATCH(1, 0, 1) && MATCH(1, 1, 0) && MATCH(2, 0, 1) && MATCH(2, 1, 1) && MATCH(3, 0, 0) && MATCH(3, 1, 1)))
__CPROVER_ensures(nd == 3 ==> (g_nv == 8
  && MATCH(0, 0, 0) && MATCH(0, 1, 0) && MATCH(0, 2, 0) && MATCH(1, 0, 0) && MATCH(1, 1, 0) && MATCH(1, 2, 1)
  && MATCH(2, 0, 0) && MATCH(2, 1, 1) && MATCH(2, 2, 0) && MATCH(3, 0, 0) && MATCH(3, 1, 1) && MATCH(3, 2, 1)
  && MATCH(4, 0, 1) && MATCH(4, 1, 0) && MATCH(4, 2, 0) && MATCH(5, 0, 1) && MATCH(5, 1, 0) && MATCH(5, 2, 1)
  && MATCH(6, 0, 1) && MATCH(6, 1, 1) && MATCH(6, 2, 0) && MATCH(7, 0, 1) && MATCH(7, 1, 1) && MATCH(7, 2, 1)))
;
#endif

// Native replay for the grid index functions: real colvar_grid<double> from /repo's working tree.
#include "colvargrid.h"
#include "colvarproxy.h"
#include "replay_util.h"

static bool inrange(std::vector<int> const &ix, std::vector<int> const &nx, size_t k) { return ix[k] >= 0 && ix[k] < nx[k]; }

int main(int argc, char **argv) {
  if (argc < 3) return 2;
  std::string task(argv[1]); replay_vals v; if (!v.load(argv[2])) return 2;
  colvarproxy *proxy = new colvarproxy(); proxy->colvars = new colvarmodule(proxy);
  size_t nd = v.u("e_nd"); if (nd > 4) { std::cout << "REPLAY: counterexample has nd > 4, not echoed\n"; return 3; }
  colvar_grid<double> g;
  g.nd = nd; g.nx.resize(nd); g.nxc.assign(nd, 1); g.periodic.resize(nd);
  std::vector<int> ix(nd);
  for (size_t k = 0; k < nd; k++) { ix[k] = v.arr_i("e_ix", k); g.nx[k] = v.arr_i("e_nx", k); g.periodic[k] = v.arr_i("e_per", k) != 0; }
  std::vector<int> const old = ix;
  std::ostringstream in; in << "nd=" << nd << " ix=" << cvm::to_str(old) << " nx=" << cvm::to_str(g.nx);
  if (task == "index_ok") {
    bool r = g.index_ok(ix); bool all = true; for (size_t k = 0; k < nd; k++) all = all && inrange(ix, g.nx, k);
    if (r != all) REPLAY_FAIL(in.str() << ": index_ok returned " << r << " but in-range is " << all);
    REPLAY_PASS(in.str());
  }
  if (task == "incr") {
    // reference: lexicographic successor, last dimension fastest
    std::vector<int> ref = old; int i = int(nd) - 1;
    while (i >= 0) { ref[i]++; if (ref[i] >= g.nx[i] && i > 0) { ref[i] = 0; i--; } else break; }
    g.incr(ix);
    if (ix != ref) REPLAY_FAIL(in.str() << ": incr gave " << cvm::to_str(ix) << ", successor is " << cvm::to_str(ref));
    REPLAY_PASS(in.str());
  }
  if (task == "wrap" || task == "wrap_detect_edge") {
    bool edge_ref = false; std::vector<int> ref = old;
    for (size_t k = 0; k < nd; k++) {
      if (g.periodic[k]) { long long x = old[k]; long long n = g.nx[k]; ref[k] = int(((x % n) + n) % n); }
      else if (!inrange(old, g.nx, k)) edge_ref = true;
    }
    in << " periodic=" << cvm::to_str(std::vector<int>(g.periodic.begin(), g.periodic.end()));
    if (task == "wrap_detect_edge") {
      bool e = g.wrap_detect_edge(ix);
      if (ix != ref || e != edge_ref) REPLAY_FAIL(in.str() << ": got " << cvm::to_str(ix) << " edge=" << e << ", expected " << cvm::to_str(ref) << " edge=" << edge_ref);
    } else {
      cvm::clear_error(); g.wrap(ix); bool err = cvm::get_error() != 0; cvm::clear_error();
      if (err != edge_ref) REPLAY_FAIL(in.str() << ": error raised=" << err << ", illegal non-periodic index present=" << edge_ref);
      if (!err && ix != ref) REPLAY_FAIL(in.str() << ": got " << cvm::to_str(ix) << ", expected " << cvm::to_str(ref));
    }
    REPLAY_PASS(in.str());
  }
  std::cout << "REPLAY: no native oracle for task " << task << "\n"; return 3;
}

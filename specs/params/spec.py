def s(name, src, sig, **kw): d = {'name': name, 'src': src, 'sig': sig, 'inc': name + '.body.inc'}; d.update(kw); return d
KV = ['k_get_keyval_size', 'k_get_keyval_bool', 'k_enable', 'k_hill_branch', 'k_can_accumulate']
def t(id, mutants, **kw): d = {'id': id, 'properties': ['C10'], 'slices': [id], 'harness': 'h_' + id, 'enforce': 'k_' + id, 'replace': KV, 'unwind': 70, 'mutants': mutants}; d.update(kw); return d
UNIT = {
 'slices': [
  s('features_biases', 'colvardeps.h', r'enum features_biases'),
  s('features_colvar', 'colvardeps.h', r'enum features_colvar'),
  s('parse_runave', 'colvar.cpp', r'int colvar::parse_analysis\(std::string const &conf\)', **{'from': r'if \(get_keyval\(conf, "runAve", b_runave\) && b_runave\) \{', 'until': r'\n  acf_length = 0;'}),
  s('parse_acf', 'colvar.cpp', r'int colvar::parse_analysis\(std::string const &conf\)', **{'from': r'get_keyval\(conf, "corrFuncOffset", acf_offset, 0\);', 'until': r'get_keyval\(conf, "corrFuncNormalize"'}),
  s('meta_init_hillfreq', 'colvarbias_meta.cpp', r'int colvarbias_meta::init\(std::string const &conf\)', **{'from': r'get_keyval\(conf, "newHillFrequency", new_hill_freq, new_hill_freq\);', 'until': r'get_keyval\(conf, "gaussianSigmas"'}),
  s('meta_update_bias_guard', 'colvarbias_meta.cpp', r'int colvarbias_meta::update_bias\(\)', until=r'\n    if \(cvm::debug\(\)\) \{', until_close='k_hill_branch(); }\n  return COLVARS_OK;'),
 ],
 'assumed': ['statement ranges, not whole functions, are under contract here (colvar::parse_analysis: the runAve block and the corrFunc numeric keywords; colvarbias_meta::init: the newHillFrequency statements; colvarbias_meta::update_bias: the head up to the first statement of the hill-creation branch, whose body is replaced by a marker call)',
             'get_keyval is a stub that may deliver any value of the type (whether the keyword is present or not)'],
 'tasks': [
  t('parse_runave', [('(runave_stride == 0) || ', '')]),
  t('parse_acf', [('(acf_stride == 0) || ', '')]),
  t('meta_init_hillfreq', [('if (new_hill_freq > 0) {', 'if (true) {')]),
  t('meta_update_bias_guard', [('is_enabled(f_cvb_history_dependent) && can_accumulate_data() &&\n      ((cvm::step_absolute() % new_hill_freq) == 0)', '((cvm::step_absolute() % new_hill_freq) == 0) && is_enabled(f_cvb_history_dependent) && can_accumulate_data()')]),
  dict(t('meta_update_bias_guard', [('can_accumulate_data() &&', ''), ('% new_hill_freq) == 0', '% new_hill_freq) == 1')], properties=['C05'], harness='h_meta_hill_schedule', solvers=['kissat'], timeout=600,
       bounded='hill frequency 10 (constant divisor; symbolic % is undecidable in practice)'), id='meta_hill_schedule', enforce='k_meta_update_bias_sched', slices=['meta_update_bias_guard']),
 ],
}

C = 'colvar.cpp'
def s(name, src, sig, **kw): d = {'name': name, 'src': src, 'sig': sig, 'inc': name + '.body.inc'}; d.update(kw); return d
def t(id, props, repl, mutants, **kw):
    d = {'id': id, 'properties': props, 'slices': [id], 'harness': 'h_' + id, 'enforce': 'k_' + id, 'replace': repl, 'unwind': 70, 'object_bits': 10,
         'bounded': 'at most 2 components (loop over components unwound)', 'mutants': mutants}
    d.update(kw); return d
UNIT = {
 'cxxflags': ['-DCVS_SREAL'],
 'slices': [
  s('features_colvar', 'colvardeps.h', r'enum features_colvar'),
  s('collect_cvc_total_forces', C, r'int colvar::collect_cvc_total_forces\(\)', R5=['ft']),
  s('collect_cvc_Jacobians', C, r'int colvar::collect_cvc_Jacobians\(\)', R5=['fj']),
  s('collect_cvc_gradients', C, r'int colvar::collect_cvc_gradients\(\)'),
  s('end_of_step', C, r'int colvar::end_of_step\(\)'),
  s('update_forces_energy', C, r'cvm::real colvar::update_forces_energy\(\)', R5=['f'], ret_real=True),
 ],
 'assumed': ['real arithmetic is symbolic (stubs/sreal.h): contracts state the expression computed, not its floating-point value',
             'components (cvc) are stand-ins: total_force() / Jacobian_derivative() are uninterpreted calls tagged by component; colvarvalue is the scalar stand-in',
             'feature ids are read from the sliced enum features_colvar through cvs_set_fids()'],
 'tasks': [
  t('collect_cvc_total_forces', ['C07'], [], [('/ active_cvc_square_norm', ''), ('if (!cvcs[i]->is_enabled()) continue;', ''), ('ft += fj;', 'ft -= fj;'),
     ('is_enabled(f_cv_hide_Jacobian) && is_enabled(f_cv_subtract_applied_force)', 'is_enabled(f_cv_hide_Jacobian) || is_enabled(f_cv_subtract_applied_force)'), ('ft_reported = ft;', '')],
    unwindset={'K_ctf::body.0': 3}),
  t('collect_cvc_Jacobians', ['C07'], ['k_boltzmann', 'k_target_temperature'], [('->sup_coeff / active_cvc_square_norm', '->sup_coeff'), ('proxy->boltzmann() * proxy->target_temperature()', 'proxy->boltzmann()'), ('fj.reset();', '')],
    unwindset={'K_cj::body.0': 3}),
  t('collect_cvc_gradients', ['C20', 'C13'], ['k_collect_gradients'], [('if (!cvcs[i]->is_enabled()) continue;', ''), ('if (is_enabled(f_cv_collect_gradient)) {', 'if (true) {')],
    unwindset={'K_ccg::body.0': 4, 'K_ccg::body.1': 3}),
  t('end_of_step', ['C07', 'C17'], [], [('f_old = f;', 'f_old = fb;'), ('prev_timestep = cvm::step_relative();', 'prev_timestep = cvm::step_absolute();'), ('x_old = x;', '')], bounded=None),
  t('update_forces_energy', ['C01', 'C08', 'C17'], ['k_update_extended_Lagrangian'], [('f += fb;', 'f += fb_actual;'), ('f -= fj * cvm::real(time_step_factor);', 'f -= fj;'), ('if (!is_enabled(f_cv_external)) {', 'if (is_enabled(f_cv_external)) {'),
     ('if (!is_enabled(f_cv_active)) return 0.;', ''), ('(potential_energy + kinetic_energy)', '(potential_energy)')], bounded=None),
 ],
}

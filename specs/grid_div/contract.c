#include "contract.h"
size_t g_nd, g_k, g_k2, e_nd; int *g_ix, *g_nx, *g_eb; _Bool *g_per; int g_old_k, g_old_k2; int e_ix[4], e_nx[4], e_per[4];
int e_i[16]; int g_nv, g_vis[24];
int g_throw, g_debug, g_vec_alloc; unsigned g_errors, g_error_bits; size_t g_alloc_bytes;
long long g_step_rel, g_step_abs; int g_sim_continuing, g_sim_running;
size_t nondet_size_t(void);
double k_floor(double x) { return x; } double k_sqrt(double x) { return x; } double k_pow(double x, double y) { return x; }
double k_boltzmann(void) { return 0.0; } double k_target_temperature(void) { return 0.0; } double k_dt(void) { return 1.0; }
void h_update_div_neighbors(void) { int *ix0, *nx; _Bool *per; g_debug = 0; size_t nd = nondet_size_t();
  k_update_div_neighbors(ix0, nx, per, nd);
  if (nd == 2 && g_vis[6] == 0) __CPROVER_assert(0, "canary: 2-D neighbour wrapped to 0 reachable");
  if (nd == 3) __CPROVER_assert(0, "canary: 3-D reachable"); }

/* Contract for colvarproxy_system::position_distance (C02), symbolic reals: without periodicity the displacement is pos2 - pos1;
   with a periodic cell each Cartesian component c is  (pos2-pos1).c - (sx*A.c + sy*B.c + sz*C.c)  with A, B, C the three lattice
   vectors and s* = round(reciprocal_* . (pos2-pos1)): a whole lattice vector is subtracted, component by component. */
#ifndef PBC_CONTRACT_H
#define PBC_CONTRACT_H
#include <stddef.h>
#include "../common/term.h"
extern double e_d[32]; extern int g_node[8];
extern int g_throw, g_debug; extern unsigned g_errors, g_error_bits;
#define CID_ROUND (CID_USER + 7)
#define O(x) __CPROVER_old(x)
#define IN(k) in[k]
/* raw difference component c (0,1,2): SUB(pos2.c, pos1.c) */
#define IS_DIFF(n, c) (TVALID(n) && g_top(n) == T_SUB && P_LEAF(g_ta(n), IN(3 + (c))) && P_LEAF(g_tb(n), IN(c)))
/* node walking from the result component node R */
#define R_(c) g_node[c]
#define S_(c) g_tb(R_(c))
#define A1_(c) g_ta(S_(c))
#define M1_(c) g_ta(A1_(c))
#define M2_(c) g_tb(A1_(c))
#define M3_(c) g_tb(S_(c))
#define IS_MUL_SHIFT_LEAF(m, shiftnode, val) (TVALID(m) && g_top(m) == T_MUL && g_ta(m) == (shiftnode) && P_LEAF(g_tb(m), val))
/* the three shifts are the same nodes in all three components */
#define XS g_ta(M1_(0))
#define YS g_ta(M2_(0))
#define ZS g_ta(M3_(0))
#define COMP_OK(c) (TVALID(R_(c)) && g_top(R_(c)) == T_SUB && IS_DIFF(g_ta(R_(c)), c) && TVALID(S_(c)) && g_top(S_(c)) == T_ADD && TVALID(A1_(c)) && g_top(A1_(c)) == T_ADD \
  && IS_MUL_SHIFT_LEAF(M1_(c), XS, IN(6 + (c))) && IS_MUL_SHIFT_LEAF(M2_(c), YS, IN(9 + (c))) && IS_MUL_SHIFT_LEAF(M3_(c), ZS, IN(12 + (c))))
/* shift s = ROUND(recip . diff), the inner product being ((r.x*d.x + r.y*d.y) + r.z*d.z) over the SAME difference nodes */
#define DX g_ta(R_(0))
#define DY g_ta(R_(1))
#define DZ g_ta(R_(2))
#define IS_PROD(m, val, dnode) (TVALID(m) && g_top(m) == T_MUL && P_LEAF(g_ta(m), val) && g_tb(m) == (dnode))
#define IS_DOT(n, r0) (TVALID(n) && g_top(n) == T_ADD && TVALID(g_ta(n)) && g_top(g_ta(n)) == T_ADD && IS_PROD(g_ta(g_ta(n)), IN(r0), DX) && IS_PROD(g_tb(g_ta(n)), IN((r0) + 1), DY) && IS_PROD(g_tb(n), IN((r0) + 2), DZ))
#define IS_SHIFT(s, r0) (TVALID(s) && g_top(s) == T_CALL + CID_ROUND && IS_DOT(g_ta(s), r0))
#define FIN(x) ((x) >= -1.0e100 && (x) <= 1.0e100)
int k_position_distance(int btype, double *in)
__CPROVER_requires(0 <= btype && btype <= 3 && __CPROVER_is_fresh(in, 24 * sizeof(double)) && g_tn == 0)
__CPROVER_requires(FIN(in[0]) && FIN(in[1]) && FIN(in[2]) && FIN(in[3]) && FIN(in[4]) && FIN(in[5]) && FIN(in[6]) && FIN(in[7]) && FIN(in[8]) && FIN(in[9]) && FIN(in[10]) && FIN(in[11])
  && FIN(in[12]) && FIN(in[13]) && FIN(in[14]) && FIN(in[15]) && FIN(in[16]) && FIN(in[17]) && FIN(in[18]) && FIN(in[19]) && FIN(in[20]) && FIN(in[21]) && FIN(in[22]) && FIN(in[23]))
__CPROVER_assigns(__CPROVER_object_whole(e_d), __CPROVER_object_whole(g_node), TERM_FRAME, g_errors, g_error_bits)
__CPROVER_ensures(btype == 3 ==> g_errors == O(g_errors) + 1)
__CPROVER_ensures(btype == 0 ==> (IS_DIFF(g_node[0], 0) && IS_DIFF(g_node[1], 1) && IS_DIFF(g_node[2], 2)))
__CPROVER_ensures((btype == 1 || btype == 2) ==> (COMP_OK(0) && COMP_OK(1) && COMP_OK(2)))
__CPROVER_ensures((btype == 1 || btype == 2) ==> (IS_SHIFT(XS, 15) && IS_SHIFT(YS, 18) && IS_SHIFT(ZS, 21)))
;
#endif

// Native replay for parameter-validation sites: feeds the counterexample value in a generated configuration to the real
// module (stub proxy of misc_interfaces/stubs) in a forked child; termination by a signal is the violation of C10.
#include "replay_util.h"
#include <sys/wait.h>
#include <unistd.h>
#include "colvarmodule.h"
#include "colvarproxy.h"
#include "colvarproxy_stub.h"
#include "colvarproxy_stub.cpp"

static int child(std::string const &task, long long val) {
  colvarproxy_stub *proxy = new colvarproxy_stub();
  proxy->set_unit_system("real", false);
  proxy->colvars->setup_input(); proxy->colvars->setup_output();
  for (int ai = 0; ai < 4; ai++) proxy->init_atom(ai + 1);
  std::ostringstream cfg;
  cfg << "colvarsTrajFrequency 0\ncolvarsRestartFrequency 0\ncolvar {\n  name d\n  distance {\n    group1 { atomNumbers 1 }\n    group2 { atomNumbers 2 }\n  }\n";
  if (task == "parse_runave") cfg << "  runAve on\n  runAveStride " << val << "\n";
  if (task == "parse_acf") cfg << "  corrFunc on\n  corrFuncType coordinate\n  corrFuncStride " << val << "\n";
  cfg << "}\n";
  if (task == "meta_update_bias_guard") cfg << "metadynamics {\n  colvars d\n  hillWeight 0.1\n  hillWidth 1.0\n  newHillFrequency " << val << "\n}\n";
  int err = proxy->colvars->read_config_string(cfg.str());
  std::cout << "configuration " << (err ? "rejected with an error" : "accepted") << std::endl;
  if (!err) {
    std::vector<cvm::atom_pos> &pos = *(proxy->modify_atom_positions());
    for (size_t k = 0; k < pos.size(); k++) pos[k] = cvm::atom_pos(1.0 * k, 0.5 * k, 0.0);
    for (int step = 0; step < 3; step++) { proxy->colvars->it++; proxy->colvars->calc(); }
    std::cout << "three steps computed" << std::endl;
  }
  return 0;
}
int main(int argc, char **argv) {
  if (argc < 3) return 2;
  std::string task(argv[1]); replay_vals v; if (!v.load(argv[2])) return 2;
  long long val = v.arr_i("e_l", 0);
  pid_t pid = fork();
  if (pid == 0) { int r = child(task, val); std::cout.flush(); _exit(r); }
  int status = 0; waitpid(pid, &status, 0);
  if (WIFSIGNALED(status)) REPLAY_FAIL(task << " with parameter value " << val << ": host process terminated by signal " << WTERMSIG(status) << " (SIGFPE = 8: integer division by zero)");
  REPLAY_PASS(task << " with parameter value " << val << ": error reported or run completed, no signal");
}

// Stub of the colvarmodule (cvm) static interface as used by sliced bodies.
#ifndef CVM_STUB_H
#define CVM_STUB_H
#include <cvs_base.h>
#define COLVARS_OK 0
#define COLVARS_ERROR 1
#define COLVARS_NOT_IMPLEMENTED (1<<1)
#define COLVARS_INPUT_ERROR     (1<<2)
#define COLVARS_BUG_ERROR       (1<<3)
#define COLVARS_FILE_ERROR      (1<<4)
#define COLVARS_MEMORY_ERROR    (1<<5)
#define COLVARS_NO_SUCH_FRAME   (1<<6)
struct CVS_MSG_T {};
extern CVS_MSG_T CVS_MSG;
extern "C" int g_debug;
extern "C" double k_floor(double);
extern "C" double k_sqrt(double);
extern "C" long long g_step_rel, g_step_abs;
extern "C" int g_sim_continuing, g_sim_running;
struct colvarproxy_stub_t {
  bool simulation_continuing() const { return g_sim_continuing != 0; }
  bool simulation_running() const { return g_sim_running != 0; }
};
struct colvarmodule;
struct colvarmodule_main_t { colvarproxy_stub_t *proxy; };
static colvarproxy_stub_t cvs_proxy;
static colvarmodule_main_t cvs_main = { &cvs_proxy };
typedef colvarproxy_stub_t colvarproxy;
struct colvarmodule {
  typedef double real;
  typedef long long step_number;
  static colvarmodule_main_t *main() { return &cvs_main; }
  static step_number step_relative() { return g_step_rel; }
  static step_number step_absolute() { return g_step_abs; }
  static bool debug() { return g_debug != 0; }
  static void log(CVS_MSG_T const &, int = 10) {}
  static int error(CVS_MSG_T const &, int code = COLVARS_ERROR) { g_errors = g_errors + 1; g_error_bits = g_error_bits | (unsigned)code; return code; }
  static real floor(real const &x) { return k_floor(x); }
  static real sqrt(real const &x) { return k_sqrt(x); }
  static real fabs(real const &x) { return x < 0.0 ? -x : x; }
};
#define cvm colvarmodule
#endif

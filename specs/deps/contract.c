#include "contract.h"
int e_d[40];
int g_throw, g_debug, g_vec_alloc; unsigned g_errors, g_error_bits; size_t g_alloc_bytes;
long long g_step_rel, g_step_abs; int g_sim_continuing, g_sim_running;
int g_self_calls[NF], g_child_calls[2 * NF], g_nfree, g_ndisable, g_disable_fid;
size_t nondet_size_t(void); int nondet_int(void);
double k_floor(double x) { return x; } double k_sqrt(double x) { return x; } double k_pow(double x, double y) { return x; }
#define H_DISABLE(NAME, FID) void NAME(void) { int *st, *rs, *ar, *rc; size_t *nar; g_debug = 0; g_errors = 0; \
  int r = k_disable(FID, st, rs, nondet_size_t(), ar, nar, rc, nondet_size_t(), nondet_size_t()); \
  if (r == 0 && g_self_calls[2] == 2) __CPROVER_assert(0, "canary: a prerequisite released twice (listed twice) reachable"); \
  if (r != 0) __CPROVER_assert(0, "canary: refused disable reachable"); \
  if (g_child_calls[5] == 2) __CPROVER_assert(0, "canary: child release reachable"); }
H_DISABLE(h_disable_f1, 1)
H_DISABLE(h_disable_f0, 0)
void h_decr_ref_count(void) { int *st; g_debug = 0; g_errors = 0;
  int r = k_decr_ref_count(1, st);
  if (g_ndisable == 1) __CPROVER_assert(0, "canary: auto-disable reachable");
  if (r != 0) __CPROVER_assert(0, "canary: underflow error reachable"); }
void h_toplevel_survives(void) { int *st; g_debug = 0; g_errors = 0; int r = k_toplevel_survives(1, st); if (r == 0) __CPROVER_assert(0, "canary: dependent came and went"); }

// Native replay for colvar::orientation::calc_value / apply_force (C01): real module + stub proxy, an orientation variable on 6 atoms under a
// harmonic restraint (centre = identity).  The atoms are the reference positions rotated by a series of angles about a fixed axis (plus a
// small distortion), covering geometries where the optimal-rotation quaternion comes out in either hemisphere relative to the reference
// quaternion.  At each geometry the energy handed to the engine is differentiated numerically with respect to every atomic coordinate and
// compared with the forces handed to the engine.
#include "replay_util.h"
#include <cmath>
#include <vector>
#include "colvarmodule.h"
#include "colvarproxy.h"
#include "colvar.h"
#include "colvarproxy_stub.h"
#include "colvarproxy_stub.cpp"
class e_proxy : public colvarproxy_stub { public: double energy; e_proxy() : colvarproxy_stub(), energy(0.0) {} void add_energy(cvm::real e) override { energy += e; } };
static int const natoms = 6;
static double const refpos[6][3] = {{-1.0, 0.2, 0.1}, {1.0, 1.2, -0.2}, {1.7, -0.4, 1.3}, {-0.5, -1.5, 0.9}, {0.4, 0.5, -1.8}, {2.4, 1.0, 0.5}};
static double const distort[6][3] = {{0.05, -0.02, 0.03}, {-0.04, 0.06, 0.01}, {0.02, 0.03, -0.05}, {-0.03, -0.04, 0.02}, {0.01, 0.05, 0.04}, {0.04, -0.01, -0.03}};
static double eval(e_proxy *p, std::vector<cvm::rvector> const &pos, std::vector<cvm::rvector> *forces) {
  std::vector<cvm::rvector> &pp = *(p->modify_atom_positions()); std::vector<cvm::rvector> &pf = *(p->modify_atom_applied_forces());
  for (int i = 0; i < natoms; i++) { pp[i] = pos[i]; pf[i] = cvm::rvector(0.0, 0.0, 0.0); }
  p->energy = 0.0; p->colvars->calc(); if (forces) forces->assign(pf.begin(), pf.begin() + natoms); return p->energy; }
static cvm::rvector rotate(cvm::rvector const &v, cvm::rvector const &u, double a) { return std::cos(a) * v + std::sin(a) * cvm::rvector::outer(u, v) + (1.0 - std::cos(a)) * (u * v) * u; }
int main(int argc, char **argv) {
  if (argc < 3) return 2;
  std::ostringstream conf; conf << "colvar {\n  name ori\n  orientation {\n    atoms { atomNumbers 1 2 3 4 5 6 }\n    refPositions";
  for (int i = 0; i < natoms; i++) conf << " (" << refpos[i][0] << ", " << refpos[i][1] << ", " << refpos[i][2] << ")";
  conf << "\n  }\n}\nharmonic {\n  colvars ori\n  centers (1.0, 0.0, 0.0, 0.0)\n  forceConstant 5.0\n}\n";
  e_proxy *p = new e_proxy(); p->set_unit_system("real", false); for (int i = 0; i < natoms; i++) p->init_atom(i + 1);
  if (p->colvars->read_config_string(conf.str()) != COLVARS_OK) { std::cout << "REPLAY: configuration rejected\n"; return 3; }
  p->colvars->update_engine_parameters();
  cvm::rvector const axis = cvm::rvector(0.3, -0.5, 0.8).unit();
  double const angles[8] = {-170.0, -150.0, -135.0, -120.0, -40.0, 25.0, 130.0, 165.0}; int bad = 0; std::ostringstream first;
  for (int n = 0; n < 8; n++) {
    std::vector<cvm::rvector> pos(natoms);
    for (int i = 0; i < natoms; i++) pos[i] = rotate(cvm::rvector(refpos[i][0], refpos[i][1], refpos[i][2]), axis, angles[n] * 3.14159265358979323846 / 180.0) + cvm::rvector(distort[i][0], distort[i][1], distort[i][2]) + cvm::rvector(3.0, -1.0, 2.0);
    std::vector<cvm::rvector> f; eval(p, pos, &f); double const h = 1.0e-6; double max_err = 0.0, max_f = 0.0;
    for (int i = 0; i < natoms; i++) for (int c = 0; c < 3; c++) { std::vector<cvm::rvector> pp(pos), pm(pos); pp[i][c] += h; pm[i][c] -= h;
      double const fd = -(eval(p, pp, NULL) - eval(p, pm, NULL)) / (2.0 * h); if (std::fabs(fd) > max_f) max_f = std::fabs(fd); if (std::fabs(fd - f[i][c]) > max_err) max_err = std::fabs(fd - f[i][c]); }
    if (max_err > 1.0e-4 * (max_f > 1.0 ? max_f : 1.0)) { bad++; if (first.str().empty()) first << "rotation by " << angles[n] << " degrees: largest force component " << max_f << ", largest difference between the applied force and minus the energy gradient " << max_err; }
  }
  delete p;
  if (bad) REPLAY_FAIL("orientation variable under a harmonic restraint: at " << bad << " of 8 geometries the forces handed to the engine are not minus the gradient of the energy handed to the engine; " << first.str());
  REPLAY_PASS("orientation restraint: applied forces equal minus the finite-difference gradient of the reported energy at 8 geometries in both hemispheres");
}

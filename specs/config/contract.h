#ifndef CONFIG_CONTRACT_H
#define CONFIG_CONTRACT_H
#include <stddef.h>
extern int e_i[16];
extern int g_throw, g_debug; extern unsigned g_errors, g_error_bits;
#define O(x) __CPROVER_old(x)
/* colvarparse::clear_keyword_registry (C09): after every successful keyword check the registry -- including the list of keywords
   that were valid in the context just parsed -- is emptied, so a later parse by the same object starts strict again */
int k_clear_keyword_registry(size_t a, size_t b, size_t c, size_t d)
__CPROVER_requires(a <= 1000 && b <= 1000 && c <= 1000 && d <= 1000)
__CPROVER_assigns(__CPROVER_object_whole(e_i))
__CPROVER_ensures(__CPROVER_return_value == 0)
;
/* colvarmodule::parse_config (C10): auto-generated configuration left over from an earlier, rejected call is discarded before
   anything is parsed (every parsing stage of this call that runs before the auto-generated text is consumed sees none);
   stages run in order global, colvars, biases, keyword check, and parsing stops at the first stage that reports an error */
extern int g_nstage, g_stage_id[12], g_stage_extra[12], g_stage_rc[12];
int k_stage(int which, int extra_len) __CPROVER_requires(0 <= g_nstage && g_nstage < 12)
  __CPROVER_assigns(g_nstage, g_stage_id[g_nstage], g_stage_extra[g_nstage])
  __CPROVER_ensures(g_nstage == O(g_nstage) + 1 && g_stage_id[g_nstage - 1] == which && g_stage_extra[g_nstage - 1] == extra_len && __CPROVER_return_value == g_stage_rc[g_nstage - 1]);
#define RC(k) g_stage_rc[k]
int k_parse_config(size_t stale_extra_len)
__CPROVER_requires(stale_extra_len <= 6 && g_nstage == 0 && RC(0) >= 0 && RC(0) <= 1 && RC(1) >= 0 && RC(1) <= 1 && RC(2) >= 0 && RC(2) <= 1 && RC(3) >= 0 && RC(3) <= 1 && RC(4) >= 0 && RC(4) <= 1 && g_debug == 0)
__CPROVER_assigns(__CPROVER_object_whole(e_i), g_nstage, __CPROVER_object_whole(g_stage_id), __CPROVER_object_whole(g_stage_extra), g_errors, g_error_bits)
__CPROVER_ensures(g_nstage >= 1 && g_stage_id[0] == 0)
__CPROVER_ensures(RC(0) != 0 ==> (g_nstage == 1 && g_errors == O(g_errors) + 1))
__CPROVER_ensures((RC(0) == 0) ==> (g_nstage >= 2 && g_stage_id[1] == 1 && g_stage_extra[1] == 0))
__CPROVER_ensures((RC(0) == 0 && RC(1) != 0) ==> g_nstage == 2)
__CPROVER_ensures((RC(0) == 0 && RC(1) == 0) ==> (g_nstage >= 3 && g_stage_id[2] == 2 && g_stage_extra[2] == 0))
__CPROVER_ensures((RC(0) == 0 && RC(1) == 0 && RC(2) != 0) ==> g_nstage == 3)
__CPROVER_ensures((RC(0) == 0 && RC(1) == 0 && RC(2) == 0) ==> (g_nstage >= 4 && g_stage_id[3] == 3 && g_stage_extra[3] == 0))
__CPROVER_ensures((RC(0) == 0 && RC(1) == 0 && RC(2) == 0 && RC(3) == 0) ==> (g_nstage == 5 && g_stage_id[4] == 5 && g_stage_extra[4] == 0))
;
/* coordNum: a pairlist is allocated only with a positive refresh frequency (it is used as a divisor at every step) */
extern int g_nalloc;
int k_get_keyval_int(int *v) __CPROVER_requires(__CPROVER_w_ok(v, sizeof(int))) __CPROVER_assigns(*v) __CPROVER_ensures(1);
void k_alloc_pairlist(void) __CPROVER_requires(g_nalloc < 4) __CPROVER_assigns(g_nalloc) __CPROVER_ensures(g_nalloc == O(g_nalloc) + 1);
int k_coordnum_pairlist(int *freq)
__CPROVER_requires(__CPROVER_is_fresh(freq, sizeof(int)) && g_nalloc == 0)
__CPROVER_assigns(__CPROVER_object_whole(e_i), *freq, g_nalloc, g_errors, g_error_bits)
__CPROVER_ensures(*freq > 0 ==> (g_nalloc == 1 && g_errors == O(g_errors)))
__CPROVER_ensures(!(*freq > 0) ==> (g_nalloc == 0 && g_errors == O(g_errors) + 1 && __CPROVER_return_value != 0))
;
#endif

#include "contract.h"
TERM_GHOST_DEFS
int e_i[16]; int g_node[16]; int g_npush; size_t g_push_len;
int g_throw, g_debug, g_vec_alloc; unsigned g_errors, g_error_bits; size_t g_alloc_bytes;
long long g_step_rel, g_step_abs; int g_sim_continuing, g_sim_running;
size_t nondet_size_t(void);
double k_floor(double x) { return x; } double k_sqrt(double x) { return x; } double k_pow(double x, double y) { return x; }
double k_boltzmann(void) { return 0.0; } double k_target_temperature(void) { return 0.0; } double k_dt(void) { return 1.0; } int k_same_step(void) { return 0; }
void h_runave_compute(void) { g_debug = 0; g_tn = 0; size_t L = nondet_size_t(); k_runave_compute(L); if (L == 3) __CPROVER_assert(0, "canary: window of three values"); }
void h_runave_push(void) { g_debug = 0; k_runave_push(nondet_size_t(), nondet_size_t()); __CPROVER_assert(0, "canary: push reachable"); }

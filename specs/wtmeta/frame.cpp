// Frame TU for the hill-creation statements of colvarbias_meta::update_bias (C05: height = hillWeight, times exp(-V/(k dT)) for
// well-tempered runs, V the bias at the deposition point; centred at the current values with the configured widths).
#include <vector>
#include <list>
#include <cvm_stub.h>
#include <cvs_echo.h>
#include <colvarvalue_sym.h>
#define NULL 0
#define CID_GRIDVAL (CID_USER + 1)
#define CID_HILLSUM (CID_USER + 2)
extern "C" { extern int g_node[12]; extern long long e_l[8]; extern int g_nhill, g_hill_w; extern long long g_hill_step; extern int g_hill_c, g_hill_s; extern int g_nsum; extern int g_inrange, g_sum_range; }
struct grid_stub {
  std::vector<int> get_colvars_index() const { std::vector<int> ix; int *p = (int *) __CPROVER_allocate(4 * sizeof(int), 0); ix.p_ = p; ix.n_ = 1; ix.cap_ = 4; p[0] = 2; return ix; }
  bool index_ok(std::vector<int> const &ix) const { return g_inrange != 0; }
  cvm::real value(std::vector<int> const &ix) const { CVS_ASSERT(g_inrange != 0, "colvar_grid::value: index inside the grid (else out-of-bounds read)"); return sreal_call(CID_GRIDVAL, ix[0]); } };
struct hill_s { long long it; int w; int c, s; hill_s() {}
  hill_s(cvm::step_number it_, cvm::real W, std::vector<colvarvalue> const &cv_values, std::vector<cvm::real> const &cv_sigmas) { it = it_; w = W.nid(); c = (cv_values.p_ == (colvarvalue *) 0) ? 0 : 1 + (int) cv_values.n_; s = 1 + (int) cv_sigmas.n_; } };
#define hill hill_s
typedef std::list<hill_s> hlist_t;
struct K_nh {
  enum Communication { single_replica, multiple_replicas };
  typedef std::list<hill_s>::iterator hill_iter;
  Communication comm;                          // real: Communication comm; (colvarbias_meta.h)
  cvm::real hill_weight;                       //@real colvarbias_meta.h
  bool use_grids;                              //@real colvarbias_meta.h
  bool well_tempered;                          //@real colvarbias_meta.h
  cvm::real bias_temperature;                  //@real colvarbias_meta.h
  bool ebmeta;                                 //@real colvarbias_meta.h
  grid_stub *target_dist;                      // real: std::unique_ptr<colvar_grid_scalar> target_dist;
  cvm::step_number ebmeta_equil_steps;         //@real colvarbias_meta.h
  grid_stub *hills_energy;                     // real: std::shared_ptr<colvar_grid_scalar> hills_energy;
  hill_iter new_hills_begin;                   //@real colvarbias_meta.h
  std::list<hill_s> hills;                     // real: std::list<hill> hills;
  std::vector<colvarvalue> colvar_values;      //@real colvarbias.h
  std::vector<cvm::real> colvar_sigmas;        //@real colvarbias_meta.h
  colvarproxy *proxy;
  hlist_t hills_off_grid;                       // real: std::list<hill> hills_off_grid;
  // which range is summed: 1 = the not-yet-tabulated hills [new_hills_begin, end), 2 = the hills near the grid boundaries
  void calc_hills(hill_iter first, hill_iter, cvm::real &energy, std::vector<colvarvalue> const *) { g_nsum = g_nsum + 1; g_sum_range = (first == hills_off_grid.begin()) ? 2 : 1; energy += sreal_call(CID_HILLSUM, g_sum_range); }
  void add_hill(hill_s const &h) { g_nhill = g_nhill + 1; g_hill_w = h.w; g_hill_step = h.it; g_hill_c = h.c; g_hill_s = h.s; }
  void body()
#include "new_hill.body.inc"
};
#undef hill
// node slots: 0 hill_weight, 1 bias_temperature
extern "C" void k_new_hill(bool well_tempered, bool use_grids) {
  g_tn = 0; K_nh f; grid_stub g; f.hills_energy = &g; f.target_dist = &g; f.proxy = &cvs_proxy; f.comm = K_nh::single_replica;
  f.well_tempered = well_tempered; f.use_grids = use_grids; f.ebmeta = false; f.ebmeta_equil_steps = 0;
  colvarvalue cv[2]; cvm::real sg[3]; CVS_VIEW(f.colvar_values, cv, 2); CVS_VIEW(f.colvar_sigmas, sg, 3); hill_s harr[1], oarr[1]; f.hills.p_ = harr; f.hills.n_ = 0; f.new_hills_begin = harr; f.hills_off_grid.p_ = oarr; f.hills_off_grid.n_ = 0;
  { double x = nondet_double(); f.hill_weight = cvm::real(x); g_node[0] = f.hill_weight.id; } { double x = nondet_double(); f.bias_temperature = cvm::real(x); g_node[1] = f.bias_temperature.id; }
  e_l[0] = well_tempered; e_l[1] = use_grids; e_l[2] = g_step_abs; e_l[3] = g_inrange;
  f.body();
}

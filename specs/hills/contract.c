#include "contract.h"
TERM_GHOST_DEFS
int g_node[40]; long long e_l[8]; int g_ws[2];
int g_throw, g_debug, g_vec_alloc; unsigned g_errors, g_error_bits; size_t g_alloc_bytes;
long long g_step_rel, g_step_abs; int g_sim_continuing, g_sim_running;
size_t nondet_size_t(void); int nondet_int(void); double nondet_double(void); _Bool nondet_bool(void);
double k_floor(double x) { return x; } double k_sqrt(double x) { return x; } double k_pow(double x, double y) { return x; }
double k_boltzmann(void) { return 0.0; } double k_target_temperature(void) { return 0.0; } double k_dt(void) { return 1.0; } int k_same_step(void) { return 0; }
int k_cv_is_enabled(int cv_tag, int f) { return 0; }
void k_add_bias_force(int cv_tag, int node) {} void k_add_bias_force_actual_value(int cv_tag, int node) {}
void h_calc_hills(void) { g_debug = 0; g_tn = 0; g_ws[0] = nondet_int(); g_ws[1] = nondet_int(); size_t nh = 2;
  k_calc_hills(nh, nondet_bool());
  if (nh == 2 && g_top(g_node[17]) == T_LEAF) __CPROVER_assert(0, "canary: negligible second hill reachable");
  if (nh == 2 && g_top(g_node[7]) != T_LEAF) __CPROVER_assert(0, "canary: first hill evaluated"); }
void h_calc_hills_force(void) { g_debug = 0; g_tn = 0; size_t nh = 2; int vt = 1;
  k_calc_hills_force(1, nh, nondet_bool(), vt);
  if (g_node[27] != g_node[26] && nh == 2) __CPROVER_assert(0, "canary: force accumulated");
  if (vt == 1 && nh == 2 && g_node[27] == g_node[26]) __CPROVER_assert(0, "canary: both hills skipped (zero value)"); }

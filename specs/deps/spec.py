D = 'colvardeps.cpp'; H = 'colvardeps.h'
def s(name, src, sig, **kw): d = {'name': name, 'src': src, 'sig': sig, 'inc': name + '.body.inc'}; d.update(kw); return d
UNIT = {
 'slices': [
  s('feature_type', H, r'enum feature_type'),
  s('feature_is_dynamic', H, r'inline bool is_dynamic\(\)'),
  s('is_enabled', H, r'inline bool is_enabled\(int f = f_cv_active\) const'),
  s('disable', D, r'int colvardeps::disable\(int feature_id\)', subst=[('cvm::increase_depth();', 'cvm_increase_depth();'), ('cvm::decrease_depth();', 'cvm_increase_depth();')]),
  s('decr_ref_count', D, r'int colvardeps::decr_ref_count\(int feature_id\)'),
  s('enable_enabled', D, r'int colvardeps::enable\(int feature_id,', **{'from': r'if \(fs->enabled\) \{\n    if \(!\(dry_run \|\| toplevel\)\)', 'until': r'std::string feature_type_descr', 'until_close': 'return -1;'}),
 ],
 'assumed': ['task toplevel_survives composes two real pieces, the already-enabled branch of colvardeps::enable (statement range) and the whole body of decr_ref_count: a dependent takes and releases a reference on a capability that was switched on at top level', 'children are stand-ins whose decr_ref_count is a counting stub; features() (virtual) is the frame\'s feature list; log indentation calls are no-ops'],
 'tasks': [
  {'id': 'disable_f1', 'properties': ['C13'], 'slices': ['disable', 'is_enabled'], 'harness': 'h_disable_f1', 'enforce': 'k_disable',
   'replace': ['k_decr_self', 'k_decr_child', 'k_free_children_deps'], 'unwind': 20, 'object_bits': 10,
   'unwindset': {'K_disable::body.0': 3, 'K_disable::body.1': 3, 'K_disable::body.2': 3, 'K_disable::body.3': 3},
   'bounded': '4 features, at most 2 entries per dependency list, at most 2 children (loops unwound)',
   'mutants': [('fs->alternate_refs.clear();', ''), ('fs->ref_count > 1', 'fs->ref_count > 2'), ('if (is_enabled()) {', 'if (true) {'), ('fs->ref_count = 0;', ''),
               ('if (feature_id == 0) {', 'if (feature_id == 1) {'), ('decr_ref_count(f->requires_self[i]);', 'decr_ref_count(f->requires_self[0]);')]},
  {'id': 'disable_f0', 'properties': ['C13'], 'slices': ['disable', 'is_enabled'], 'harness': 'h_disable_f0', 'enforce': 'k_disable',
   'replace': ['k_decr_self', 'k_decr_child', 'k_free_children_deps'], 'unwind': 20, 'object_bits': 10,
   'unwindset': {'K_disable::body.0': 3, 'K_disable::body.1': 3, 'K_disable::body.2': 3, 'K_disable::body.3': 3},
   'bounded': '4 features, at most 2 entries per dependency list, at most 2 children (loops unwound)',
   'mutants_': [('fs->alternate_refs.clear();', ''), ('fs->ref_count > 1', 'fs->ref_count > 2'), ('if (is_enabled()) {', 'if (true) {'), ('fs->ref_count = 0;', ''),
               ('if (feature_id == 0) {', 'if (feature_id == 1) {'), ('decr_ref_count(f->requires_self[i]);', 'decr_ref_count(f->requires_self[0]);')]},
  {'id': 'toplevel_survives', 'properties': ['C13'], 'slices': ['enable_enabled', 'decr_ref_count', 'feature_is_dynamic'], 'harness': 'h_toplevel_survives', 'enforce': 'k_toplevel_survives',
   'replace': ['k_disable_stub'], 'unwind': 20, 'object_bits': 10, 'mutants': []},
  {'id': 'decr_ref_count', 'properties': ['C13'], 'slices': ['decr_ref_count', 'feature_is_dynamic'], 'harness': 'h_decr_ref_count', 'enforce': 'k_decr_ref_count',
   'replace': ['k_disable_stub'], 'unwind': 20, 'object_bits': 10,
   'mutants': [('if (rc <= 0) {', 'if (rc < 0) {'), ('rc == 0 && f->is_dynamic()', 'rc == 0'), ('rc--;', 'rc -= 2;')]},
 ],
}

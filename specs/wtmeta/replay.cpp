// Native replay for the hill-creation statements of colvarbias_meta::update_bias (C05, C10): real module + stub proxy, well-tempered metadynamics
// with grids on a distance whose value stays OUTSIDE the grid (beyond the upper boundary, then below the lower one).  One hill is deposited per
// step; the bias energy after step s must follow V_s = V_{s-1} + exp(-V_{s-1}/(kB dT)): each new hill is scaled with the bias present at the
// deposition point (all hills coincide there, so every hill contributes its full height).
#include "replay_util.h"
#include <cmath>
#include <vector>
#include "colvarmodule.h"
#include "colvarproxy.h"
#include "colvarbias.h"
#include "colvarproxy_stub.h"
#include "colvarproxy_stub.cpp"
static int run(double lower, double x, std::ostringstream &msg, bool slow_grids = false) {
  colvarproxy_stub *p = new colvarproxy_stub(); p->set_unit_system("real", false); p->colvars->setup_input(); p->colvars->setup_output(); for (int a = 0; a < 2; a++) p->init_atom(a + 1);
  p->set_target_temperature(300.0);
  std::ostringstream conf; conf << "colvarsTrajFrequency 0\ncolvarsRestartFrequency 0\ncolvar {\n  name d\n  lowerBoundary " << lower << "\n  upperBoundary 10.0\n  width 0.5\n  distance {\n    group1 { atomNumbers 1 }\n    group2 { atomNumbers 2 }\n  }\n}\n"
     "metadynamics {\n  name m\n  colvars d\n  hillWeight 1.0\n  hillWidth 2.0\n  newHillFrequency 1\n  wellTempered on\n  biasTemperature 3000.0\n}\n";
  if (p->colvars->read_config_string(conf.str())) { delete p; return -1; }
  double const kT = p->boltzmann() * 3000.0; double V = 0.0; int bad = 0;
  for (long s = 0; s <= 6; s++) { std::vector<cvm::atom_pos> &pos = *(p->modify_atom_positions()); pos[0] = cvm::atom_pos(0, 0, 0); pos[1] = cvm::atom_pos(x, 0, 0);
    p->colvars->it = s; p->colvars->calc(); double const E = p->colvars->biases[0]->get_energy();
    if (s > 0) V += std::exp(-V / kT);
    if (std::fabs(E - V) > 1e-6 * (1.0 + V)) { if (!bad) msg << "variable at " << x << " (grid [" << lower << ", 10]): after step " << s << " the bias energy is " << E << ", well-tempered recursion gives " << V << "; "; bad++; } }
  delete p; return bad;
}
int main(int argc, char **argv) {
  if (argc < 3) return 2; std::ostringstream msg; int b0 = run(0.0, 10.75, msg), b1 = run(4.0, 1.0, msg), b2 = run(0.0, 5.25, msg, true);
  if (b0 < 0 || b1 < 0 || b2 < 0) { std::cout << "REPLAY: configuration rejected\n"; return 3; }
  if (b0 || b1 || b2) REPLAY_FAIL("well-tempered metadynamics: " << b0 << " (variable above the grid), " << b1 << " (below) and " << b2 << " (inside, grids updated every 10 steps) of 7 steps deviate: the hills are not scaled by exp(-V/(kB dT)) with V the whole bias at the deposition point; " << msg.str());
  REPLAY_PASS("well-tempered hill heights follow exp(-V/(kB dT)) with the variable outside the grid on either side and with hills still to be tabulated");
}

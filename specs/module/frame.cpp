// Frame TU for colvarmodule output scheduling (C19).  Body sliced verbatim from src/colvarmodule.cpp.
#include <vector>
#include <cvm_stub.h>
#include <cvs_echo.h>
extern "C" { extern long long e_l[16]; }
extern "C" int k_stream_good(); extern "C" int k_write_traj_label(); extern "C" int k_write_traj(); extern "C" int k_flush();
namespace std { struct string { int dummy; }; struct ostream { bool operator!() const { return k_stream_good() == 0; } }; }
struct proxy_io_stub {
  std::ostream os_;
  std::ostream &output_stream(std::string const &, char const *) { return os_; }
  int flush_output_stream(std::string const &) { return k_flush(); }
};
struct K_wtf {
  proxy_io_stub *proxy;
  std::string cv_traj_name;                 //@real colvarmodule.h
  unsigned cv_traj_freq;                    // real: static size_t cv_traj_freq; narrowed to 32 bits together with the step counter (bound on magnitudes)
  bool cv_traj_write_labels;                //@real colvarmodule.h
  unsigned restart_out_freq;                // real: static size_t restart_out_freq; narrowed likewise
  bool write_traj_label(std::ostream &) { return k_write_traj_label() != 0; }   // real: std::ostream & write_traj_label(std::ostream &os), tested for goodness
  bool write_traj(std::ostream &) { return k_write_traj() != 0; }
  int body()
#include "write_traj_files.body.inc"
};
extern "C" int k_write_traj_files(unsigned cv_traj_freq, bool *write_labels, unsigned restart_out_freq) {
  K_wtf f; proxy_io_stub px; f.proxy = &px; f.cv_traj_freq = cv_traj_freq; f.cv_traj_write_labels = *write_labels; f.restart_out_freq = restart_out_freq;
  e_l[0] = (long long) cv_traj_freq; e_l[1] = *write_labels; e_l[2] = (long long) restart_out_freq; e_l[3] = g_step_abs; e_l[4] = g_step_rel;
  int r = f.body();
  *write_labels = f.cv_traj_write_labels;
  return r;
}


// Frame TU for integrate_potential::update_div_neighbors (C16).  Body sliced verbatim from src/colvargrid.cpp.
#define CVS_VEC_COPY
#define CVS_VEC_MINCAP 3
#include <vector>
#include <cvm_stub.h>
#include <cvs_echo.h>
extern "C" { extern int e_i[16]; }
extern "C" int k_wrap(int *ix, int *nx, bool *per, size_t nd);
extern "C" void k_update_div_local(int *ix, size_t n);
struct K_udn {
  size_t nd = 0;                       //@real colvargrid.h
  std::vector<int> nx;                 //@real colvargrid.h
  std::vector<bool>        periodic;   //@real colvargrid.h
  void wrap(std::vector<int> &ix) const { k_wrap(ix.p_, nx.p_, periodic.p_, nd); }   // colvar_grid<T>::wrap, under contract in unit grid_index
  void update_div_local(const std::vector<int> &ix) { k_update_div_local(ix.p_, ix.n_); }
  std::vector<int> ix0;
  void body()
#include "update_div_neighbors.body.inc"
};
extern "C" int k_update_div_neighbors(int *ix0, int *nx, bool *per, size_t nd) {
  K_udn f; f.nd = nd; CVS_VIEW(f.nx, nx, nd); CVS_VIEW(f.periodic, per, nd); CVS_VIEW(f.ix0, ix0, nd);
  e_i[0] = (int) nd; for (int k = 0; k < 3; k++) { e_i[1 + k] = ix0[k]; e_i[4 + k] = nx[k]; e_i[7 + k] = per[k]; }
  f.body();
  return 0;
}

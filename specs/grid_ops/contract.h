/* Contracts for whole-grid combination used by multiple-walker sharing (C14), T = size_t, any grid length:
   every element is combined exactly once with the element of the same address, nothing else changes, and mismatched
   grids are refused without change.  "For every address k" is the ghost index gk. */
#ifndef GRID_OPS_CONTRACT_H
#define GRID_OPS_CONTRACT_H
#include <stddef.h>
extern size_t g_n, g_k; extern size_t *g_data, *g_other; extern size_t g_old_k; extern size_t e_z[8];
extern int g_throw, g_debug; extern unsigned g_errors, g_error_bits;
#define NMAX 16777216
#define GO_GHOSTS g_n, g_k, g_data, g_other, g_old_k, __CPROVER_object_whole(e_z)
#define GO_PRE (n <= NMAX && on <= NMAX && __CPROVER_is_fresh(data, n * sizeof(size_t)) && __CPROVER_is_fresh(other, on * sizeof(size_t)))
#define O(x) __CPROVER_old(x)
#define MISMATCH (mult != omult || n != on)
int k_copy_grid(size_t *data, size_t n, size_t mult, size_t *other, size_t on, size_t omult, size_t gk)
__CPROVER_requires(GO_PRE)
__CPROVER_assigns(GO_GHOSTS, __CPROVER_object_whole(data), g_errors, g_error_bits)
__CPROVER_ensures(MISMATCH ==> (g_errors == O(g_errors) + 1 && __CPROVER_return_value == 0 && (gk < n ==> data[gk] == g_old_k)))
__CPROVER_ensures(!MISMATCH ==> (g_errors == O(g_errors) && __CPROVER_return_value == 1 && (gk < n ==> data[gk] == other[gk])))
;
int k_delta_grid(size_t *data, size_t n, size_t mult, size_t *other, size_t on, size_t omult, size_t gk)
__CPROVER_requires(GO_PRE)
__CPROVER_assigns(GO_GHOSTS, __CPROVER_object_whole(data), g_errors, g_error_bits)
__CPROVER_ensures(MISMATCH ==> (g_errors == O(g_errors) + 1 && __CPROVER_return_value == 0 && (gk < n ==> data[gk] == g_old_k)))
__CPROVER_ensures(!MISMATCH ==> (g_errors == O(g_errors) && __CPROVER_return_value == 1 && (gk < n ==> data[gk] == other[gk] - g_old_k)))
;
/* add_grid checks the multiplicity only: equal lengths are the caller's obligation (precondition) */
int k_add_grid(size_t *data, size_t n, size_t mult, size_t *other, size_t on, size_t omult, size_t gk)
__CPROVER_requires(GO_PRE && n == on)
__CPROVER_assigns(GO_GHOSTS, __CPROVER_object_whole(data), g_errors, g_error_bits)
__CPROVER_ensures((mult != omult) ==> (g_errors == O(g_errors) + 1 && __CPROVER_return_value == 0 && (gk < n ==> data[gk] == g_old_k)))
__CPROVER_ensures((mult == omult) ==> (g_errors == O(g_errors) && __CPROVER_return_value == 1 && (gk < n ==> data[gk] == g_old_k + other[gk])))
;
#endif

T = 'colvartypes.h'
def s(name, src, sig, **kw): d = {'name': name, 'src': src, 'sig': sig, 'inc': name + '.body.inc'}; d.update(kw); return d
CLAMP = ('cvm::acos( (cos_omega > 1.0) ? 1.0 :\n                                       ( (cos_omega < -1.0) ? -1.0 : cos_omega) )',
         'cvm::acos(cvs_select(cos_omega > 1.0, cvm::real(1.0), cvs_select(cos_omega < -1.0, cvm::real(-1.0), cos_omega)))')
UNIT = {
 'cxxflags': ['-DCVS_SREAL'], 'cflags': [],
 'slices': [
  s('q_scale', T, r'friend inline cvm::quaternion operator \* \(cvm::real c,\s*cvm::quaternion const &q\)'),
  s('q_dist2', T, r'inline cvm::real dist2\(cvm::quaternion const &Q2\) const', subst=[CLAMP]),
  s('q_dist2_grad', T, r'inline cvm::quaternion dist2_grad\(cvm::quaternion const &Q2\) const', subst=[CLAMP]),
 ],
 'assumed': ['symbolic reals; acos, sin, fabs are uninterpreted calls; cvm::quaternion is a four-component stand-in whose scalar product operator*(real, quaternion) is the sliced real text',
             'extraction rewrites the clamping conditional (mixed double / real operands, a front-end limit) into nested cvs_select calls with the same conditions and values',
             'that the closed-form grad1 is the derivative of acos(q.Q2) on the unit sphere is real analysis and is not decided; the contract pins the formula and that distance and gradient choose the SAME geodesic (the sign of the gradient flips exactly where dist2 switches from omega to PI - omega)'],
 'tasks': [
  {'id': 'q_dist2', 'properties': ['C18'], 'slices': ['q_dist2'], 'harness': 'h_q_dist2', 'enforce': 'k_q_dist2', 'unwind': 10,
   'mutants': [('if (cos_omega > 0.0)\n      return omega * omega;', 'if (cos_omega < 0.0)\n      return omega * omega;'), ('(PI-omega) * (PI-omega)', '(PI-omega) * omega'), ('this->q1*Q2.q1', 'this->q1*Q2.q2')]},
  {'id': 'q_dist2_grad', 'properties': ['C18', 'C01'], 'slices': ['q_dist2_grad', 'q_scale'], 'harness': 'h_q_dist2_grad', 'enforce': 'k_q_dist2_grad', 'unwind': 10,
   'mutants': [('return -2.0*(PI-omega)*grad1;', 'return 2.0*(PI-omega)*grad1;'), ('if (cos_omega > 0.0) {\n      return 2.0*omega*grad1;', 'if (cos_omega < 0.0) {\n      return 2.0*omega*grad1;'),
               ('cos_omega*(this->q2-cos_omega*Q2.q2)/sin_omega', 'cos_omega*(this->q2-cos_omega*Q2.q3)/sin_omega'), ('(-1.0)*sin_omega*Q2.q0', 'sin_omega*Q2.q0'), ('this->q1*Q2.q1', 'this->q1*Q2.q2'), ('cvm::sin(omega)', 'cvm::sin(cos_omega)')]},
 ],
}

// Frame TU for colvarbias_abf::read_state_data_template_ (C14 / C03: what a restarted shared-ABF walker considers already shared).
// Body sliced verbatim from src/colvarbias_abf.cpp; the stream type IST is a stand-in.
#define CVS_SMAX 6
#include <vector>
#include <string>
#include <cvm_stub.h>
#include <cvs_echo.h>
extern "C" { extern int e_i[16]; }
extern "C" int k_key(int code); extern "C" int k_read_raw(int tag); extern "C" void k_copy_grid(int dst, int src); extern "C" void k_set_div();
struct IST { int dummy; };
struct grid_s { int tag; bool read_raw(IST &) { return k_read_raw(tag) != 0; } void copy_grid(grid_s const &o) { k_copy_grid(tag, o.tag); } };
struct pmf_s { void set_div() { k_set_div(); } };
struct K_rsd {
  std::vector<std::string> input_prefix;    //@real colvarbias_abf.h
  bool    b_integrate;                      //@real colvarbias_abf.h
  int   pabf_freq;                          //@real colvarbias_abf.h
  bool    shared_on;                        //@real colvarbias_abf.h
  size_t  shared_freq;                      //@real colvarbias_abf.h
  cvm::step_number shared_last_step;        //@real colvarbias_abf.h
  bool b_CZAR_estimator;
  grid_s *samples, *gradients, *local_samples, *local_gradients, *z_samples, *z_gradients, *last_samples, *last_gradients;   // real: std::shared_ptr / unique_ptr to grids
  pmf_s *pmf;
  bool read_state_data_key(IST &, char const *key) { int code = key[0] + 3 * key[2]; if (key[0] == 'l') code = code + 7 * key[6]; return k_key(code) != 0; }
  IST &body(IST &is)
#include "read_state_data.body.inc"
};
extern "C" long long k_read_state_data(bool b_integrate, bool shared_on, size_t shared_freq, bool czar, long long last_step_in) {
  K_rsd f; IST is; grid_s g[8]; pmf_s pm; for (int k = 0; k < 8; k++) g[k].tag = k;
  f.samples = &g[0]; f.gradients = &g[1]; f.local_samples = &g[2]; f.local_gradients = &g[3]; f.z_samples = &g[4]; f.z_gradients = &g[5]; f.last_samples = &g[6]; f.last_gradients = &g[7]; f.pmf = &pm;
  f.input_prefix.p_ = 0; f.input_prefix.n_ = 0; f.input_prefix.cap_ = 0; f.b_integrate = b_integrate; f.pabf_freq = (int) (shared_freq % 3); f.shared_on = shared_on; f.shared_freq = shared_freq; f.b_CZAR_estimator = czar; f.shared_last_step = last_step_in;
  e_i[0] = b_integrate; e_i[1] = shared_on; e_i[2] = (int) shared_freq; e_i[3] = czar;
  f.body(is);
  return f.shared_last_step;
}

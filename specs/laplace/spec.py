def s(name, src, sig, **kw): d = {'name': name, 'src': src, 'sig': sig, 'inc': name + '.body.inc'}; d.update(kw); return d
def t(id, h, bounded, timeout=1500, **kw):
    d = {'id': id, 'properties': ['C16'], 'slices': ['atimes'], 'harness': h, 'enforce': 'k_atimes', 'unwind': 30, 'unwind_body': 4, 'timeout': timeout, 'bounded': bounded}
    d.update(kw); return d
M3 = [('const cvm::real ffz = 1.0 / (widths[2] * widths[2]);', 'const cvm::real ffz = 1.0 / (widths[1] * widths[2]);'), ('int ym = -h;\n    int yp =  h;\n    int zm = -1;', 'int ym = -1;\n    int yp =  1;\n    int zm = -1;'),
      ('LA[index] += fact * ffz * (A[index + zm] + A[index + zp] - 2.0 * A[index]);', 'LA[index] += fact * ffz * (A[index + zm] + A[index + zp] - A[index]);')]
UNIT = {
 'cxxflags': ['-DCVS_SREAL', '-DT_NT=900'], 'cflags': ['-DT_NT=900'],
 'slices': [
  s('atimes', 'colvargrid.cpp', r'void integrate_potential::atimes\(const std::vector<cvm::real> &A, std::vector<cvm::real> &LA\)', R5=[r'LA\[index\]', r'LA\[index2\]', 'fact']),
 ],
 'assumed': ['symbolic reals; grids of 2 or 3 points per dimension (every point of the 3x3 and 2x2x3 grids is checked through a ghost point index); the symmetrising edge factor `fact` is pinned in two dimensions (1/2 exactly on a non-periodic edge of the other direction) and left unconstrained (any sub-expression) in three',
             'the conjugate-gradient solver that calls atimes (nr_linbcg_sym) is not under contract'],
 'tasks': [
  t('atimes_2d_open', 'h_atimes_2d_open', '3x3 grid, non-periodic'),
  t('atimes_2d_periodic', 'h_atimes_2d_periodic', '3x3 grid, periodic in both dimensions'),
  t('atimes_2d_px', 'h_atimes_2d_px', '3x3 grid, periodic in the first dimension only',
    mutants=[('fact = periodic[1] ? 1.0 : 0.5;\n      LA[index]  = fact * ffx * (A[index + xm] + A[index + xp] - 2.0 * A[index]);', 'fact = periodic[0] ? 1.0 : 0.5;\n      LA[index]  = fact * ffx * (A[index + xm] + A[index + xp] - 2.0 * A[index]);'), ('if (i == 1) fact = 1.0;', 'if (i == 2) fact = 1.0;')]),
  t('atimes_2d_py', 'h_atimes_2d_py', '3x3 grid, periodic in the second dimension only'),
  t('atimes_3d_open', 'h_atimes_3d_open', '2x2x3 grid, non-periodic', mutants=M3),
  t('atimes_3d_periodic', 'h_atimes_3d_periodic', '2x2x3 grid, periodic in all dimensions', thorough_only=True),
 ],
}

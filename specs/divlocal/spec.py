def s(name, src, sig, **kw): d = {'name': name, 'src': src, 'sig': sig, 'inc': name + '.body.inc'}; d.update(kw); return d
def t(id, h, **kw):
    d = {'id': id, 'properties': ['C16'], 'slices': ['update_div_local', 'get_grad', 'wrap_detect_edge'], 'harness': h, 'enforce': 'k_update_div_local_body', 'unwind': 30, 'unwind_body': 4, 'timeout': 1500, 'object_bits': 10}
    d.update(kw); return d
M2 = [('get_grad(g01, ix);\n    ix[1] = ix0[1] - 1;', 'get_grad(g01, ix);\n    ix[1] = ix0[1] + 1;'), ('+ (g01[1]-g00[1] + g11[1]-g10[1]) / widths[1]) * 0.5;', '+ (g01[1]-g00[1] + g11[1]-g10[1]) / widths[0]) * 0.5;'),
      ('((g10[0]-g00[0] + g11[0]-g01[0]) / widths[0]', '((g10[0]-g00[0] + g11[0]-g10[0]) / widths[0]'), ('(g01[1]-g00[1] + g11[1]-g10[1])', '(g01[0]-g00[0] + g11[0]-g10[0])'),
      ('    return;', '    ;', 'get_grad'), ('} else if (ix[i] < 0 || ix[i] >= nx[i]) {', '} else if (ix[i] < 0 || ix[i] > nx[i]) {', 'wrap_detect_edge'), ('gradients->vector_value_smoothed(ix, g, b_smoothed);', 'gradients->vector_value_smoothed(ix, g, true);', 'get_grad')]
M3 = [('ix[1] = ix0[1] - 1;\n      for (j = 0; j<2; j++) {', 'ix[1] = ix0[1];\n      for (j = 0; j<2; j++) {'), ('+ gc[3*6+1]-gc[3*4+1] + gc[3*7+1]-gc[3*5+1])', '+ gc[3*6+1]-gc[3*4+1] + gc[3*7+1]-gc[3*5+2])'), ('/ widths[2]) * 0.25;', '/ widths[2]) * 0.5;'),
      ('gc[3*1+2]-gc[0+2] + gc[3*3+2]-gc[3*2+2]', 'gc[3*1+2]-gc[0+2] + gc[3*3+2]-gc[3*1+2]')]
UNIT = {
 'cxxflags': ['-DCVS_SREAL', '-DT_NT=900'], 'cflags': ['-DT_NT=900'],
 'slices': [
  s('update_div_local', 'colvargrid.cpp', r'void integrate_potential::update_div_local\(const std::vector<int> &ix0\)'),
  s('get_grad', 'colvargrid.cpp', r'void integrate_potential::get_grad\(cvm::real \* g, std::vector<int> &ix\)'),
  s('wrap_detect_edge', 'colvargrid.h', r'inline bool wrap_detect_edge\(std::vector<int> & ix\) const'),
 ],
 'assumed': ['symbolic reals; gradient grid of 2 bins per dimension; periodicity flags symbolic in two dimensions, fixed per harness in three (all open; periodic / open / periodic); the scalar grid point ix0 symbolic over the whole scalar grid (2 points in a periodic, 3 in a non-periodic dimension): the function has no loop over the grid, so the bound is on the index range only',
             'colvar_grid_gradient::vector_value_smoothed is a stand-in returning the ghost leaves of the addressed bin (its own contract: unit abframp) with an in-range obligation on the index; integrate_potential::address(ix0) is a ghost slot number (row-major address: unit grid_index); the frame declares `gradients` as a plain pointer (real: std::shared_ptr)',
             'the association of the sums is the one coded; which corner, component and width enters each difference comes from the property (central differences of the gradient components over the 2^nd bins around the scalar grid point, zero gradient outside a non-periodic grid)'],
 'tasks': [
  t('update_div_local_2d', 'h_update_div_local_2d', mutants=M2),
 ],
}

// Frame TU for integrate_potential::atimes (C16: the discrete Laplacian applied by the Poisson solver).  Body sliced verbatim from src/colvargrid.cpp.
#include <vector>
#include <cvm_stub.h>
#include <cvs_echo.h>
extern "C" { extern int g_a[27], g_la[27], g_w[3]; extern int e_l[8]; }
struct K_at {
  size_t nd = 0;                               //@real colvargrid.h
  std::vector<int> nx;                         //@real colvargrid.h
  std::vector<cvm::real> widths;               //@real colvargrid.h
  std::vector<bool> periodic;                  //@real colvargrid.h
  void body(const std::vector<cvm::real> &A, std::vector<cvm::real> &LA)
#include "atimes.body.inc"
};
extern "C" void k_atimes(int nd, int n0, int n1, int n2, bool p0, bool p1, bool p2) {
  g_tn = 0; K_at f; f.nd = (size_t) nd; int nxv[3]; nxv[0] = n0; nxv[1] = n1; nxv[2] = n2; bool per[3]; per[0] = p0; per[1] = p1; per[2] = p2; cvm::real wv[3]; cvm::real av[27], lav[27];
  e_l[0] = nd; e_l[1] = p0; e_l[2] = p1; e_l[3] = p2;
  for (int k = 0; k < 3; k++) { double x = nondet_double(); wv[k] = cvm::real(x); g_w[k] = wv[k].id; }
  int const n = (nd == 2) ? n0 * n1 : n0 * n1 * n2; e_l[4] = n0; e_l[5] = n1; e_l[6] = n2;
  for (int k = 0; k < 27; k++) if (k < n) { double x = nondet_double(); av[k] = cvm::real(x); g_a[k] = av[k].id; }
  CVS_VIEW(f.nx, nxv, nd); CVS_VIEW(f.widths, wv, nd); CVS_VIEW(f.periodic, per, nd);
  std::vector<cvm::real> A, LA; CVS_VIEW(A, av, n); CVS_VIEW(LA, lav, n);
  f.body(A, LA);
  for (int k = 0; k < 27; k++) if (k < n) g_la[k] = lav[k].nid();
}

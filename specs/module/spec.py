def s(name, src, sig, **kw): d = {'name': name, 'src': src, 'sig': sig, 'inc': name + '.body.inc'}; d.update(kw); return d
UNIT = {
 'cxxflags': ['-DCVS_STEP_T=int'], 'cflags': ['-DCVS_STEP_T=int'],
 'slices': [s('write_traj_files', 'colvarmodule.cpp', r'int colvarmodule::write_traj_files\(\)')],
 'assumed': ['proxy output stream, write_traj_label and write_traj are counting stubs; the trajectory frequency is 1 or 5 and the restart frequency 0 or 7 (constant divisors; symbolic % is undecidable in practice, DESIGN T7)'],
 'tasks': [
  {'id': 'write_traj_files', 'properties': ['C19'], 'slices': ['write_traj_files'], 'harness': 'h_write_traj_files', 'enforce': 'k_write_traj_files',
   'replace': ['k_stream_good', 'k_write_traj_label', 'k_write_traj', 'k_flush'], 'unwind': 20, 'solvers': ['kissat'], 'timeout': 600,
   'bounded': 'step numbers and frequencies are 32-bit (real: 64-bit); trajectory frequency 5, restart frequency 7 (constant divisors)',
   'mutants': [('(cvm::step_absolute() % cv_traj_freq) == 0', '(cvm::step_relative() % cv_traj_freq) == 0'), ('cv_traj_write_labels = false;', ''), ('(cvm::step_relative() == 0) ||', ''), ('cv_traj_freq * 1000', 'cv_traj_freq * 100')]},
 ],
}

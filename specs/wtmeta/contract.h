/* Contract for the hill-creation statements of colvarbias_meta::update_bias (C05), symbolic reals, ebmeta off, single replica.
   Exactly one hill is added, stamped with the absolute step, centred at the bias's current variable values with its configured widths,
   with weight  hillWeight * s,  s = 1 for plain metadynamics and  s = 1 * exp( (-1 * V) / (biasTemperature * kB) )  for well-tempered runs,
   V = the tabulated bias at the current bin when grids are used and the variable is inside the grid, the analytic sum over the hills near the
   grid boundaries when it is outside (the grid is never read out of range), the analytic sum over all hills without grids. */
#ifndef WTMETA_CONTRACT_H
#define WTMETA_CONTRACT_H
#include <stddef.h>
#include "../common/term.h"
extern int g_node[12]; extern long long e_l[8]; extern int g_nhill, g_hill_w; extern long long g_hill_step; extern int g_hill_c, g_hill_s; extern int g_nsum; extern int g_inrange, g_sum_range;
extern int g_throw, g_debug; extern unsigned g_errors, g_error_bits; extern long long g_step_rel, g_step_abs;
extern double g_kb;
double k_boltzmann(void) __CPROVER_assigns() __CPROVER_ensures(__CPROVER_return_value == g_kb);
#define CID_GRIDVAL (CID_USER + 1)
#define CID_HILLSUM (CID_USER + 2)
static int t_op(int n) { return TVALID(n) ? g_top(n) : -1; }
static int t_a(int n) { return TVALID(n) ? g_ta(n) : -2; }
static int t_b(int n) { return TVALID(n) ? g_tb(n) : -2; }
static _Bool is_leaf(int n, double x) { return P_LEAF(n, x); }
/* V, the bias at the deposition point: the tabulated bias at the current bin when grids are used AND the variable is inside the grid (outside,
   the analytic sum over the hills near the boundaries, range 2), PLUS in every case the analytic sum over the hills not tabulated yet (range 1:
   all hills, without grids) */
static _Bool is_hs(int n, int range) { return t_op(n) == T_CALL + CID_HILLSUM && t_a(n) == range; }
static _Bool is_v(int n, _Bool use_grids) { int base = t_a(n);
  if (!(t_op(n) == T_ADD && is_hs(t_b(n), 1))) return 0;
  if (!use_grids) return is_leaf(base, 0.0);
  if (g_inrange) return t_op(base) == T_CALL + CID_GRIDVAL;
  return t_op(base) == T_ADD && is_leaf(t_a(base), 0.0) && is_hs(t_b(base), 2); }
static _Bool is_kt(int n) { return t_op(n) == T_MUL && t_a(n) == g_node[1] && is_leaf(t_b(n), g_kb); }
static _Bool is_arg(int n, _Bool use_grids) { int m = t_a(n); return t_op(n) == T_DIV && is_kt(t_b(n)) && t_op(m) == T_MUL && is_leaf(t_a(m), -1.0) && is_v(t_b(m), use_grids); }
static _Bool is_scale(int n, _Bool wt, _Bool use_grids) { if (!wt) return is_leaf(n, 1.0);
  return t_op(n) == T_MUL && is_leaf(t_a(n), 1.0) && t_op(t_b(n)) == T_CALL + CID_EXP && is_arg(t_a(t_b(n)), use_grids); }
static _Bool weight_ok(_Bool wt, _Bool use_grids) { int w = g_hill_w; return t_op(w) == T_MUL && t_a(w) == g_node[0] && is_scale(t_b(w), wt, use_grids); }
void k_new_hill(_Bool well_tempered, _Bool use_grids)
__CPROVER_requires(g_tn == 0 && g_nhill == 0 && g_nsum == 0 && g_kb >= 0.0 && g_kb <= 1.0 && g_step_abs >= 0 && (g_inrange == 0 || g_inrange == 1))
__CPROVER_assigns(__CPROVER_object_whole(g_node), __CPROVER_object_whole(e_l), TERM_FRAME, g_nhill, g_hill_w, g_hill_step, g_hill_c, g_hill_s, g_nsum, g_sum_range)
__CPROVER_ensures(g_nhill == 1 && g_hill_step == g_step_abs && g_hill_c == 3 && g_hill_s == 4)
__CPROVER_ensures(weight_ok(well_tempered, use_grids))
__CPROVER_ensures(g_nsum == (well_tempered ? ((use_grids && !g_inrange) ? 2 : 1) : 0))
;
#endif
